"""C19 (invalid configuration is rejected; the overlap relation is symmetric; Box membership).

Three families of cases, each run on the real code first and then sent to the Lean driver
together with the implementation's outcome:

  attr     a candidate value handed to a real constructor / setter / finalize / reset
           (`cfg_attr`): outcome acc | rejA (raised when supplied) | rejF (raised at finalize/reset)
  overlap  an overlap table handed to the real `Grid`; the stored (closed) table and the
           availability matrix observed through `place` + `query` (`cfg_overlap`)
  box      `x in abmarl.tools.Box(...)` (`cfg_box`): yes | no | raises

Values are described by a small JSON language mirroring `PyVal` of lean/Abmarl/Model/Config.lean:
  ["none"] ["b",bool] ["i",n] ["f",num,den] ["fs","nan|pinf|ninf"] ["s",text] ["l",[..]] ["t",[..]]
  ["set",[..]] ["d",[[k,v],..]] ["nd",dtype,[dims],[[num,den]|"nan"|"pinf"|"ninf",..]] ["ni",n]
  ["nf",num,den] ["nfs",..] ["ag",gw,id]
Floats are exact dyadic rationals (so Python, numpy and the model's `Rat` agree bit for bit).
"""
import itertools
import json
import random as _random
import warnings
from fractions import Fraction

import compat  # noqa: F401  (puts the repository on sys.path, installs the get_inf shim)
import numpy as np

import core
import poke
import wire

from abmarl.sim.agent_based_simulation import (
    PrincipleAgent, ActingAgent, ObservingAgent, AgentBasedSimulation)
from abmarl.sim.gridworld.agent import (
    GridWorldAgent, GridObservingAgent, MovingAgent, AttackingAgent, AmmoAgent, OrientationAgent)
from abmarl.sim.gridworld.grid import Grid
from abmarl.sim.gridworld.base import GridWorldBaseComponent
from abmarl.sim.gridworld.actor import BinaryAttackActor, SelectiveAttackActor
from abmarl.sim.gridworld.done import (
    TargetAgentOverlapDone, TargetAgentInactiveDone, TargetEncodingInactiveDone)
from abmarl.sim.gridworld.state import (
    PositionState, TargetBarriersFreePlacementState, MazePlacementState)
from abmarl.tools import Box
from gymnasium.spaces import Discrete

DTYPES = {"i64": np.int64, "f64": np.float64, "i32": np.int32, "f32": np.float32, "bool": np.bool_}
SPECIALS = {"nan": float("nan"), "pinf": float("inf"), "ninf": float("-inf")}


# ------------------------------------------------------------------------------------------
# the value language
# ------------------------------------------------------------------------------------------
def _flt(num, den):
    x = float(Fraction(num, den))
    assert Fraction(x) == Fraction(num, den), f"{num}/{den} is not exactly a double"
    return x


def _elem_py(e):
    return SPECIALS[e] if isinstance(e, str) else Fraction(e[0], e[1])


def to_py(j):
    """build the real Python value"""
    t = j[0]
    if t == "none":
        return None
    if t == "b":
        return bool(j[1])
    if t == "i":
        return int(j[1])
    if t == "f":
        return _flt(j[1], j[2])
    if t == "fs":
        return SPECIALS[j[1]]
    if t == "s":
        return str(j[1])
    if t == "l":
        return [to_py(x) for x in j[1]]
    if t == "t":
        return tuple(to_py(x) for x in j[1])
    if t == "set":
        s = set(to_py(x) for x in j[1])
        assert len(s) == len(j[1]), "set elements must be distinct under Python equality"
        return s
    if t == "d":
        d = {to_py(k): to_py(v) for k, v in j[1]}
        assert len(d) == len(j[1]), "dict keys must be distinct under Python equality"
        return d
    if t == "nd":
        dt = DTYPES[j[1]]
        flat = []
        for e in j[3]:
            v = _elem_py(e)
            if isinstance(v, Fraction):
                if j[1] in ("i64", "i32", "bool"):
                    assert v.denominator == 1
                    v = int(v)
                else:
                    v = _flt(v.numerator, v.denominator)
            flat.append(v)
        a = np.array(flat, dtype=dt).reshape(tuple(j[2]))
        assert a.dtype == dt and a.shape == tuple(j[2])
        return a
    if t == "ni":
        return np.int64(j[1])
    if t == "nf":
        return np.float64(_flt(j[1], j[2]))
    if t == "nfs":
        return np.float64(SPECIALS[j[1]])
    if t == "ag":
        return GridWorldAgent(id=j[2], encoding=1) if j[1] else PrincipleAgent(id=j[2])
    raise ValueError(f"bad value description {j!r}")


def to_wire(j):
    t = j[0]
    if t == "none":
        return ["none"]
    if t == "b":
        return ["b", 1 if j[1] else 0]
    if t in ("i", "ni"):
        return [t, int(j[1])]
    if t in ("f", "nf"):
        fr = Fraction(j[1], j[2])
        return [t, fr.numerator, fr.denominator]
    if t in ("fs", "nfs"):
        return [t, j[1]]
    if t == "s":
        return ["s"] + [ord(c) for c in j[1]]
    if t in ("l", "t", "set"):
        return [t] + [to_wire(x) for x in j[1]]
    if t == "d":
        return ["d"] + [[to_wire(k), to_wire(v)] for k, v in j[1]]
    if t == "nd":
        xs = []
        for e in j[3]:
            if isinstance(e, str):
                xs.append(e)
            else:
                fr = Fraction(e[0], e[1])
                xs.append([fr.numerator, fr.denominator])
        return ["nd", j[1], list(j[2]), xs]
    if t == "ag":
        return ["ag", 1 if j[1] else 0] + [ord(c) for c in j[2]]
    raise ValueError(f"bad value description {j!r}")


def I(n):
    return ["i", n]


def F(num, den=1):
    return ["f", num, den]


def FD(x):
    """the double `x`, as the exact rational it is"""
    fr = Fraction(float(x))
    return ["f", fr.numerator, fr.denominator]


def Sx(s):
    return ["s", s]


def Lx(*xs):
    return ["l", list(xs)]


def Tx(*xs):
    return ["t", list(xs)]


def SETx(*xs):
    return ["set", list(xs)]


def Dx(*kvs):
    return ["d", [list(kv) for kv in kvs]]


def ND(dt, shape, vals):
    return ["nd", dt, list(shape), [v if isinstance(v, str) else ([v, 1] if isinstance(v, int) else list(v)) for v in vals]]


NONE = ["none"]
TRUE, FALSE = ["b", True], ["b", False]


def generic_values():
    """the library every attribute is confronted with (wrong type, boundary, reserved, numpy, ...)"""
    vs = [NONE, TRUE, FALSE]
    vs += [I(n) for n in (0, 1, -1, -2, -3, 2, 3, 4, 5, 7, 100, 2**31, 2**63 - 1, 2**63, 2**70, -2**63, -2**63 - 1)]
    vs += [F(0), F(1, 2), F(1), F(3, 2), F(-1, 8), F(2), F(3), F(-1), F(4), F(5), F(5, 2), F(1, 1024), F(1025, 1024),
           F(int(1e30)), ["fs", "nan"], ["fs", "pinf"], ["fs", "ninf"]]
    vs += [["ni", n] for n in (0, 1, 2, 5, -1, -2)]
    vs += [["nf", 1, 2], ["nf", 1, 1], ["nf", 2, 1], ["nf", 3, 2], ["nf", 0, 1], ["nfs", "nan"], ["nfs", "pinf"]]
    vs += [Sx(s) for s in ("FULL", "full", "x", "", "o", "a", "1", "a0", "FULL ")]
    vs += [Lx(), Lx(I(1)), Lx(I(1), I(2)), Lx(F(1, 2)), Lx(Lx(I(1), I(2))), Lx(I(0))]
    vs += [Tx(), Tx(I(1)), Tx(I(1), I(2))]
    vs += [SETx(), SETx(I(1)), SETx(I(1), I(2)), SETx(Sx("a"))]
    vs += [Dx(), Dx((I(1), I(2))), Dx((I(1), SETx(I(2)))), Dx((Sx("a"), Sx("b")))]
    vs += [ND("i64", [2], [1, 2]), ND("f64", [2], [(3, 2), 2]), ND("i64", [1], [1]), ND("i64", [1], [0]),
           ND("f64", [1], [2]), ND("i64", [], [2]), ND("i64", [], [0]), ND("f64", [0], []), ND("i64", [1, 2], [1, 2]),
           ND("i64", [3], [1, 2, 3]), ND("i32", [2], [1, 2]), ND("f32", [2], [1, 2]), ND("bool", [2], [1, 0]),
           ND("bool", [1], [1]), ND("i64", [1], [5]), ND("i64", [1, 1], [2]), ND("f64", [1], [(5, 2)]),
           ND("f64", [1], ["nan"]), ND("i32", [1], [3]), ND("f64", [2], [0, 0]), ND("i64", [2], [0, 0])]
    vs += [["ag", False, "p"], ["ag", True, "g"]]
    return vs


def leaves(j):
    if j[0] in ("l", "t"):
        out = []
        for x in j[1]:
            out += leaves(x)
        return out
    return [j]


def k2_shape(j):
    """shape of the former finding K2 (fixed in 9e72b84; kept as a tag of the input distribution): goes through
    np.asarray(x, dtype=int) and holds a non-integral finite float"""
    if j[0] not in ("l", "t", "nf"):
        return False
    return any(x[0] in ("f", "nf") and Fraction(x[1], x[2]).denominator != 1 for x in leaves(j))


def box_modelled(j, is_int, top=True):
    """inputs whose behaviour the model declares `unmodelled` are never fed"""
    t = j[0]
    if t in ("l", "t"):
        return all(box_modelled(x, is_int, False) for x in j[1])
    if t == "s":
        return False
    if t == "nd":
        return top
    if top and t in ("i", "f", "fs"):
        return True
    if t in ("nfs",) and is_int:
        return False
    if t == "nf" and is_int:
        return abs(int(Fraction(j[1], j[2]))) < 2**63
    return True


# ------------------------------------------------------------------------------------------
# attribute sites: the real constructors / setters / finalize / reset
# ------------------------------------------------------------------------------------------
class _Sim(AgentBasedSimulation):
    def reset(self, **kw): pass
    def step(self, action, **kw): pass
    def render(self, **kw): pass
    def get_obs(self, agent_id, **kw): pass
    def get_reward(self, agent_id, **kw): pass
    def get_done(self, agent_id, **kw): pass
    def get_all_done(self, **kw): pass
    def get_info(self, agent_id, **kw): pass


ENCS = [1, 2, 3]
IDS = ["a0", "a1", "a2"]


def _agents():
    return {
        "a0": AttackingAgent(id="a0", encoding=1, attack_range=1, attack_strength=1, attack_accuracy=1),
        "a1": GridWorldAgent(id="a1", encoding=2),
        "a2": GridWorldAgent(id="a2", encoding=3),
    }


def _comp(cls, **kw):
    return cls(agents=_agents(), grid=Grid(4, 4), **kw)


def _setter(make, name):
    def f(v):
        obj = make()
        setattr(obj, name, v)
        return obj
    return f


def _fin(obj):
    obj.finalize()


def _fin_twice(obj):
    """a configuration that finalize() rejected is still wrong when finalize() is called again: the LAST answer counts"""
    try:
        obj.finalize()
    except Exception:  # noqa: BLE001
        pass
    obj.finalize()


def _reset(st):
    np.random.seed(0)
    _random.seed(0)
    st.reset()


SPACES = {
    "disc3": (lambda: Discrete(3), ["disc", 3]),
    "boxI1": (lambda: Box(1, 3, (1,), int), ["box", [1, [1], [1, 1], [3, 1]]]),
    "boxF2": (lambda: Box(0, 1, (2,), float), ["box", [0, [2], [0, 1], [1, 1]]]),
    "boxI0": (lambda: Box(0, 2, (), int), ["box", [1, [], [0, 1], [2, 1]]]),
}
NO_SPACE = ["disc", 0]


class Site:
    def __init__(self, name, attr, assign, final=None, encs=(), ids=(), space=NO_SPACE, extra=(), skip=None):
        self.name, self.attr, self.assign, self.final = name, attr, assign, final
        self.encs, self.ids, self.space, self.extra, self.skip = list(encs), list(ids), space, list(extra), skip


def _gw(**kw):
    return GridWorldAgent(id="a", encoding=1, **kw)


def _att(**kw):
    base = dict(id="a", encoding=1, attack_range=1, attack_strength=1, attack_accuracy=1)
    base.update(kw)
    return AttackingAgent(**base)


def _null_extras():
    return [I(n) for n in (0, 1, 2, 3, 4, -1)] + [["ni", 3], ["ni", 4], ND("i64", [], [1]), ND("i64", [], [3]),
            ND("i32", [], [1]), ND("f64", [], [1]), ND("bool", [], [1]),
            Lx(I(1)), Lx(I(0)), Lx(I(4)), Lx(I(3)), Lx(FD(1.9)), Lx(F(1, 2)), Lx(F(7, 2)), Lx(F(2)), Tx(I(2)),
            ND("i64", [1], [1]), ND("i64", [1], [3]), ND("i64", [1], [4]), ND("f64", [1], [1]), ND("i32", [1], [2]),
            ND("f64", [2], [0, 1]), ND("f64", [2], [(1, 2), (1, 2)]), ND("f64", [2], [2, 0]), ND("f64", [2], [(1, 2), "nan"]),
            ND("i64", [2], [0, 1]), ND("i64", [2], [1, 1]), ND("f32", [2], [(1, 2), 1]), ND("f64", [2, 1], [1, 1]),
            Lx(F(1, 2), F(1, 2)), Lx(I(0), I(1)), Lx(I(1), I(1)), Lx(I(1), I(2)), Lx(F(1, 2)), Tx(F(1, 2), I(1)),
            Lx(Lx(F(1, 2), F(1, 2))), Lx(NONE, I(1)), F(1, 4), ["nf", 1, 4], ["nf"] + FD(1.9)[1:], ["nf", 5, 2]]


def _enc_mapping_extras():
    one = I(1)
    return [Dx((one, I(2))), Dx((one, SETx(I(2), I(3)))), Dx((one, one)), Dx((one, SETx(one))), Dx((one, I(4))),
            Dx((I(4), one)), Dx((one, SETx(I(4)))), Dx((one, SETx(I(2), I(4)))), Dx((TRUE, I(2))), Dx((F(1), I(2))),
            Dx((one, TRUE)), Dx((one, F(2))), Dx((one, SETx(F(2)))), Dx((I(2), SETx(TRUE))), Dx((one, Lx(I(2)))),
            Dx((one, Tx(I(2)))), Dx((one, NONE)), Dx((one, Sx("2"))), Dx((Sx("1"), I(2))), Dx((NONE, one)),
            Dx((Tx(one), I(2))), Dx((one, SETx())), Dx((one, Dx())), Dx((["ni", 1], I(2))), Dx((one, ["ni", 2])),
            Dx((one, SETx(["ni", 2]))), Dx((one, I(2)), (I(2), I(3)), (I(3), SETx(one, I(2)))),
            Dx((one, I(2)), (I(5), one)), Dx((I(0), one)), Dx((I(-1), one)), Dx((one, SETx(Sx("a")))),
            Dx((one, SETx(NONE))), Dx((one, SETx(I(2), Sx("a")))), Dx((one, F(3, 2))), Dx((F(3, 2), one)),
            Dx((one, SETx(F(3, 2)))), Dx((I(2), SETx(I(2)))), Dx((I(2), I(2))), Dx((I(2), SETx(one, I(2)))),
            Dx((I(2), F(2))), Dx((I(2), SETx(F(2)))), Dx((F(2), I(2))), Dx((one, I(2)), (I(2), one)),
            Dx((one, ND("i64", [1], [2]))), Dx((one, ["ag", True, "g"]))]


def _id_mapping_extras():
    a0, a1, a2, zz = Sx("a0"), Sx("a1"), Sx("a2"), Sx("zz")
    return [Dx((a0, a1)), Dx((a0, a0)), Dx((a0, zz)), Dx((zz, a0)), Dx((a0, I(1))), Dx((I(1), a0)), Dx((a0, NONE)),
            Dx((a0, Lx(a1))), Dx((a0, SETx(a1))), Dx((a0, a1), (a1, a2)), Dx((a0, a1), (a1, zz)), Dx((NONE, a0)),
            Dx((Sx(""), a0)), Dx((a0, Sx(""))), Dx((Tx(a0), a1)), Dx((a0, Tx(a1))), Dx((a0, a1), (a1, a2), (a2, a0)),
            Dx((a0, TRUE)), Dx((TRUE, a0)), Dx((Sx("A0"), a1)), Dx((a0, ["ag", True, "a1"]))]


def _agents_extras():
    P = lambda i: ["ag", False, i]
    G = lambda i: ["ag", True, i]
    return [Dx((Sx("p"), P("p"))), Dx((Sx("g"), G("g"))), Dx((Sx("x"), P("p"))), Dx((Sx("x"), G("g"))),
            Dx((Sx("p"), P("p")), (Sx("g"), G("g"))), Dx((Sx("p"), P("p")), (Sx("x"), G("g"))),
            Dx((Sx("g"), G("g")), (Sx("h"), G("h"))), Dx((Sx("g"), G("g")), (Sx("h"), G("g"))),
            Dx((Sx("p"), I(1))), Dx((Sx("p"), NONE)), Dx((Sx("p"), Sx("p"))), Dx((I(1), P("p"))), Dx((NONE, G("g"))),
            Dx((Sx("p"), Lx(P("p")))), Dx((Tx(Sx("g")), G("g"))), Dx((Sx(""), P(""))), Dx((Sx(""), G(""))),
            Dx((Sx("g"), Dx((Sx("g"), G("g"))))), Dx((Sx("G"), G("g"))), Dx((Sx("g "), G("g"))),
            Dx((Sx("g"), G("g")), (Sx("p"), P("p")), (Sx("h"), G("h"))), Lx(G("g")), G("g"), SETx(Sx("g")),
            Dx((TRUE, G("g"))), Dx((Sx("g"), TRUE)),
            # the keys are exactly the ids, but attached to the wrong agents (the pairing is what is checked)
            Dx((Sx("g"), G("h")), (Sx("h"), G("g"))), Dx((Sx("p"), P("q")), (Sx("q"), P("p"))),
            Dx((Sx("g"), G("h")), (Sx("h"), G("i")), (Sx("i"), G("g"))),
            Dx((Sx("p"), P("p")), (Sx("g"), G("h")), (Sx("h"), G("g"))),
            Dx((Sx("g"), G("g")), (Sx("h"), G("h")), (Sx("i"), G("i")))]


def _encset_values():
    return [NONE, I(1), I(2), I(3), I(4), SETx(I(1)), SETx(I(1), I(2)), SETx(I(1), I(2), I(3)), SETx(I(2), I(3)),
            SETx(I(3)), SETx(I(4)), SETx(F(1)), SETx(TRUE), Sx("x"), Lx(I(1)), SETx(I(1), Sx("a")), F(1), TRUE, SETx(),
            SETx(["ni", 2]), SETx(I(1), I(4)), ["ni", 1], Tx(I(1), I(2)), I(0), SETx(F(3, 2))]


def _overlap_extras():
    one = I(1)
    return [Dx((one, I(2))), Dx((one, SETx(I(2)))), Dx((one, SETx(I(2), I(3)))), Dx((one, Dx())), Dx((one, SETx())),
            Dx((Sx("a"), one)), Dx((one, Sx("a"))), Dx((one, SETx(Sx("a")))), Dx((TRUE, one)), Dx((one, TRUE)),
            Dx((one, SETx(TRUE))), Dx((F(1), one)), Dx((one, F(1))), Dx((one, SETx(F(1)))), Dx((one, Lx(I(2)))),
            Dx((one, Tx(I(2)))), Dx((one, NONE)), Dx((NONE, one)), Dx((one, I(2)), (I(2), SETx(I(3)))),
            Dx((["ni", 1], I(2))), Dx((one, ["ni", 2])), Dx((one, SETx(["ni", 2]))), Dx((I(-1), I(0))),
            Dx((I(0), I(0))), Dx((one, I(2)), (I(2), Sx("x"))), Dx((one, SETx(I(2), Sx("x")))),
            Dx((one, SETx(I(2), NONE))), Dx((Tx(one), one)), Dx((one, F(3, 2))), Dx((one, I(2**70)))]


def _position_extras():
    return [ND("i64", [2], [0, 1]), ND("f64", [2], [0, 1]), ND("i32", [2], [0, 1]), ND("f32", [2], [0, 1]),
            ND("bool", [2], [1, 0]), ND("i64", [3], [0, 1, 2]), ND("i64", [1, 2], [0, 1]), ND("i64", [2, 1], [0, 1]),
            ND("i64", [1], [0]), ND("i64", [], [0]), Lx(I(0), I(1)), Tx(I(0), I(1)), ND("i64", [2], [-1, 5]),
            ND("f64", [2], [(1, 2), (3, 2)]), ND("f64", [2], ["nan", 0]), ND("i64", [2], [100, 100]),
            Lx(F(0), F(1)), Lx(I(0), Sx("a")), Tx(I(0), I(1), I(2)), ND("i64", [0], []), ND("f64", [2, 2], [0, 1, 2, 3])]


def build_sites():
    S = []
    big = lambda j: j[0] == "i" and abs(j[1]) > 64
    pa = lambda: PrincipleAgent(id="a")
    S.append(Site("PrincipleAgent(id=v)", "id", lambda v: PrincipleAgent(id=v), _fin))
    S.append(Site("PrincipleAgent.id=v", "id", _setter(pa, "id")))
    S.append(Site("GridWorldAgent(id=v)", "id", lambda v: GridWorldAgent(id=v, encoding=1), _fin))
    S.append(Site("AttackingAgent(id=v)", "id", lambda v: _att(id=v), _fin))
    S.append(Site("PrincipleAgent(seed=v)", "seed", lambda v: PrincipleAgent(id="a", seed=v), _fin))
    S.append(Site("GridWorldAgent(seed=v)", "seed", lambda v: _gw(seed=v), _fin))
    S.append(Site("PrincipleAgent.active=v", "active", _setter(pa, "active")))
    S.append(Site("GridWorldAgent.active=v", "active", _setter(_gw, "active")))
    S.append(Site("GridWorldAgent(encoding=v)", "encoding", lambda v: GridWorldAgent(id="a", encoding=v), _fin))
    S.append(Site("GridWorldAgent.encoding=v", "encoding", _setter(_gw, "encoding")))
    S.append(Site("MovingAgent(encoding=v)", "encoding", lambda v: MovingAgent(id="a", encoding=v, move_range=1), _fin))
    S.append(Site("GridWorldAgent(initial_position=v)", "initialPosition", lambda v: _gw(initial_position=v), _fin,
                  extra=_position_extras()))
    S.append(Site("GridWorldAgent(blocking=v)", "flag", lambda v: _gw(blocking=v), _fin))
    S.append(Site("GridWorldAgent(render_shape=v)", "renderShape", lambda v: _gw(render_shape=v), _fin,
                  extra=[Sx(c) for c in ("v", "^", "8", "P", "*", "d", "D", "oo", "O", " o", "0", "ox")]))
    S.append(Site("GridWorldAgent(render_color=v)", "renderColor", lambda v: _gw(render_color=v), _fin))
    S.append(Site("GridWorldAgent(render_size=v)", "renderSize", lambda v: _gw(render_size=v), _fin))
    S.append(Site("GridWorldAgent.health=v", "health", _setter(_gw, "health")))
    S.append(Site("GridWorldAgent(initial_health=v)", "initialHealth", lambda v: _gw(initial_health=v), _fin))
    S.append(Site("GridObservingAgent(view_range=v)", "range",
                  lambda v: GridObservingAgent(id="a", encoding=1, view_range=v), _fin))
    S.append(Site("MovingAgent(move_range=v)", "range", lambda v: MovingAgent(id="a", encoding=1, move_range=v), _fin))
    S.append(Site("AttackingAgent(attack_range=v)", "range", lambda v: _att(attack_range=v), _fin))
    S.append(Site("AttackingAgent(attack_strength=v)", "unit", lambda v: _att(attack_strength=v), _fin))
    S.append(Site("AttackingAgent(attack_accuracy=v)", "unit", lambda v: _att(attack_accuracy=v), _fin))
    S.append(Site("AttackingAgent.attack_accuracy=v", "unit", _setter(_att, "attack_accuracy")))
    S.append(Site("AttackingAgent(simultaneous_attacks=v)", "simAttacks", lambda v: _att(simultaneous_attacks=v), _fin))
    S.append(Site("AmmoAgent(initial_ammo=v)", "initialAmmo", lambda v: AmmoAgent(id="a", encoding=1, initial_ammo=v), _fin))
    S.append(Site("AmmoAgent.ammo=v", "ammo", _setter(lambda: AmmoAgent(id="a", encoding=1, initial_ammo=3), "ammo")))
    S.append(Site("OrientationAgent(initial_orientation=v)", "initialOrientation",
                  lambda v: OrientationAgent(id="a", encoding=1, initial_orientation=v), _fin))
    S.append(Site("OrientationAgent.orientation=v", "orientation",
                  _setter(lambda: OrientationAgent(id="a", encoding=1), "orientation")))
    for sn, (mk, sw) in SPACES.items():
        is_int_box = sw[0] == "box" and sw[1][0] == 1
        # every given point reaches `x in space` now (fc3584a): never feed what the model calls unmodelled
        nskip = (lambda ib: lambda j: j[0] != "none" and j != ["d", []] and not box_modelled(j, ib))(is_int_box) \
            if sw[0] == "box" else None
        S.append(Site(f"ActingAgent(action_space={sn}, null_action=v).finalize()", "nullPoint",
                      (lambda mk: lambda v: ActingAgent(id="a", action_space=mk(), null_action=v))(mk), _fin,
                      space=sw, extra=_null_extras(), skip=nskip))
        S.append(Site(f"ObservingAgent(observation_space={sn}, null_observation=v).finalize()", "nullPoint",
                      (lambda mk: lambda v: ObservingAgent(id="a", observation_space=mk(), null_observation=v))(mk), _fin,
                      space=sw, extra=_null_extras(), skip=nskip))
        # ... and through the simulation, asked twice (what finalize() rejected once it rejects again)
        S.append(Site(f"Sim(agents={{a: ActingAgent(action_space={sn}, null_action=v)}}).finalize() twice", "nullPoint",
                      (lambda mk: lambda v: _Sim(agents={"a": ActingAgent(id="a", action_space=mk(), null_action=v)}))(mk),
                      _fin_twice, space=sw, extra=_null_extras(), skip=nskip))
        S.append(Site(f"Sim(agents={{a: ObservingAgent(observation_space={sn}, null_observation=v)}}).finalize() twice",
                      "nullPoint",
                      (lambda mk: lambda v: _Sim(agents={"a": ObservingAgent(id="a", observation_space=mk(),
                                                                             null_observation=v)}))(mk),
                      _fin_twice, space=sw, extra=_null_extras(), skip=nskip))
    S.append(Site("AgentBasedSimulation(agents=v)", "agentsSim", lambda v: _Sim(agents=v), extra=_agents_extras()))
    S.append(Site("GridWorldBaseComponent(agents=v)", "agentsComp",
                  lambda v: GridWorldBaseComponent(agents=v, grid=Grid(2, 2)), extra=_agents_extras()))
    S.append(Site("PositionState(agents=v)", "agentsComp", lambda v: PositionState(agents=v, grid=Grid(2, 2)),
                  extra=_agents_extras()))
    S.append(Site("BinaryAttackActor(attack_mapping=v)", "attackMapping",
                  lambda v: _comp(BinaryAttackActor, attack_mapping=v), encs=ENCS, ids=IDS, extra=_enc_mapping_extras()))
    S.append(Site("SelectiveAttackActor(attack_mapping=v)", "attackMapping",
                  lambda v: _comp(SelectiveAttackActor, attack_mapping=v), encs=ENCS, ids=IDS, extra=_enc_mapping_extras()))
    S.append(Site("BinaryAttackActor(stacked_attacks=v)", "flag",
                  lambda v: _comp(BinaryAttackActor, attack_mapping={1: {2}}, stacked_attacks=v)))
    S.append(Site("TargetEncodingInactiveDone(target_mapping=v)", "targetEncMapping",
                  lambda v: _comp(TargetEncodingInactiveDone, target_mapping=v), encs=ENCS, ids=IDS,
                  extra=_enc_mapping_extras()))
    S.append(Site("TargetEncodingInactiveDone(sim_ends_if_one_done=v)", "optFlag",
                  lambda v: _comp(TargetEncodingInactiveDone, target_mapping={1: 2}, sim_ends_if_one_done=v)))
    S.append(Site("TargetAgentOverlapDone(target_mapping=v)", "targetIdMapping",
                  lambda v: _comp(TargetAgentOverlapDone, target_mapping=v), encs=ENCS, ids=IDS, extra=_id_mapping_extras()))
    S.append(Site("TargetAgentInactiveDone(target_mapping=v)", "targetIdMapping",
                  lambda v: _comp(TargetAgentInactiveDone, target_mapping=v), encs=ENCS, ids=IDS, extra=_id_mapping_extras()))
    for cls in (TargetBarriersFreePlacementState, MazePlacementState):
        S.append(Site(f"{cls.__name__}(barrier_encodings=v)", "encSet",
                      (lambda cls: lambda v: _comp(cls, target_agent="a0", barrier_encodings=v))(cls),
                      encs=ENCS, ids=IDS, extra=_encset_values()))
        S.append(Site(f"{cls.__name__}(free_encodings=v)", "encSet",
                      (lambda cls: lambda v: _comp(cls, target_agent="a0", free_encodings=v))(cls),
                      encs=ENCS, ids=IDS, extra=_encset_values()))
        S.append(Site(f"{cls.__name__}(cluster_barriers=v)", "flag",
                      (lambda cls: lambda v: _comp(cls, target_agent="a0", cluster_barriers=v))(cls)))
    S.append(Site("TargetBarriersFreePlacementState(scatter_free_agents=v)", "flag",
                  lambda v: _comp(TargetBarriersFreePlacementState, target_agent="a0", scatter_free_agents=v)))
    S.append(Site("PositionState(no_overlap_at_reset=v)", "flag", lambda v: _comp(PositionState, no_overlap_at_reset=v)))
    S.append(Site("PositionState(randomize_placement_order=v)", "flag",
                  lambda v: _comp(PositionState, randomize_placement_order=v)))
    S.append(Site("TargetBarriersFreePlacementState(barrier_encodings=b, free_encodings=f).reset()", "barrierFree",
                  lambda v: _comp(TargetBarriersFreePlacementState, target_agent="a0",
                                  barrier_encodings=v[0], free_encodings=v[1]),
                  _reset, encs=ENCS, ids=IDS, extra=[Tx(b, f) for b in _encset_values() for f in _encset_values()],
                  skip=lambda j: not (j[0] == "t" and len(j[1]) == 2)))
    S.append(Site("Grid(rows=v)", "gridDim", lambda v: Grid(v, 3), skip=big))
    S.append(Site("Grid(cols=v)", "gridDim", lambda v: Grid(3, v), skip=big))
    S.append(Site("Grid(overlapping=v)", "overlapping", lambda v: Grid(2, 2, overlapping=v), extra=_overlap_extras()))
    return S


# ------------------------------------------------------------------------------------------
# the property
# ------------------------------------------------------------------------------------------
def _canon_table(d):
    return [[k, sorted(set(v))] for k, v in sorted(d.items())]


class ConfigProp(core.Prop):
    pid = "C19"

    def __init__(self):
        self.lean_targets = ["Abmarl.Props.C19"]
        self.rule = (
            "attr: every site (real constructor/setter/finalize/reset of every agent class, Grid and the components "
            "with validated mappings) x a library of ~90 generic candidate values (None, bools, small/boundary/reserved/"
            "huge ints, dyadic floats, nan/inf, numpy scalars, strings, lists, tuples, sets, dicts, arrays of several "
            "dtypes and shapes, agent objects) plus site-specific candidates; distinct by (site, value). overlap: every "
            "table over encodings {1,2,3} (entry absent / int-valued / any subset), then seeded random tables over up to "
            "6 encodings; stored table and the availability matrix over all mentioned encodings plus an unmentioned one, "
            "observed on the real Grid by place(B) then query(A) and place(A); distinct by table. box: integer and float "
            "Boxes of shapes (), (1,), (3,), (2,2) with several bounds x exhaustive small candidates then seeded random "
            "scalars, numpy scalars, (nested, ragged, mixed) lists and tuples, arrays of right/wrong shape and dtype, "
            "in range / boundary / out of range / nan / inf; distinct by (box, value). Non-trivial = the outcome is not "
            "decided by the container type alone: attr: the value is a number, string, array or a dict/set/tuple the "
            "site was written for; overlap: the table has a one-sided entry; box: the candidate denotes numbers.")
        self.assumptions = [
            "floats are fed as dyadic rationals (exact in IEEE double and in the model's Rat); nan/inf as tagged specials",
            "inputs the model declares unmodelled are not fed: strings handed to np.asarray (numpy parses '1'), numpy "
            "float nan/inf/huge cast to an integer dtype (platform C cast), arrays nested inside lists",
            "which exception class is raised is recorded in the input distribution but not compared",
            "Box bounds are scalars (all Boxes Abmarl builds are); gymnasium's Discrete.contains is modelled for the "
            "null points only",
            "the barrier/free cover check is observed through TargetBarriersFreePlacementState.reset on a 4x4 grid "
            "with three agents (seeded), where placement itself cannot fail",
        ]
        self._sites = None

    # -- helpers ----------------------------------------------------------------------------
    def sites(self):
        if self._sites is None:
            self._sites = {s.name: s for s in build_sites()}
        return self._sites

    def _attr_case(self, site, j):
        with warnings.catch_warnings():
            warnings.simplefilter("ignore")
            err = ""
            v = to_py(j)
            try:
                obj = site.assign(v)
                out = "acc"
            except Exception as e:  # any exception is a rejection when supplied
                out, err = "rejA", type(e).__name__
            if out == "acc" and site.final is not None:
                try:
                    site.final(obj)
                except Exception as e:
                    out, err = "rejF", type(e).__name__
        line = wire.enc(["cfg_attr", site.attr, site.encs, [[ord(c) for c in i] for i in site.ids], site.space,
                         to_wire(j), out])
        desc = {"op": "attr", "site": site.name, "value": j}
        nontrivial = j[0] not in ("none", "ag") and not (j[0] in ("l", "set", "d", "t") and
                                                          site.attr not in ("attackMapping", "targetEncMapping",
                                                                            "targetIdMapping", "encSet", "barrierFree",
                                                                            "agentsSim", "agentsComp", "overlapping",
                                                                            "nullPoint", "initialPosition"))
        tags = ["attr", "attr:" + site.attr, "out:" + out] + (["exc:" + err] if err else [])
        return core.Case(desc, line, out, key="A|" + site.name + "|" + json.dumps(j), nontrivial=nontrivial, tags=tags)

    def _overlap_case(self, table, univ, share=False, later=None):
        """table: [[key, ["i", v] | ["s", [v..]]], ...] in dict order.
        share: rows with equal contents are one and the same set object (finding K19b);
        later: rows of a second table, built on top of the first one's row objects and handed to another
        Grid *after* the measured grid was built (a history: the measured grid must not change)"""
        d, pool = {}, {}
        for k, val in table:
            if val[0] == "i":
                d[k] = val[1]
            elif share:
                d[k] = pool.setdefault(tuple(val[1]), set(val[1]))
            else:
                d[k] = set(val[1])
        assert len(d) == len(table)
        try:
            grid = Grid(2, 2, overlapping=d)
            if later is not None:
                d2 = dict(d)                                  # the very same row objects
                for k, val in later:
                    d2[k] = val[1] if val[0] == "i" else set(val[1])
                try:
                    Grid(2, 2, overlapping=d2)
                except Exception:  # noqa: BLE001
                    pass
            # rejected assignments on the live grid: the accepted table stays in force (round 6)
            poke.rejected(grid, [sorted((repr(k), repr(v)) for k, v in d.items()), repr(later)], share=2,
                          only={"overlapping"})
            closed = _canon_table(grid.overlapping)
            agents = {e: (GridWorldAgent(id=f"x{e}", encoding=e), GridWorldAgent(id=f"y{e}", encoding=e)) for e in univ}
            bits = []
            for a in univ:
                for b in univ:
                    grid.reset()
                    assert grid.place(agents[b][1], (0, 0)) is True
                    q = bool(grid.query(agents[a][0], (0, 0)))
                    p = bool(grid.place(agents[a][0], (0, 0)))
                    bits.append([q, p])
            # piles: a cell holding B1 and B2 (in either order of arrival) is available to A exactly when a cell
            # holding B1 alone and a cell holding B2 alone both are (consistency of the real Grid with itself)
            thirds = {e: GridWorldAgent(id=f"z{e}", encoding=e) for e in univ}
            nu = len(univ)
            pile_bad = None
            for ia, a in enumerate(univ[:4]):
                for i1, b1 in enumerate(univ[:4]):
                    for i2, b2 in enumerate(univ[:4]):
                        if not bits[i1 * nu + i2][0]:
                            continue                     # B2 may not join B1: no such pile
                        grid.reset()
                        assert grid.place(agents[b1][1], (0, 0)) is True
                        if grid.place(thirds[b2], (0, 0)) is not True:
                            continue
                        got = bool(grid.query(agents[a][0], (0, 0)))
                        want = bits[ia * nu + i1][0] and bits[ia * nu + i2][0]
                        if got != want and pile_bad is None:
                            pile_bad = [a, b1, b2, int(got), int(want)]
            if pile_bad is not None:
                implv = ["pile-availability-is-not-the-conjunction", pile_bad]
                impl_closed, impl_bits = "none", []
            elif any(q != p for q, p in bits):
                implv = ["query-place-differ", [[int(q), int(p)] for q, p in bits]]
                impl_closed, impl_bits = "none", []
            else:
                impl_closed, impl_bits = closed, [int(q) for q, _ in bits]
                implv = [impl_closed, impl_bits]
        except Exception as e:
            implv, impl_closed, impl_bits = ["raised", type(e).__name__], "none", []
        raw = [[k, (["i", val[1]] if val[0] == "i" else ["s"] + list(val[1]))] for k, val in table]
        line = wire.enc(["cfg_overlap", raw, list(univ), impl_closed, impl_bits])
        desc = {"op": "overlap", "table": table, "univ": list(univ)}
        if share:
            desc["share"] = True
        if later is not None:
            desc["later"] = later
        pairs = {(k, o) for k, val in table for o in ([val[1]] if val[0] == "i" else val[1])}
        one_sided = any((o, k) not in pairs for k, o in pairs)
        tags = ["overlap", "overlap:keys=%d" % len(table)] + (["overlap:one-sided"] if one_sided else []) + \
               (["overlap:int-valued"] if any(v[0] == "i" for _, v in table) else []) + \
               (["overlap:shared-row-objects"] if share and len(pool) < sum(1 for _, v in table if v[0] == "s") else []) + \
               (["overlap:later-grid-on-same-rows"] if later is not None else [])
        return core.Case(desc, line, wire.enc(implv), key="O|" + json.dumps([table, share, later]),
                         nontrivial=one_sided, tags=tags)

    def _box_case(self, box, j):
        is_int, shape, low, high = box["int"], tuple(box["shape"]), Fraction(*box["low"]), Fraction(*box["high"])
        assert box_modelled(j, is_int), f"unmodelled candidate {j!r}"
        conv = int if is_int else (lambda q: _flt(q.numerator, q.denominator))
        b = Box(conv(low), conv(high), shape, int if is_int else float)
        with warnings.catch_warnings():
            warnings.simplefilter("ignore")
            err = ""
            try:
                out = "yes" if (to_py(j) in b) else "no"
            except Exception as e:
                out, err = "raises", type(e).__name__
        line = wire.enc(["cfg_box", [1 if is_int else 0, list(shape), [low.numerator, low.denominator],
                                     [high.numerator, high.denominator]], to_wire(j), out])
        desc = {"op": "box", "box": box, "value": j}
        numeric = all(x[0] in ("b", "i", "f", "fs", "ni", "nf", "nfs") for x in leaves(j)) or j[0] == "nd"
        tags = ["box", "box:%s%s" % ("int" if is_int else "float", list(shape)), "box:" + j[0], "out:" + out] + \
               (["exc:" + err] if err else []) + (["box:k2-shape"] if is_int and k2_shape(j) else [])
        return core.Case(desc, line, out, key="B|" + json.dumps([box, j]), nontrivial=numeric, tags=tags)

    def case_from_desc(self, desc):
        if desc["op"] == "attr":
            return self._attr_case(self.sites()[desc["site"]], desc["value"])
        if desc["op"] == "overlap":
            return self._overlap_case(desc["table"], desc["univ"], desc.get("share", False), desc.get("later"))
        if desc["op"] == "box":
            return self._box_case(desc["box"], desc["value"])
        raise ValueError(desc)

    # -- generation -------------------------------------------------------------------------
    def cases(self, tier, rng):
        quick = tier == "quick"
        # 1. attributes
        gen = generic_values()
        for site in self.sites().values():
            seen = set()
            for j in site.extra + gen:
                k = json.dumps(j)
                if k in seen or (site.skip and site.skip(j)):
                    continue
                seen.add(k)
                yield self._attr_case(site, j)
        # 2. overlap tables: exhaustive over {1,2,3}, then random over up to 6 encodings
        subsets = [list(c) for r in range(4) for c in itertools.combinations([1, 2, 3], r)]
        options = [None] + [["i", v] for v in (1, 2, 3)] + [["s", s] for s in subsets]
        for combo in itertools.product(options, repeat=3):
            table = [[k, v] for k, v in zip((1, 2, 3), combo) if v is not None]
            yield self._overlap_case(table, [1, 2, 3, 9])
        # the same tables in another dict order (the closure loop runs in dict order)
        for combo in itertools.product(options[:6] + options[8:9], repeat=3):
            table = [[k, v] for k, v in zip((3, 1, 2), combo) if v is not None]
            yield self._overlap_case(table, [1, 2, 3, 9])
        for _ in range(3000 if quick else 60000):
            n = rng.randint(1, 6)
            encs = list(range(1, n + 1))
            keys = [e for e in encs if rng.random() < 0.6]
            rng.shuffle(keys)
            table = []
            for k in keys:
                if rng.random() < 0.35:
                    table.append([k, ["i", rng.choice(encs)]])
                else:
                    table.append([k, ["s", sorted(e for e in encs if rng.random() < 0.4)]])
            yield self._overlap_case(table, encs + [9])
            # the same table with equal rows sharing one set object, and/or followed by a second grid whose
            # table is built on the same row objects plus one-sided rows pointing at them
            u = rng.random()
            if u < 0.6:
                later = None
                if u < 0.4:
                    later = [[rng.choice(encs + [n + 1]), rng.choice([["i", rng.choice(encs)],
                                                                     ["s", sorted(e for e in encs if rng.random() < 0.5)]])]
                             for _ in range(rng.randint(1, 2))]
                    later = [list(x) for x in {x[0]: x for x in later}.values()]
                yield self._overlap_case(table, encs + [9], share=rng.random() < 0.6, later=later)
        # rows sharing one set object, exhaustively over {1,2,3} (finding K19b)
        for s1 in subsets:
            for other in options:
                for keys in ((1, 2, 3), (2, 3, 1), (3, 1, 2)):
                    table = [[keys[0], ["s", s1]], [keys[1], ["s", s1]]] + ([[keys[2], other]] if other else [])
                    yield self._overlap_case(table, [1, 2, 3, 9], share=True)
        # 3. Box membership
        for box in box_kinds():
            for j in box_exhaustive(box):
                yield self._box_case(box, j)
            for _ in range(5000 if quick else 20000):
                yield self._box_case(box, gen_point(rng, box))

    # -- verdict ----------------------------------------------------------------------------
    def interpret(self, reply, case):
        if case.desc["op"] == "overlap":
            closed, bits, ms, is_ = reply
            if is_ == -1:
                # the implementation raised or query/place disagreed: no outcome the judge could read
                return core.Verdict(wire.enc([closed, bits]), ms == 1, False, detail="implementation gave no table")
            return core.Verdict(wire.enc([closed, bits]), ms == 1, is_ == 1)
        m, ms, is_ = reply
        if m == "unmodelled":
            raise ValueError("the harness fed an input the model declares unmodelled")
        if is_ not in (0, 1):
            raise ValueError("driver could not parse the implementation outcome")
        return core.Verdict(str(m), ms == 1, is_ == 1)

    def shrink_candidates(self, desc):
        if desc["op"] == "overlap":
            t = desc["table"]
            for i in range(len(t)):
                yield dict(desc, table=t[:i] + t[i + 1:])
            for i, (k, v) in enumerate(t):
                if v[0] == "s" and len(v[1]) > 0:
                    for x in v[1]:
                        yield dict(desc, table=t[:i] + [[k, ["s", [y for y in v[1] if y != x]]]] + t[i + 1:])
        elif desc["value"][0] in ("l", "t", "set", "d"):
            j = desc["value"]
            for i in range(len(j[1])):
                yield dict(desc, value=[j[0], j[1][:i] + j[1][i + 1:]])

    # -- known findings ---------------------------------------------------------------------
    def finding_matchers(self):
        """no open finding: K19a (fc3584a) and K2 (9e72b84) are fixed; their reproducers are corpus cases"""
        return {}


# ------------------------------------------------------------------------------------------
# Box candidates
# ------------------------------------------------------------------------------------------
def box_kinds():
    kinds = []
    for shape in ([], [1], [3], [2, 2]):
        kinds.append({"int": True, "shape": shape, "low": [0, 1], "high": [1, 1]})
        kinds.append({"int": True, "shape": shape, "low": [-2, 1], "high": [5, 1]})
        kinds.append({"int": False, "shape": shape, "low": [0, 1], "high": [1, 1]})
        kinds.append({"int": False, "shape": shape, "low": [-3, 2], "high": [5, 2]})
    # what the small scopes never reach: bounds in the millions (a non-integral value there is relatively close to an
    # integer: 123456.5 differs from 123456 by less than 1e-5 of its size)
    kinds.append({"int": True, "shape": [1], "low": [0, 1], "high": [1000000, 1]})
    kinds.append({"int": True, "shape": [2], "low": [-1000000, 1], "high": [1000000, 1]})
    return kinds


def _leaf_alphabet(is_int):
    a = [I(0), I(1), I(2), I(-1), F(1, 2), F(1), FD(1.9), F(-1, 2), TRUE, FALSE, ["ni", 1], ["ni", 7], ["nf", 1, 2],
         ["nf", 1, 1], NONE, ["fs", "nan"], ["fs", "pinf"], I(2**70), F(5, 2), F(-3, 2), I(5), I(6), I(-2), I(-3),
         I(123456), F(246913, 2), F(1999999, 2), FD(3.00001), F(-600001, 2), I(1000000), I(1000001)]
    if not is_int:
        a += [["nfs", "nan"], ["nfs", "ninf"]]
    return a


def box_exhaustive(box):
    """small scopes: every scalar of the alphabet, every list/tuple of <= 2 leaves, wrappers of them"""
    is_int = box["int"]
    alpha = _leaf_alphabet(is_int)
    out = list(alpha) + [["fs", "ninf"], I(2**63), I(2**63 - 1), I(-2**63), I(-2**63 - 1), Dx(), SETx(I(1)), SETx(),
                         Dx((I(1), I(2))), ["ag", True, "g"], Lx(), Tx(), Lx(Lx()), Lx(Lx(), Lx()), Lx(Lx(), I(1))]
    for x in alpha:
        out += [Lx(x), Tx(x), Lx(Lx(x)), Lx(x, x, x)]
    small = alpha[:14]
    for x in small:
        for y in small:
            out.append(Lx(x, y))
    for x in small[:8]:
        for y in small[:8]:
            out += [Lx(Lx(x, y), Lx(y, x)), Lx(Lx(x, y), Lx(y)), Lx(x, Lx(y)), Lx(Tx(x, y), Lx(x, x))]
    for dt in DTYPES:
        for shape in ([], [1], [3], [2, 2], [2], [1, 1], [3, 1], [4], [0], [2, 2, 1]):
            n = int(np.prod(shape)) if shape else 1
            for val in ([0], [1], [2], [-3], [6]) + (([(1, 2)], [(15, 8)], ["nan"], ["pinf"]) if dt in ("f64", "f32") else ()):
                if dt == "bool" and val[0] not in (0, 1):
                    continue
                out.append(ND(dt, shape, val * n))
    return [j for j in out if box_modelled(j, is_int)]


def _rand_leaf(rng, box, bias_in):
    is_int = box["int"]
    lo, hi = Fraction(*box["low"]), Fraction(*box["high"])
    r = rng.random()
    if bias_in and r < 0.75:
        # a value inside the bounds
        if is_int or rng.random() < 0.4:
            n = rng.randint(int(np.ceil(lo)), int(np.floor(hi)))
            kind = rng.random()
            return I(n) if kind < 0.7 else (["ni", n] if kind < 0.85 else F(n))
        q = lo + (hi - lo) * Fraction(rng.randint(0, 64), 64)
        return F(q.numerator, q.denominator) if rng.random() < 0.85 else ["nf", q.numerator, q.denominator]
    r = rng.random()
    if r < 0.30:
        return I(rng.choice([rng.randint(-4, 8), int(lo) - 1, int(hi) + 1, int(lo), int(hi)]))
    if r < 0.60:
        q = Fraction(rng.randint(-16, 32), 4)
        return F(q.numerator, q.denominator)
    if r < 0.68:
        return ["ni", rng.randint(-4, 8)]
    if r < 0.76:
        q = Fraction(rng.randint(-16, 32), 4)
        return ["nf", q.numerator, q.denominator]
    if r < 0.82:
        return rng.choice([TRUE, FALSE])
    if r < 0.86:
        return NONE
    if r < 0.90:
        return rng.choice([["fs", "nan"], ["fs", "pinf"], ["fs", "ninf"]])
    if r < 0.93:
        return rng.choice([I(2**63), I(-2**63 - 1), I(2**70), I(2**62), F(int(1e30)), F(2**53), F(-2**60)])
    if r < 0.96 and not is_int:
        return rng.choice([["nfs", "nan"], ["nfs", "pinf"]])
    return rng.choice([SETx(I(1)), Dx(), ["ag", False, "p"], Dx((I(0), I(1)))])


def _nest(rng, box, shape, bias_in, tup_p=0.2):
    if not shape:
        return _rand_leaf(rng, box, bias_in)
    items = [_nest(rng, box, shape[1:], bias_in, tup_p) for _ in range(shape[0])]
    return ["t" if rng.random() < tup_p else "l", items]


def _wrong_shape(rng, shape):
    alts = [[], [1], [2], [3], [4], [2, 2], [1, 1], [3, 1], [1, 3], [2, 3], [0], [2, 0], [2, 2, 1], [1, 2, 2]]
    alts = [s for s in alts if s != list(shape)]
    return rng.choice(alts)


def gen_point(rng, box):
    is_int, shape = box["int"], list(box["shape"])
    lo, hi = Fraction(*box["low"]), Fraction(*box["high"])
    for _ in range(100):
        r = rng.random()
        if r < 0.12:
            j = _rand_leaf(rng, box, rng.random() < 0.5)                      # bare scalar of any kind
        elif r < 0.42:
            j = _nest(rng, box, shape if shape else [1] if rng.random() < 0.5 else [], rng.random() < 0.8)
        elif r < 0.52:
            j = _nest(rng, box, _wrong_shape(rng, shape), True)               # well-formed, wrong shape
        elif r < 0.60:
            # ragged / mixed depth
            base = _nest(rng, box, shape if shape else [2], True)
            if base[0] in ("l", "t") and base[1]:
                i = rng.randrange(len(base[1]))
                base[1][i] = rng.choice([Lx(), Lx(I(0)), I(0), Lx(I(0), I(1), I(0)), Lx(Lx(I(0)))])
            j = base
        else:
            dt = rng.choice(["i64", "i64", "f64", "f64", "i32", "f32", "bool"])
            sh = shape if rng.random() < 0.75 else _wrong_shape(rng, shape)
            n = int(np.prod(sh)) if sh else 1
            vals = []
            inside = rng.random() < 0.7
            for _ in range(n):
                if dt == "bool":
                    vals.append(rng.randint(0, 1))
                elif dt in ("i64", "i32"):
                    vals.append(rng.randint(int(np.ceil(lo)), int(np.floor(hi))) if inside and rng.random() < 0.9
                                else rng.choice([rng.randint(-5, 9), int(lo) - 1, int(hi) + 1, 2**31 - 1 if dt == "i32" else 2**62]))
                else:
                    u = rng.random()
                    if inside and u < 0.9:
                        q = lo + (hi - lo) * Fraction(rng.randint(0, 16), 16)
                        if is_int and rng.random() < 0.7:
                            q = Fraction(rng.randint(int(np.ceil(lo)), int(np.floor(hi))))
                        vals.append((q.numerator, q.denominator))
                    elif u < 0.95:
                        q = Fraction(rng.randint(-20, 36), 4)
                        vals.append((q.numerator, q.denominator))
                    else:
                        vals.append(rng.choice(["nan", "pinf", "ninf"]))
            j = ND(dt, sh, vals)
        if box_modelled(j, is_int):
            return j
    raise RuntimeError("could not generate a modelled Box candidate")
