"""C09 (grid observers): per-call refinement of the five built-in observers' `get_obs`.

A case is one real `get_obs(agent)` call of one real observer component built over a real `Grid`
with real agents (`gridw.RealWorld`), run under the scripted oracle tape.  The world (static and
dynamic wire form, `view_range` as resolved by the observer's constructor), the observer kind,
the agent index, `observe_self`, the tape and the canonical observation (numpy arrays as nested
int lists) go to the driver op `gobs`, which answers with the model's observation on the same
world and tape and with the judge `specC09` on both observations.

Also checked on the real side (C02's clause, cheap here, reported as runtime-check violations):
the returned observation is `in agent.observation_space[key]` and so is the null observation.

case desc = {"world": gridw desc (+ "place_order": order in which the active agents are put on
             the grid, so that insertion order inside a cell differs from listing order),
             "kind": absolute|centered|stacked|position|ammo, "observe_self": bool,
             "agent": index, "tape": [naturals]}
"""
import copy
import json

import compat  # noqa: F401  (first: puts the working tree on sys.path)
import numpy as np

import core
import gridw
import poke
import oracle
import wire
from mgr import guarded

from abmarl.sim.gridworld.observer import (
    AbsoluteEncodingObserver, PositionCenteredEncodingObserver,
    StackedPositionCenteredEncodingObserver, AbsolutePositionObserver, AmmoObserver,
)

GRID_KINDS = [("absolute", True), ("centered", True), ("centered", False), ("stacked", True)]
ALL_KINDS = GRID_KINDS + [("position", True), ("ammo", True)]

# offsets (rows, cols) from the observer at which other agents are preferably put: adjacent,
# diagonal, on the axes, knight moves, farther out (window edge for ranges 2 and 3)
OFFSETS = [(0, 1), (1, 0), (0, -1), (-1, 0), (1, 1), (1, -1), (-1, 1), (-1, -1),
           (0, 2), (2, 0), (0, -2), (-2, 0), (1, 2), (2, 1), (-1, 2), (2, -1), (-2, 1), (1, -2),
           (-1, -2), (-2, -1), (2, 2), (-2, -2), (2, -2), (-2, 2), (0, 3), (3, 0), (0, -3), (-3, 0),
           (3, 1), (1, 3), (-3, -1), (-1, -3), (3, 3), (-3, 3)]


# ----------------------------------------------------------------------------------------------
# the real side

def canon(kind, key, val):
    """canonical wire form of what get_obs returned"""
    if not isinstance(val, dict):
        return ["err", "notdict"]
    if len(val) == 0:
        return ["none"]
    if list(val.keys()) != [key]:
        return ["err", "badkey"]
    x = val[key]
    try:
        if kind in ("absolute", "centered", "stacked"):
            arr = np.asarray(x)
            want = 3 if kind == "stacked" else 2
            if arr.ndim != want or arr.dtype.kind not in "iu" or arr.size == 0:
                return ["err", "badarray"]
            return ["stack" if kind == "stacked" else "grid", arr.tolist()]
        if kind == "position":
            arr = np.asarray(x)
            if arr.shape != (2,) or arr.dtype.kind not in "iu":
                return ["err", "badarray"]
            return ["vec", [int(arr[0]), int(arr[1])]]
        if kind == "ammo":
            if isinstance(x, bool) or not isinstance(x, (int, np.integer)):
                return ["err", "badvalue"]
            return ["scalar", int(x)]
    except Exception as ex:  # noqa: BLE001
        return ["err", "canon:" + type(ex).__name__]
    return ["err", "kind"]


_CTORS = {
    ("absolute", True): lambda kw: AbsoluteEncodingObserver(**kw),
    ("centered", True): lambda kw: PositionCenteredEncodingObserver(observe_self=True, **kw),
    ("centered", False): lambda kw: PositionCenteredEncodingObserver(observe_self=False, **kw),
    ("stacked", True): lambda kw: StackedPositionCenteredEncodingObserver(**kw),
    ("position", True): lambda kw: AbsolutePositionObserver(**kw),
    ("ammo", True): lambda kw: AmmoObserver(**kw),
}


class ObsSession:
    """One world description; for every observer configuration that is asked for, its **own** real
    world (fresh Grid and agents) with only that observer constructed over it, so that each
    constructor resolves `"FULL"` and assigns its spaces by itself (built lazily, cached)."""

    def __init__(self, wdesc):
        self.wdesc = wdesc
        self.parts = {}
        self.problems = []                  # real-side space problems (what, detail)
        w, _ = self.part(("position", True))
        self.w = w
        self.stat = w.stat_wire()
        self.dyn = w.dyn_wire()
        # the view range the property is about is the configured one ("FULL" = max(rows, cols) - 1), not
        # whatever a constructor wrote into the agent: a wrong resolution must show as a disagreement
        for i, a in enumerate(wdesc["agents"]):
            if a.get("observing"):
                vr = a.get("view_range", 0)
                self.stat[3][i][16] = max(wdesc["rows"], wdesc["cols"]) - 1 if vr == "FULL" else int(vr)

    def part(self, key):
        if key not in self.parts:
            d = dict(self.wdesc)
            state = d.get("state")
            d["state"] = None
            if key[0] == "stacked":
                d.pop("late", None)     # the stacked observer declares counts up to the number of agents it was BUILT with
            w = gridw.RealWorld(d)
            ob = _CTORS[key](dict(grid=w.grid, agents=w.agents))
            w.finish()
            poke.rejected(ob, [self.wdesc, list(key)])
            earlier = self.wdesc.get("earlier")
            if earlier is not None:
                # a history: the same observer object has already observed, for every agent, an earlier
                # state of the same world (an observation is a function of the current state alone)
                gridw.set_state_in_order(w, earlier, None)
                # (round 6) in half of the histories nobody was blocking yet when the observer first looked: the flags
                # are switched on through the agents' public `blocking` setter afterwards, the number of agents is
                # the same - what blocks is read from the agents as they are NOW
                flags = [(ag, ag.blocking) for ag in w.agent_list] if len(repr(earlier)) % 2 == 0 else []
                for ag, _ in flags:
                    ag.blocking = False
                for ag in w.agent_list:
                    with oracle.scripted(oracle.Tape([0] * 400)):
                        guarded(lambda: ob.get_obs(ag))
                for ag, b in flags:
                    ag.blocking = b
            gridw.set_state_in_order(w, state, self.wdesc.get("place_order"))
            for i, ag in enumerate(w.agent_list):
                if ob._supported_agent(ag):
                    try:
                        ok = (ob.key in ag.observation_space and ob.key in ag.null_observation and
                              ag.null_observation[ob.key] in ag.observation_space[ob.key])
                    except Exception:  # noqa: BLE001
                        ok = False
                    if not ok:
                        self.problems.append(("null observation of %s is not in the declared space" % ob.key,
                                              {"agent": i, "kind": key[0]}))
            self.parts[key] = (w, ob)
        return self.parts[key]

    def call(self, kind, os_, a, tape):
        """-> (canonical outcome, number of tape draws, space problem or None)"""
        w, ob = self.part((kind, bool(os_) if kind == "centered" else True))
        agent = w.agent_list[a]
        tp = oracle.Tape(tape)

        def run():
            with oracle.scripted(tp):
                return ob.get_obs(agent)
        st, val = guarded(run)
        if st != "ok":
            return ["err", st], tp.pos, None
        out = canon(kind, ob.key, val)
        problem = None
        if isinstance(val, dict) and val:
            try:
                inside = ob.key in agent.observation_space and val[ob.key] in agent.observation_space[ob.key]
            except Exception:  # noqa: BLE001
                inside = False
            if not inside:
                problem = "observation of %s is not in agent.observation_space[%r]" % (kind, ob.key)
        return out, tp.pos, problem


# ----------------------------------------------------------------------------------------------
# layouts

def _agent(enc, **kw):
    a = dict(gridw.AG_DEFAULT)
    a["enc"] = enc
    a.update(kw)
    return a


def gen_population(rng, rows, cols):
    """static part of a layout: overlap table, the observer's configuration and the other agents"""
    nenc = rng.randint(1, 4)
    encs = sorted(rng.sample(range(1, 7), nenc))
    mode = rng.choice(["all", "all", "all", "partial", "none"])
    if mode == "all":
        overlap = [[e, list(encs)] for e in encs]
    elif mode == "none":
        overlap = []
    else:
        overlap = gridw.gen_overlap(rng, encs)
    k = rng.randint(0, min(8, rows * cols + 3))
    others = []
    for _ in range(k):
        a = _agent(rng.choice(encs), blocking=rng.random() < 0.4)
        if rng.random() < 0.2:
            a["observing"] = True
            a["view_range"] = rng.choice([0, 1, 2, "FULL"])
        if rng.random() < 0.2:
            a["has_ammo"] = True
            a["init_ammo"] = rng.randint(0, 5)
        others.append(a)
    obs = _agent(rng.choice(encs), blocking=rng.random() < 0.25, observing=True)
    if rng.random() < 0.7:
        obs["has_ammo"] = True
        obs["init_ammo"] = rng.randint(0, 6)
    return overlap, obs, others


def place_population(rng, rows, cols, overlap, obs, others, cell, view_range, dead_observer=False):
    """world desc with the observer on `cell`; the others near it, piled up where the overlap
    table permits, some of them dead.  Returns (world desc, observer index)."""
    sym = gridw.closed(overlap)
    n = len(others) + 1
    oi = rng.randrange(n)
    agents = list(others)
    agents.insert(oi, dict(obs, view_range=view_range))
    state = [None] * n
    occ = {}
    order = list(range(n))
    rng.shuffle(order)
    for i in order:
        a = agents[i]
        ammo = rng.randint(0, a["init_ammo"]) if a["has_ammo"] else 0
        if i == oi:
            if dead_observer:
                state[i] = {"pos": list(cell), "health": [0, 1], "ammo": ammo, "orient": 1}
                continue
            pos = cell if gridw.may_join(sym, a["enc"], occ.get(cell, [])) else None
            if pos is None:
                return None, None      # somebody incompatible was put there first: caller retries
        else:
            pos = None
            if rng.random() >= 0.12:
                for _ in range(12):
                    p = rng.random()
                    if p < 0.45:
                        dr, dc = rng.choice(OFFSETS)
                        cand = (cell[0] + dr, cell[1] + dc)
                    elif p < 0.75 and occ:
                        cand = rng.choice(sorted(occ))
                    elif p < 0.8:
                        cand = cell
                    else:
                        cand = (rng.randrange(rows), rng.randrange(cols))
                    if not (0 <= cand[0] < rows and 0 <= cand[1] < cols):
                        continue
                    if cand == cell and not dead_observer and state[oi] is None:
                        # keep the observer's cell joinable by the observer
                        if not gridw.may_join(sym, obs["enc"], occ.get(cand, []) + [a["enc"]]) or \
                                not gridw.may_join(sym, a["enc"], occ.get(cand, []) + [obs["enc"]]):
                            continue
                    if gridw.may_join(sym, a["enc"], occ.get(cand, [])):
                        pos = cand
                        break
        if pos is None:
            state[i] = {"pos": [rng.randrange(rows), rng.randrange(cols)], "health": [0, 1],
                        "ammo": ammo, "orient": 1}
        else:
            occ.setdefault(pos, []).append(a["enc"])
            state[i] = {"pos": list(pos), "health": rng.choice([[1, 1], [1, 2], [3, 4], [1, 1024]]),
                        "ammo": ammo, "orient": 1}
    # agents placed before the observer may have made its cell unjoinable in a later step: the
    # order of placement is the order above, so legality was checked step by step
    return ({"rows": rows, "cols": cols, "overlap": overlap, "agents": agents, "state": state,
             "place_order": order}, oi)


def full_board(R, blocker_off, pad=0, transparent_enc=2):
    """(2(R+pad)+1)^2 grid, observer in the centre, one blocking agent at `blocker_off`, a
    non-blocking agent on every other cell: every cell of the observation is distinguishable"""
    n = 2 * (R + pad) + 1
    ctr = R + pad
    agents = [_agent(1, observing=True, view_range=R, has_ammo=True, init_ammo=3)]
    state = [{"pos": [ctr, ctr], "health": [1, 1], "ammo": 2, "orient": 1}]
    for r in range(n):
        for c in range(n):
            if (r, c) == (ctr, ctr):
                continue
            if (r - ctr, c - ctr) == tuple(blocker_off):
                agents.append(_agent(3, blocking=True))
            else:
                agents.append(_agent(transparent_enc + (r * n + c) % 2 * 2))     # encodings 2 and 4
            state.append({"pos": [r, c], "health": [1, 1], "ammo": 0, "orient": 1})
    return {"rows": n, "cols": n, "overlap": [], "agents": agents, "state": state,
            "place_order": list(range(len(agents)))}, 0


def pile_world(rng, rows, cols, cell, pile_cell, encs, view_range, with_observer_on_pile):
    """several agents with different encodings on one cell (complete overlap table)"""
    overlap = [[e, sorted(set(encs) | {1})] for e in sorted(set(encs) | {1})]
    agents = [_agent(1, observing=True, view_range=view_range)]
    state = [{"pos": list(pile_cell if with_observer_on_pile else cell), "health": [1, 1], "ammo": 0, "orient": 1}]
    for e in encs:
        agents.append(_agent(e, blocking=False))
        state.append({"pos": list(pile_cell), "health": [1, 1], "ammo": 0, "orient": 1})
    order = list(range(len(agents)))
    rng.shuffle(order)
    return {"rows": rows, "cols": cols, "overlap": overlap, "agents": agents, "state": state,
            "place_order": order}, 0


def observer_kinds(rng, a, rows, cols):
    """`kinds` callback for gridw.gen_world: a mix of observing / ammo agents"""
    if rng.random() < 0.6:
        a["observing"] = True
        a["view_range"] = rng.choice([0, 1, 1, 2, 3, "FULL", max(rows, cols) + 1]) if max(rows, cols) < 8 else \
            rng.choice([1, 3, 6, 8, 9, 11, 15, 16, "FULL", max(rows, cols) + 2])      # big worlds: long views too
    if rng.random() < 0.4:
        a["has_ammo"] = True
        a["init_ammo"] = rng.choice([0, 1, 2, 3, 4, 5, 9, 10, 11, 99, 100, 1000])
    a["blocking"] = rng.random() < 0.35


# ----------------------------------------------------------------------------------------------

def make_earlier(rng, wdesc, oi):
    """an earlier legal state of the same world: the observer and up to two other agents stood on other
    (empty) cells, one of them may have been alive / dead"""
    state = copy.deepcopy(wdesc["state"])
    rows, cols = wdesc["rows"], wdesc["cols"]
    taken = {tuple(s["pos"]) for s in state if s["health"][0] > 0}
    empty = [(r, c) for r in range(rows) for c in range(cols) if (r, c) not in taken]
    rng.shuffle(empty)
    # (half of the time the observer itself stays where it is and the blocking agents are the ones that stood
    # elsewhere: only what it sees changes)
    others = [i for i in range(len(state)) if i != oi]
    if rng.random() < 0.5:
        blockers = [i for i in others if wdesc["agents"][i].get("blocking")]
        movers = blockers[:6] or rng.sample(others, min(2, len(others)))
    else:
        movers = [oi] + rng.sample(others, min(2, len(others)))
    moved = False
    for i in movers:
        if empty and state[i]["health"][0] > 0:
            state[i]["pos"] = list(empty.pop())
            moved = True
    return state if moved else None


class ObsProp(core.Prop):
    pid = "C09"

    def __init__(self):
        self.lean_targets = ["Abmarl.Props.C09"]
        self.rule = (
            "one real get_obs(agent) call of one of the five built-in observers (centred with both observe_self "
            "values) over a real Grid/agents world, under the scripted oracle tape; the whole observation is compared "
            "with the model's and judged by specC09. Families: `cell` - the observer on EVERY cell of every grid "
            "1x1..5x5 (thorough 7x7, incl. 1xN and Nx1), every view range 0..FULL+1 (and the string 'FULL'), random "
            "populations (blocking agents adjacent / diagonal / on axes / farther out, pile-ups where the overlap table "
            "permits, dead agents, dead observer, observer anywhere in the agents dictionary, cells filled in a "
            "shuffled order), several tapes per layout; `board` - one blocker at every offset of the window, every "
            "other cell occupied (every entry distinguishable); `pile` - up to 4 encodings on one cell, with/without "
            "the observer, every first tape value; `random` - gridw.gen_world states, any agent (also unsupported), "
            "any observer. distinct by (world, observer, agent, option, tape); non-trivial = supported agent and, for "
            "the grid views, another agent inside the view window")
        self.assumptions = [
            "np.random.choice is replaced by the scripted oracle (element v mod len); theorems hold for every tape",
            "worlds are built by setting agent state directly and placing active agents through Grid.place in a "
            "shuffled order; the world description has one `observing` flag (GridObservingAgent): an ObservingAgent "
            "that is a GridWorldAgent but not a GridObservingAgent is outside the generated family",
            "an observer whose stored position is outside the grid is outside the hypotheses (the model answers with "
            "an explicit error, the real slicing would wrap around); every generated observer, dead or alive, has an "
            "in-grid position",
            "the observation-space membership of observations and null observations is checked on the real objects "
            "(runtime-only); the Lean lemmas *_in_declared_space are about the judge",
        ]
        self._rt = []
        self.space_checks = 0
        self.space_failures = 0

    # -- one case -----------------------------------------------------------------------------
    def _case(self, sess, wdesc, kind, os_, a, tape, family):
        out, draws, problem = sess.call(kind, os_, a, tape)
        self.space_checks += 1
        desc = {"world": wdesc, "kind": kind, "observe_self": bool(os_), "agent": a, "tape": list(tape)}
        if problem:
            self.space_failures += 1
            if len(self._rt) < 3:
                self._rt.append((problem, desc))
        line = wire.enc(["gobs", sess.stat, sess.dyn, [kind, a, 1 if os_ else 0], list(tape), out])
        cfg = sess.stat[3][a]
        supported = cfg[15] and (kind != "ammo" or cfg[11])
        R = cfg[16]
        sts = sess.dyn[1]
        pr, pc = sts[a][0]
        tags = ["fam:" + family, "kind:" + kind + ("" if kind != "centered" else (":self" if os_ else ":noself"))]
        if wdesc.get("earlier") is not None:
            tags.append("after-earlier-observations")
        nontrivial = bool(supported)
        if not supported:
            tags.append("unsupported")
        elif kind in ("absolute", "centered", "stacked"):
            tags.append("R:%d" % min(R, 9))
            rows, cols = sess.stat[0], sess.stat[1]
            if R >= max(rows, cols) - 1:
                tags.append("range>=FULL")
            if pr - R < 0 or pc - R < 0 or pr + R >= rows or pc + R >= cols:
                tags.append("window-beyond-grid")
            on_border = pr in (0, rows - 1) or pc in (0, cols - 1)
            corner = pr in (0, rows - 1) and pc in (0, cols - 1)
            tags.append("observer:" + ("corner" if corner else "border" if on_border else "interior"))
            if not sts[a][2]:
                tags.append("dead-observer")
            others_in_window = 0
            for i, s in enumerate(sts):
                if i != a and s[2] and abs(s[0][0] - pr) <= R and abs(s[0][1] - pc) <= R:
                    others_in_window += 1
                    if sess.stat[3][i][1] and (s[0][0], s[0][1]) != (pr, pc):
                        tags.append("blocker-in-window")
                if i != a and not s[2]:
                    tags.append("dead-other")
            nontrivial = others_in_window > 0
            cells = sess.dyn[0]
            big = [c for c in cells if len(c) >= 2]
            if big:
                tags.append("pile-up:%d" % min(4, max(len(set(sess.stat[3][i][0] for i in c)) for c in big)))
                if any(a in c for c in big):
                    tags.append("observer-shares-cell")
            if kind != "stacked":
                tags.append("draws:%s" % ("0" if draws == 0 else "1-3" if draws <= 3 else "4+"))
            if out[0] in ("grid", "stack"):
                flat = json.dumps(out[1])
                if "-2" in flat:
                    tags.append("has:-2")
                if "-1" in flat:
                    tags.append("has:-1")
        if out[0] == "err":
            tags.append("impl-raised:" + str(out[1])[:30])
        key = json.dumps([sess.stat, sess.dyn, kind, bool(os_), a, list(tape)[:draws]])
        return core.Case(desc, line, wire.enc(out), key=key, nontrivial=nontrivial, tags=sorted(set(tags)))

    def _flush_problems(self, sess, wdesc):
        for what, det in sess.problems:
            self.space_failures += 1
            if len(self._rt) < 3:
                self._rt.append((what, {"world": wdesc, "detail": det}))
        sess.problems = []

    def case_from_desc(self, d):
        sess = ObsSession(copy.deepcopy(d["world"]))
        c = self._case(sess, d["world"], d["kind"], d.get("observe_self", True), d["agent"], d.get("tape", []),
                       d.get("family", "replay"))
        self._flush_problems(sess, d["world"])
        return c

    def _session_cases(self, rng, wdesc, oi, family, kinds, ntapes, tape_max=12):
        if wdesc.get("state") and "earlier" not in wdesc and rng.random() < 0.5:
            e = make_earlier(rng, wdesc, oi)
            if e is not None:
                wdesc = dict(wdesc, earlier=e)
        try:
            sess = ObsSession(copy.deepcopy(wdesc))
        except ValueError:
            return
        R = sess.stat[3][oi][16]
        ncell = (2 * R + 1) ** 2
        for kind, os_ in kinds:
            if kind in ("absolute", "centered"):
                tapes = [[rng.randrange(tape_max) for _ in range(min(ncell, 40))] for _ in range(max(1, ntapes - 1))]
                if ntapes > 1:
                    tapes.append([])
            else:
                tapes = [[]]
            for tp in tapes:
                yield self._case(sess, wdesc, kind, os_, oi, tp, family)
        self._flush_problems(sess, wdesc)

    # -- generators -------------------------------------------------------------------------------
    def cases(self, tier, rng):
        quick = tier == "quick"
        self._rt, self.space_checks, self.space_failures = [], 0, 0
        side = 5 if quick else 7

        # A. the observer on every cell of every grid, every view range
        for rows in range(1, side + 1):
            for cols in range(1, side + 1):
                full = max(rows, cols) - 1
                for pop in range(2 if quick else 3):
                    overlap, obs, others = gen_population(rng, rows, cols)
                    for r0 in range(rows):
                        for c0 in range(cols):
                            for vr in list(range(0, full + 2)) + ["FULL"]:
                                if vr == "FULL" and rng.random() < 0.5:
                                    continue
                                dead = rng.random() < 0.08
                                wdesc = None
                                for _ in range(4):
                                    wdesc, oi = place_population(rng, rows, cols, overlap, obs, others, (r0, c0), vr, dead)
                                    if wdesc is not None:
                                        break
                                if wdesc is None:
                                    continue
                                kinds = list(GRID_KINDS)
                                if vr == 0:
                                    kinds += [("position", True), ("ammo", True)]
                                yield from self._session_cases(rng, wdesc, oi, "cell", kinds, 2 if quick else 3)

        # B. one blocker at every offset of the window, every other cell occupied
        for R in range(1, 3 if quick else 4):
            for pad in ((0,) if quick or R == 3 else (0, 1)):
                for rd in range(-R, R + 1):
                    for cd in range(-R, R + 1):
                        if (rd, cd) == (0, 0):
                            continue
                        wdesc, oi = full_board(R, (rd, cd), pad)
                        yield from self._session_cases(rng, wdesc, oi, "board", GRID_KINDS, 1)

        # C. pile-ups of up to four encodings; every first tape value
        for rows, cols in ((1, 2), (2, 2), (3, 3), (2, 4)) if quick else ((1, 2), (2, 1), (2, 2), (3, 3), (2, 4), (4, 3)):
            for npile in range(1, 5):
                for rep in range(2 if quick else 5):
                    encs = rng.sample(range(1, 6), npile)
                    if rng.random() < 0.3:
                        encs.append(rng.choice(encs))      # two agents of one encoding on the pile
                    cell = (rng.randrange(rows), rng.randrange(cols))
                    pile = (rng.randrange(rows), rng.randrange(cols))
                    for on_pile in (False, True):
                        if not on_pile and pile == cell:
                            continue
                        wdesc, oi = pile_world(rng, rows, cols, cell, pile, encs, rng.choice([1, 2, "FULL"]), on_pile)
                        try:
                            sess = ObsSession(copy.deepcopy(wdesc))
                        except ValueError:
                            continue
                        for v in range(len(encs) + 2):
                            for kind, os_ in GRID_KINDS[:3]:
                                yield self._case(sess, wdesc, kind, os_, oi, [v] * 30, "pile")
                        yield self._case(sess, wdesc, "stacked", True, oi, [], "pile")
                        self._flush_problems(sess, wdesc)

        # C'. cells exactly on a bounding ray of a shadow: blocker at (a, b) seen from (0, 0), agents on (2a-1, 2b+1) and
        #     (2a+1, 2b-1); such a cell is visible (strict comparison); floating point first errs at about range 15
        for a_ in range(1, 10):
            for b_ in range(1, 10):
                rows, cols = 2 * a_ + 2, 2 * b_ + 2
                ags = [dict(gridw.AG_DEFAULT, enc=1, observing=True, view_range="FULL"),
                       dict(gridw.AG_DEFAULT, enc=2, blocking=True),
                       dict(gridw.AG_DEFAULT, enc=3), dict(gridw.AG_DEFAULT, enc=3)]
                st = [{"pos": [0, 0], "health": [1, 1], "ammo": 0, "orient": 1},
                      {"pos": [a_, b_], "health": [1, 1], "ammo": 0, "orient": 1},
                      {"pos": [2 * a_ - 1, 2 * b_ + 1], "health": [1, 1], "ammo": 0, "orient": 1},
                      {"pos": [2 * a_ + 1, 2 * b_ - 1], "health": [1, 1], "ammo": 0, "orient": 1}]
                wdesc = {"rows": rows, "cols": cols, "overlap": [], "agents": ags, "state": st}
                try:
                    sess = ObsSession(copy.deepcopy(wdesc))
                except ValueError:
                    continue
                for kind, os_ in GRID_KINDS[:3]:
                    yield self._case(sess, wdesc, kind, os_, 0, [0] * 40, "on-ray")
                self._flush_problems(sess, wdesc)

        # C''. numerically fragile ties (gridw.fragile_ties): the cell on the ray is one at which another floating-point
        #      evaluation order of the ray formula misses the exact value; ranges 9..40, a sample per run
        ties = gridw.fragile_ties(40)
        for dr, dc, r_, c_ in rng.sample(ties, 30 if quick else 300):
            transpose = rng.random() < 0.5
            R_ = max(r_, c_)
            b_pos, t_pos = ([dc, dr], [c_, r_]) if transpose else ([dr, dc], [r_, c_])
            ags = [dict(gridw.AG_DEFAULT, enc=1, observing=True, view_range="FULL"),
                   dict(gridw.AG_DEFAULT, enc=2, blocking=True), dict(gridw.AG_DEFAULT, enc=3)]
            st = [{"pos": [0, 0], "health": [1, 1], "ammo": 0, "orient": 1},
                  {"pos": b_pos, "health": [1, 1], "ammo": 0, "orient": 1},
                  {"pos": t_pos, "health": [1, 1], "ammo": 0, "orient": 1}]
            wdesc = {"rows": R_ + 1, "cols": R_ + 1, "overlap": [], "agents": ags, "state": st}
            try:
                sess = ObsSession(copy.deepcopy(wdesc))
            except ValueError:
                continue
            for kind, os_ in GRID_KINDS[:3]:
                yield self._case(sess, wdesc, kind, os_, 0, [0] * 40, "fragile-tie")
            self._flush_problems(sess, wdesc)

        # D. random worlds, any agent (supported or not), any observer
        for _ in range(500 if quick else 12000):
            wdesc = gridw.gen_world(rng, max_side=side, max_agents=8, kinds=observer_kinds, dead_prob=0.15,
                                    big=rng.random() < 0.2)
            gridw.maybe_late(rng, wdesc, 0.1)
            order = list(range(len(wdesc["agents"])))
            rng.shuffle(order)
            wdesc["place_order"] = order
            gridw.maybe_enc0(rng, wdesc, 0.08)
            for ag, s in zip(wdesc["agents"], wdesc["state"]):      # legal vitals: ammo <= initial ammo
                s["ammo"] = min(s["ammo"], ag["init_ammo"]) if ag["has_ammo"] else 0
            watchers = [i for i, ag in enumerate(wdesc["agents"]) if ag.get("observing")]
            focus = rng.choice(watchers) if watchers else rng.randrange(len(wdesc["agents"]))
            if rng.random() < 0.6:
                e = make_earlier(rng, wdesc, focus)      # the observer objects have seen an earlier state
                if e is not None:
                    wdesc["earlier"] = e
            try:
                sess = ObsSession(copy.deepcopy(wdesc))
            except ValueError:
                continue
            for k in range(4):
                a = focus if k < 2 else rng.randrange(len(wdesc["agents"]))
                kind, os_ = rng.choice(ALL_KINDS)
                tape = [rng.randrange(50) for _ in range(rng.choice([0, 5, 60]))]
                yield self._case(sess, wdesc, kind, os_, a, tape, "random")
            self._flush_problems(sess, wdesc)

    def extra_checks(self, tier, rng, report):
        report.notes["real_side_space_checks"] = self.space_checks
        report.notes["real_side_space_failures"] = self.space_failures
        for what, desc in self._rt:
            report.runtime_failure("real code: " + what, desc)

    # -- verdict ----------------------------------------------------------------------------------
    def interpret(self, reply, case):
        model, ms, is_ = reply
        if is_[0] not in (0, 1):
            raise ValueError("driver could not parse the implementation outcome")
        hyp = ms[2] == 1
        case.tags.append("hypotheses:%d" % ms[2])
        # self-test of the theorems: under the hypotheses the model satisfies the judge and lies in the
        # declared space, and whatever the judge accepts lies in the declared space
        model_ok = (not hyp) or (ms[0] == 1 and ms[1] == 1 and (is_[0] != 1 or is_[1] == 1))
        m = wire.enc(model)
        detail = None
        if m != case.impl:
            detail = {"model": m[:600], "impl": case.impl[:600]}
            try:
                io = wire.dec(case.impl)
                if model[0] == io[0] and model[0] in ("grid", "stack"):
                    diffs = [{"index": [i, j], "model": model[1][i][j], "impl": io[1][i][j]}
                             for i in range(min(len(model[1]), len(io[1])))
                             for j in range(min(len(model[1][i]), len(io[1][i])))
                             if model[1][i][j] != io[1][i][j]]
                    detail = {"entries_differing": len(diffs), "first": diffs[:6],
                              "shape_model": [len(model[1]), len(model[1][0])],
                              "shape_impl": [len(io[1]), len(io[1][0])],
                              "legend": "-2 masked, -1 out of grid (centred) / own cell (absolute), 0 empty"}
            except Exception:  # noqa: BLE001
                pass
        return core.Verdict(m, model_ok, is_[0] == 1, detail)

    def shrink_candidates(self, d):
        w = d["world"]
        n = len(w["agents"])
        a = d["agent"]
        if w.get("earlier") is not None:
            yield dict(d, world={k: v for k, v in w.items() if k != "earlier"})
        # drop one agent other than the observer
        for i in range(n):
            if i == a:
                continue
            w2 = copy.deepcopy(w)
            del w2["agents"][i]
            del w2["state"][i]
            if w2.get("earlier") is not None:
                del w2["earlier"][i]
            if w2.get("place_order") is not None:
                w2["place_order"] = [j - (j > i) for j in w2["place_order"] if j != i]
            yield dict(d, world=w2, agent=a - (a > i))
        # smaller view range
        vr = w["agents"][a].get("view_range", 0)
        if isinstance(vr, int) and vr > 0:
            w2 = copy.deepcopy(w)
            w2["agents"][a]["view_range"] = vr - 1
            yield dict(d, world=w2)
        if d.get("tape"):
            yield dict(d, tape=[])
            yield dict(d, tape=d["tape"][:len(d["tape"]) // 2])
        # make blockers transparent
        for i in range(n):
            if w["agents"][i].get("blocking") and i != a:
                w2 = copy.deepcopy(w)
                w2["agents"][i]["blocking"] = False
                yield dict(d, world=w2)
