"""C15: the real GymWrapper and OpenSpielWrapper over real managers over the scripted stub."""
import json

import compat  # noqa: F401
import core
import mgr
import wire
from stub_sim import StubSim, script_to_wire, decode_obs
from p_trainer import instrument

from abmarl.external import GymWrapper, OpenSpielWrapper
from open_spiel.python.rl_environment import StepType


def _mk(kind, script, discrete):
    sim = StubSim(script, discrete=discrete)
    manager = mgr.make_manager(kind, sim, False)
    trace, qlog, queries = [], [], []
    instrument(manager, sim, trace, qlog, queries)
    return sim, manager, trace


def run_gym(kind, script, ag, calls):
    sim, manager, trace = _mk(kind, script, False)
    env = GymWrapper(manager)
    out = []
    for c in calls:
        before = len(trace)
        kw_lost = False
        if c[0] == "r":
            if len(out) % 2 == 1:
                # keyword arguments of reset (gymnasium's own `seed=` / `options=` among them) belong to the simulation:
                # the adapter hands them to the manager, the manager to the simulation
                kws = {"seed": 7 + len(out), "options": {"start": len(out)}, "flavour": "x"}
                st, val = mgr.guarded(lambda: env.reset(**kws))
                kw_lost = st == "ok" and getattr(sim, "last_reset_kwargs", None) != kws
            else:
                st, val = mgr.guarded(lambda: env.reset())
        else:
            st, val = mgr.guarded(lambda: env.step(c[1]))
        if len(trace) != before + 1 or kw_lost:
            # the adapter must make exactly one manager call; anything else is visible as a malformed item
            ent = [["r"], [["e", "crash"], ["n"], [0] * sim.n, sim.ghost()]]
        else:
            ent = trace[-1]
        if st == "ok":
            if c[0] == "r":
                o, info = val
                res = ["ok", [int(x) for x in o], [], [], []]
            else:
                o, r, d, trunc, info = val
                res = ["ok", [int(x) for x in o], [int(r)], [bool(d)], [[int(info["t"])]]]
        else:
            res = ["err", st]
        out.append([res, ent])
        if st not in ("ok", "rejected"):
            break
    return out


def canon_ts(sim, ts):
    obs = ts.observations
    info_state = [[sim.idx[k], decode_obs(v)] for k, v in obs["info_state"].items()]
    legal = [sim.idx[k] for k in obs["legal_actions"]]
    cur = sim.idx[obs["current_player"]]
    rewards = [] if ts.rewards is None else [[[sim.idx[k], int(v)] for k, v in ts.rewards.items()]]
    st = {StepType.FIRST: "first", StepType.MID: "mid", StepType.LAST: "last"}[ts.step_type]
    return ["ok", info_state, legal, cur, rewards, st]


RUNTIME_FAILURES = []


class _HookedOS(OpenSpielWrapper):
    """the documented hook `get_legal_actions` overridden (it "can be overwritten in a derived class"): the same
    answer, except that it fails ONCE when armed (round 6)"""
    fault_armed = False
    fault_fired = False

    def get_legal_actions(self, agent_id):
        if self.fault_armed:
            self.fault_armed, self.fault_fired = False, True
            raise RuntimeError("injected fault: the legal actions could not be computed just now")
        return super().get_legal_actions(agent_id)


def _interrupted_terminal_step(env, sim, actions):
    """round 6, after a play-through that stopped in mid-episode (nothing here reaches the model): one more step in
    which the legal-action hook fails once.  If that step was the TERMINAL one (the simulation has declared itself
    finished), the episode is over whatever the caller saw of it: the next step must start a new episode (FIRST), not
    play on in the finished one or hand out fake steps for ever ("... and let it finish")."""
    env.fault_armed, env.fault_fired = True, False
    st, _ = mgr.guarded(lambda: env.step(list(actions)))
    env.fault_armed = False
    if st == "ok" or not env.fault_fired:
        return None
    try:
        over = bool(sim.get_all_done())
    except Exception:  # noqa: BLE001
        return None
    if not over:
        return None
    st, ts = mgr.guarded(lambda: env.step(list(actions)))
    if st != "ok":
        return "after the terminal step was interrupted (get_legal_actions failed once) the next step raised: %s" % st
    if ts.step_type != StepType.FIRST:
        return ("after the terminal step was interrupted (get_legal_actions failed once) the next step did not start a "
                "new episode: step type %s" % ts.step_type)
    return None


def run_os(kind, script, calls, budget=None):
    sim, manager, trace = _mk(kind, script, True)
    env = _HookedOS(manager)
    out = []
    for c in calls:
        before = len(trace)
        if c[0] == "r":
            st, val = mgr.guarded(lambda: env.reset())
        else:
            st, val = mgr.guarded(lambda: env.step(list(c[1])))
        ents = trace[before:]
        # observations inside the recorded manager entries are Discrete ints: decode them
        ents = [[op, _decode_entry(e)] for op, e in ents]
        res = canon_ts(sim, val) if st == "ok" else ["err", st]
        out.append([res, ents])
        if st not in ("ok", "rejected"):
            break
    if out and out[-1][0][0] == "ok" and out[-1][0][5] != "last" and calls and calls[len(out) - 1][0] == "s":
        what = _interrupted_terminal_step(env, sim, calls[len(out) - 1][1])
        if what:
            RUNTIME_FAILURES.append((what, {"adapter": "ospiel", "kind": kind, "script": script,
                                            "calls": [list(c) for c in calls[:len(out)]],
                                            "after_history": "interrupted_terminal_step"}))
    return out


class OSXSession:
    """one real OpenSpielWrapper driven call by call with the richer alphabet
    ["r"] reset | ["s", acts] step | ["p", idx] `wrapper.current_player = <id of agent idx>` through the public
    setter (idx >= n: an id that is not in the simulation).  `out` is the canonical trace; `marks` are
    harness-side notes per call (not sent to the model): was the setter's target in the manager's done set."""

    def __init__(self, kind, script, shadow=False):
        self.kind, self.script = kind, script
        self.sim, self.manager, self.trace = _mk(kind, script, True)
        self.env = OpenSpielWrapper(self.manager)
        self.out, self.marks, self.calls = [], [], []
        self.dead = False
        # a second wrapper over a second manager (same script) in the same process: it is driven alongside, its
        # current player is set to *other* agents; nothing of it may show in the first one's trace
        self.shadow = None
        if shadow:
            sim2, manager2, _ = _mk(kind, script, True)
            self.shadow = (sim2, OpenSpielWrapper(manager2))

    def agent_id(self, idx):
        return self.sim.ids[idx] if idx < self.sim.n else "nobody%d" % idx

    def done_learners(self):
        da = getattr(self.manager, "done_agents", set())
        return [i for i in range(self.sim.n) if self.sim.learning[i] and self.sim.ids[i] in da]

    def running(self):
        return not getattr(self.env, "_should_reset", False)      # harness-side peek, only used to steer the generator

    def call(self, c):
        assert not self.dead
        env, sim = self.env, self.sim
        before = len(self.trace)
        self.calls.append(c)
        if c[0] == "p":
            aid = self.agent_id(c[1])
            self.marks.append("done" if c[1] in self.done_learners() and self.running() else "")
            st, _ = mgr.guarded(lambda: setattr(env, "current_player", aid))
            self.out.append(["set", st])
            if self.shadow:
                sim2, env2 = self.shadow
                other = sim2.ids[(c[1] + 1) % sim2.n]
                mgr.guarded(lambda: setattr(env2, "current_player", other))
        else:
            self.marks.append("")
            if c[0] == "r":
                st, val = mgr.guarded(lambda: env.reset())
            else:
                st, val = mgr.guarded(lambda: env.step(list(c[1])))
            ents = [[op, _decode_entry(e)] for op, e in self.trace[before:]]
            self.out.append([canon_ts(sim, val) if st == "ok" else ["err", st], ents])
            if self.shadow:
                env2 = self.shadow[1]
                mgr.guarded(lambda: env2.reset() if c[0] == "r" else env2.step(list(c[1])))
        if st not in ("ok", "rejected"):
            self.dead = True
        return self.out[-1]


def run_osx(kind, script, calls, shadow=False):
    s = OSXSession(kind, script, shadow)
    for c in calls:
        s.call(c)
        if s.dead:
            break
    return s


def _decode_entry(e):
    res = e[0]
    if res[0] == "r":
        res = ["r", [[a, decode_obs(o[0]) if len(o) == 1 else o] for a, o in res[1]]]
    elif res[0] == "s":
        res = ["s", [[a, decode_obs(o[0]) if len(o) == 1 else o] for a, o in res[1]]] + res[2:]
    return [res] + e[1:]


class AdapterProp(core.Prop):
    pid = "C15"
    lean_targets = ["Abmarl.Props.C15"]
    rule = ("play-throughs of the real GymWrapper (single learning agent) and OpenSpielWrapper (turn-based and "
            "simultaneous) over the real managers over the scripted stub; OpenSpiel-style callers keep sending "
            "actions for every agent; exhaustive small done schedules, then seeded random; the play-through is "
            "cut by a step budget of 4x the script length (a livelock is a failing input); distinct by (adapter, "
            "manager, script, calls); non-trivial = an agent finishes before the episode ends.  Setter stream "
            "(tag `setter`): the same wrappers driven with the alphabet reset | step | `current_player = id` through "
            "the public setter (learning agents, done and live, non-learning agents and unknown ids -> "
            "AssertionError), steered by the manager's done set towards 'name an agent that is already done, then "
            "step, then keep stepping' (the fake-step path), before the first reset, mid-episode, after LAST, with "
            "explicit resets, ill-formed action lists and a second wrapper in the same process; judged by "
            "specC15X (this stream found C15-K1, repaired: the fake step named a done agent)")
    assumptions = ["TimeStep/StepType containers of open_spiel are compared field by field, not modelled",
                   "discounts are constants and not compared"]

    def _gym_case(self, kind, script, ag, calls):
        tr = run_gym(kind, script, ag, calls)
        calls = calls[:len(tr)]
        wcalls = [["r"] if c[0] == "r" else ["s", c[1]] for c in calls]
        line = wire.enc(["gym", kind, script_to_wire(script), ag, wcalls, tr])
        desc = {"adapter": "gym", "kind": kind, "script": script, "agent": ag, "calls": calls}
        fin = any(it[0][0] == "ok" and it[0][3] == [True] for it in tr)
        return core.Case(desc, line, wire.enc(tr), key=json.dumps(desc, sort_keys=True), nontrivial=fin,
                         tags=["gym", mgr.KINDS[kind]] + ["err:" + it[0][1] for it in tr if it[0][0] == "err"])

    def _os_case(self, kind, script, calls):
        tr = run_os(kind, script, calls)
        calls = calls[:len(tr)]
        wcalls = [["r"] if c[0] == "r" else ["s", list(c[1])] for c in calls]
        line = wire.enc(["ospiel", kind, script_to_wire(script), wcalls, tr])
        desc = {"adapter": "ospiel", "kind": kind, "script": script, "calls": calls}
        lasts = sum(1 for it in tr if it[0][0] == "ok" and it[0][5] == "last")
        early = any(any(d for _, d in e[1][0][3]) for it in tr for e in it[1] if e[1][0][0] == "s")
        tags = ["ospiel", mgr.KINDS[kind], "episodes:%d" % lasts]
        tags += ["err:" + it[0][1] for it in tr if it[0][0] == "err"]
        if any(it[0][0] == "ok" and not it[1] for it in tr):
            tags.append("fake-step")
        return core.Case(desc, line, wire.enc(tr), key=json.dumps(desc, sort_keys=True), nontrivial=early, tags=tags)

    def runtime_failures_of_replay(self):
        return list(RUNTIME_FAILURES)

    def extra_checks(self, tier, rng, report):
        seen = set()
        for what, desc in RUNTIME_FAILURES:
            if what.split(":")[0] not in seen:
                seen.add(what.split(":")[0])
                report.runtime_failure(what, desc)
        report.notes["interrupted_terminal_step_failures"] = len(RUNTIME_FAILURES)

    def _osx_case(self, kind, script, calls=None, session=None, shadow=False):
        """a case of the setter alphabet, from a finished session (generator) or from its calls (replay)"""
        s = session if session is not None else run_osx(kind, script, calls, shadow)
        tr, calls = s.out, s.calls[:len(s.out)]
        wcalls = [["r"] if c[0] == "r" else ["s", list(c[1])] if c[0] == "s" else ["p", c[1]] for c in calls]
        line = wire.enc(["ospielx", kind, script_to_wire(script), wcalls, tr])
        desc = {"adapter": "ospielx", "kind": kind, "script": script, "calls": calls}
        if s.shadow:
            desc["shadow"] = True
        steps = [it for it in tr if it[0] != "set"]
        lasts = sum(1 for it in steps if it[0][0] == "ok" and it[0][5] == "last")
        early = any(any(d for _, d in e[1][0][3]) for it in steps for e in it[1] if e[1][0][0] == "s")
        tags = ["ospielx", "setter", mgr.KINDS[kind], "episodes:%d" % min(lasts, 3)]
        tags += ["err:" + it[0][1] for it in steps if it[0][0] == "err"]
        nset = sum(1 for it in tr if it[0] == "set")
        if any(it[0] == "set" and it[1] == "rejected" for it in tr):
            tags.append("setter:rejected")
        if "done" in s.marks:
            tags.append("setter:done-agent")
        fake = [i for i, it in enumerate(tr) if it[0] != "set" and it[0][0] == "ok" and not it[1]]
        if fake:
            tags.append("fake-step")
            if any(it[0] != "set" for it in tr[fake[0] + 1:]):
                tags.append("fake-step:kept-stepping")
            if any(i + 1 in fake for i in fake):
                tags.append("fake-step:repeated")
            if any(it[0] != "set" and it[1] for it in tr[fake[0] + 1:]):
                tags.append("fake-step:then-forwarded")
        if s.shadow:
            tags.append("second-wrapper")
        return core.Case(desc, line, wire.enc(tr), key=json.dumps(desc, sort_keys=True),
                         nontrivial=early and nset > 0, tags=tags)

    def case_from_desc(self, d):
        if d["adapter"] == "gym":
            return self._gym_case(d["kind"], d["script"], d["agent"], d["calls"])
        if d["adapter"] == "ospielx":
            return self._osx_case(d["kind"], d["script"], d["calls"], shadow=bool(d.get("shadow")))
        return self._os_case(d["kind"], d["script"], d["calls"])

    def _osx_session(self, rng, kind, script, length, shadow=False, p_set=0.25, p_reset=0.04, p_bad=0.0):
        """drive a real wrapper, choosing each call with a look at the manager's done set: name a done agent
        through the setter, step, keep stepping; also live agents, non-learners, unknown ids, resets"""
        s = OSXSession(kind, script, shadow)
        n, nl = script["n"], sum(script["learning"])
        learners = [i for i in range(n) if script["learning"][i]]
        others = [i for i in range(n) if not script["learning"][i]]

        def step():
            if rng.random() < p_bad:
                return ["s", [rng.randrange(10) for _ in range(rng.choice([0, nl + 1, max(0, nl - 1)]))]]
            return ["s", [rng.randrange(10) for _ in range(1 if kind == 1 else nl)]]

        plan = []
        if rng.random() < 0.15:
            plan.append(["p", rng.choice(learners)])       # before the first reset
        while len(s.calls) < length and not s.dead:
            if plan:
                s.call(plan.pop(0))
                continue
            r = rng.random()
            done = s.done_learners() if s.running() else []
            if r < p_reset:
                s.call(["r"])
            elif r < p_reset + p_set or (done and r < p_reset + 2 * p_set):
                q = rng.random()
                if done and q < 0.7:
                    tgt = rng.choice(done)
                    # then step, and keep stepping
                    plan = [step() for _ in range(rng.choice([1, 1, 2, 3, 4]))]
                elif q < 0.85:
                    tgt = rng.choice(learners)
                    plan = [step() for _ in range(rng.choice([0, 1, 2]))]
                elif others and q < 0.93:
                    tgt = rng.choice(others)
                else:
                    tgt = n + rng.randrange(3)
                s.call(["p", tgt])
                if rng.random() < 0.15:
                    plan.insert(0, ["p", rng.choice(learners)])    # two setter calls in a row: the last one counts
            else:
                s.call(step())
        return s

    @staticmethod
    def _os_calls(rng, kind, script, length, p_reset=0.03, p_bad=0.0):
        nl = sum(script["learning"])
        calls = []
        for _ in range(length):
            r = rng.random()
            if r < p_reset:
                calls.append(["r"])
            elif r < p_reset + p_bad:
                calls.append(["s", [rng.randrange(10) for _ in range(rng.randint(0, nl + 1))]])
            elif kind == 1:
                calls.append(["s", [rng.randrange(10)]])
            else:
                calls.append(["s", [rng.randrange(10) for _ in range(nl)]])
        return calls

    def cases(self, tier, rng):
        quick = tier == "quick"
        ml, mn, mt = (2, 1, 2) if quick else (3, 1, 3)
        for script in mgr.exhaustive_scripts(ml, mn, mt):
            nl = sum(script["learning"])
            for kind in (0, 1):
                budget = 2 * (mt + 3) * max(1, nl)
                yield self._os_case(kind, script, self._os_calls(rng, kind, script, budget, p_reset=0.0))
            if nl == 1:
                ag = script["learning"].index(True)
                for kind in (0, 1):
                    calls = [["r"]] + [["s", rng.randrange(10)] for _ in range(mt + 2)]
                    yield self._gym_case(kind, script, ag, calls)
        # the setter stream: every small done schedule turn-based (simultaneous: every third), then seeded random
        for i, script in enumerate(mgr.exhaustive_scripts(ml, mn, mt)):
            nl = sum(script["learning"])
            for kind in (1, 0):
                if kind == 0 and i % 3:
                    continue
                budget = 2 * (mt + 3) * max(1, nl) + 4
                yield self._osx_case(kind, script, session=self._osx_session(
                    rng, kind, script, budget, p_set=0.3 if kind == 1 else 0.2, p_reset=0.02))
        for _ in range(350 if quick else 4000):
            script = mgr.gen_script(rng)
            script["noms"] = []
            script = {k: script[k] for k in ("n", "learning", "doneAt", "finishAt", "noms")}
            kind = 1 if rng.random() < 0.7 else 0
            shadow = rng.random() < 0.15
            yield self._osx_case(kind, script, session=self._osx_session(
                rng, kind, script, rng.randint(3, 40), shadow=shadow, p_set=rng.choice([0.1, 0.25, 0.4]),
                p_reset=rng.choice([0.0, 0.04, 0.1]), p_bad=0.03 if rng.random() < 0.3 else 0.0))
        for _ in range(1200 if quick else 40000):
            script = mgr.gen_script(rng)
            script["noms"] = []
            if rng.random() < 0.08:
                # rewards a float cannot hold exactly (numpy integers beyond 2^53): handed on as they are
                script["unit"] = rng.choice([2 ** 53 + 1, 2 ** 54 + 3, 10 ** 15 + 7])
            kind = rng.randrange(2)
            if rng.random() < 0.25:
                # single learner: gym
                k = rng.randrange(script["n"])
                script["learning"] = [i == k for i in range(script["n"])]
                calls = [["r"]]
                for _ in range(rng.randint(1, 10)):
                    calls.append(["r"] if rng.random() < 0.1 else ["s", rng.randrange(10)])
                yield self._gym_case(kind, script, k, calls)
            else:
                yield self._os_case(kind, script, self._os_calls(rng, kind, script, rng.randint(1, 30),
                                                                 p_bad=0.02 if rng.random() < 0.3 else 0.0))

    def interpret(self, reply, case):
        model, ms, is_ = reply
        if is_ not in (0, 1):
            raise ValueError("driver could not parse the implementation trace")
        return core.Verdict(wire.enc(model), ms == 1, is_ == 1)

    def shrink_candidates(self, desc):
        calls = desc["calls"]
        for k in range(len(calls) - 1, 0, -1):
            yield dict(desc, calls=calls[:k])
        if desc["adapter"] == "ospielx":
            if desc.get("shadow"):
                yield {k: v for k, v in desc.items() if k != "shadow"}
            for k in range(len(calls) - 1):
                yield dict(desc, calls=calls[:k] + calls[k + 1:])
