"""C15: the real GymWrapper and OpenSpielWrapper over real managers over the scripted stub."""
import json

import compat  # noqa: F401
import core
import mgr
import wire
from stub_sim import StubSim, script_to_wire, decode_obs
from p_trainer import instrument

from abmarl.external import GymWrapper, OpenSpielWrapper
from open_spiel.python.rl_environment import StepType


def _mk(kind, script, discrete):
    sim = StubSim(script, discrete=discrete)
    manager = mgr.make_manager(kind, sim, False)
    trace, qlog, queries = [], [], []
    instrument(manager, sim, trace, qlog, queries)
    return sim, manager, trace


def run_gym(kind, script, ag, calls):
    sim, manager, trace = _mk(kind, script, False)
    env = GymWrapper(manager)
    out = []
    for c in calls:
        before = len(trace)
        if c[0] == "r":
            st, val = mgr.guarded(lambda: env.reset())
        else:
            st, val = mgr.guarded(lambda: env.step(c[1]))
        if len(trace) != before + 1:
            # the adapter must make exactly one manager call; anything else is visible as a malformed item
            ent = [["r"], [["e", "crash"], ["n"], [0] * sim.n, sim.ghost()]]
        else:
            ent = trace[-1]
        if st == "ok":
            if c[0] == "r":
                o, info = val
                res = ["ok", [int(x) for x in o], [], [], []]
            else:
                o, r, d, trunc, info = val
                res = ["ok", [int(x) for x in o], [int(r)], [bool(d)], [[int(info["t"])]]]
        else:
            res = ["err", st]
        out.append([res, ent])
        if st not in ("ok", "rejected"):
            break
    return out


def canon_ts(sim, ts):
    obs = ts.observations
    info_state = [[sim.idx[k], decode_obs(v)] for k, v in obs["info_state"].items()]
    legal = [sim.idx[k] for k in obs["legal_actions"]]
    cur = sim.idx[obs["current_player"]]
    rewards = [] if ts.rewards is None else [[[sim.idx[k], int(v)] for k, v in ts.rewards.items()]]
    st = {StepType.FIRST: "first", StepType.MID: "mid", StepType.LAST: "last"}[ts.step_type]
    return ["ok", info_state, legal, cur, rewards, st]


def run_os(kind, script, calls, budget=None):
    sim, manager, trace = _mk(kind, script, True)
    env = OpenSpielWrapper(manager)
    out = []
    for c in calls:
        before = len(trace)
        if c[0] == "r":
            st, val = mgr.guarded(lambda: env.reset())
        else:
            st, val = mgr.guarded(lambda: env.step(list(c[1])))
        ents = trace[before:]
        # observations inside the recorded manager entries are Discrete ints: decode them
        ents = [[op, _decode_entry(e)] for op, e in ents]
        res = canon_ts(sim, val) if st == "ok" else ["err", st]
        out.append([res, ents])
        if st not in ("ok", "rejected"):
            break
    return out


def _decode_entry(e):
    res = e[0]
    if res[0] == "r":
        res = ["r", [[a, decode_obs(o[0]) if len(o) == 1 else o] for a, o in res[1]]]
    elif res[0] == "s":
        res = ["s", [[a, decode_obs(o[0]) if len(o) == 1 else o] for a, o in res[1]]] + res[2:]
    return [res] + e[1:]


class AdapterProp(core.Prop):
    pid = "C15"
    lean_targets = ["Abmarl.Props.C15"]
    rule = ("play-throughs of the real GymWrapper (single learning agent) and OpenSpielWrapper (turn-based and "
            "simultaneous) over the real managers over the scripted stub; OpenSpiel-style callers keep sending "
            "actions for every agent; exhaustive small done schedules, then seeded random; the play-through is "
            "cut by a step budget of 4x the script length (a livelock is a failing input); distinct by (adapter, "
            "manager, script, calls); non-trivial = an agent finishes before the episode ends")
    assumptions = ["TimeStep/StepType containers of open_spiel are compared field by field, not modelled",
                   "discounts are constants and not compared"]

    def _gym_case(self, kind, script, ag, calls):
        tr = run_gym(kind, script, ag, calls)
        calls = calls[:len(tr)]
        wcalls = [["r"] if c[0] == "r" else ["s", c[1]] for c in calls]
        line = wire.enc(["gym", kind, script_to_wire(script), ag, wcalls, tr])
        desc = {"adapter": "gym", "kind": kind, "script": script, "agent": ag, "calls": calls}
        fin = any(it[0][0] == "ok" and it[0][3] == [True] for it in tr)
        return core.Case(desc, line, wire.enc(tr), key=json.dumps(desc, sort_keys=True), nontrivial=fin,
                         tags=["gym", mgr.KINDS[kind]] + ["err:" + it[0][1] for it in tr if it[0][0] == "err"])

    def _os_case(self, kind, script, calls):
        tr = run_os(kind, script, calls)
        calls = calls[:len(tr)]
        wcalls = [["r"] if c[0] == "r" else ["s", list(c[1])] for c in calls]
        line = wire.enc(["ospiel", kind, script_to_wire(script), wcalls, tr])
        desc = {"adapter": "ospiel", "kind": kind, "script": script, "calls": calls}
        lasts = sum(1 for it in tr if it[0][0] == "ok" and it[0][5] == "last")
        early = any(any(d for _, d in e[1][0][3]) for it in tr for e in it[1] if e[1][0][0] == "s")
        tags = ["ospiel", mgr.KINDS[kind], "episodes:%d" % lasts]
        tags += ["err:" + it[0][1] for it in tr if it[0][0] == "err"]
        if any(it[0][0] == "ok" and not it[1] for it in tr):
            tags.append("fake-step")
        return core.Case(desc, line, wire.enc(tr), key=json.dumps(desc, sort_keys=True), nontrivial=early, tags=tags)

    def case_from_desc(self, d):
        if d["adapter"] == "gym":
            return self._gym_case(d["kind"], d["script"], d["agent"], d["calls"])
        return self._os_case(d["kind"], d["script"], d["calls"])

    @staticmethod
    def _os_calls(rng, kind, script, length, p_reset=0.03, p_bad=0.0):
        nl = sum(script["learning"])
        calls = []
        for _ in range(length):
            r = rng.random()
            if r < p_reset:
                calls.append(["r"])
            elif r < p_reset + p_bad:
                calls.append(["s", [rng.randrange(10) for _ in range(rng.randint(0, nl + 1))]])
            elif kind == 1:
                calls.append(["s", [rng.randrange(10)]])
            else:
                calls.append(["s", [rng.randrange(10) for _ in range(nl)]])
        return calls

    def cases(self, tier, rng):
        quick = tier == "quick"
        ml, mn, mt = (2, 1, 2) if quick else (3, 1, 3)
        for script in mgr.exhaustive_scripts(ml, mn, mt):
            nl = sum(script["learning"])
            for kind in (0, 1):
                budget = 2 * (mt + 3) * max(1, nl)
                yield self._os_case(kind, script, self._os_calls(rng, kind, script, budget, p_reset=0.0))
            if nl == 1:
                ag = script["learning"].index(True)
                for kind in (0, 1):
                    calls = [["r"]] + [["s", rng.randrange(10)] for _ in range(mt + 2)]
                    yield self._gym_case(kind, script, ag, calls)
        for _ in range(1200 if quick else 40000):
            script = mgr.gen_script(rng)
            script["noms"] = []
            kind = rng.randrange(2)
            if rng.random() < 0.25:
                # single learner: gym
                k = rng.randrange(script["n"])
                script["learning"] = [i == k for i in range(script["n"])]
                calls = [["r"]]
                for _ in range(rng.randint(1, 10)):
                    calls.append(["r"] if rng.random() < 0.1 else ["s", rng.randrange(10)])
                yield self._gym_case(kind, script, k, calls)
            else:
                yield self._os_case(kind, script, self._os_calls(rng, kind, script, rng.randint(1, 30),
                                                                 p_bad=0.02 if rng.random() < 0.3 else 0.0))

    def interpret(self, reply, case):
        model, ms, is_ = reply
        if is_ not in (0, 1):
            raise ValueError("driver could not parse the implementation trace")
        return core.Verdict(wire.enc(model), ms == 1, is_ == 1)

    def shrink_candidates(self, desc):
        calls = desc["calls"]
        for k in range(len(calls) - 1, 0, -1):
            yield dict(desc, calls=calls[:k])
