"""S-expression wire format shared with lean/Abmarl/Model/Wire.lean."""


def enc(x):
    if isinstance(x, bool):
        return "1" if x else "0"
    if isinstance(x, int):
        return str(x)
    if isinstance(x, str):
        return x
    if isinstance(x, (list, tuple)):
        return "(" + " ".join(enc(y) for y in x) + ")"
    if hasattr(x, "item"):  # numpy scalar
        v = x.item()
        if isinstance(v, (bool, int)):
            return enc(v)
    raise TypeError(f"cannot encode {type(x)}: {x!r}")


def dec(s):
    toks = s.replace("(", " ( ").replace(")", " ) ").split()
    stack = [[]]
    for t in toks:
        if t == "(":
            stack.append([])
        elif t == ")":
            cur = stack.pop()
            stack[-1].append(cur)
        else:
            try:
                stack[-1].append(int(t))
            except ValueError:
                stack[-1].append(t)
    assert len(stack) == 1 and len(stack[0]) == 1, "malformed line: " + s[:200]
    return stack[0][0]
