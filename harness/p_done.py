"""C17: the built-in done components and SmartGridWorldSimulation.

Two families of cases, both per-call refinements against lean/Abmarl/Model/{Done,Smart}.lean:

* `comp`  — a generated population (real Grid + real agents through gridw.RealWorld), one real done
  component constructed over it, `get_done` called for *every* agent and `get_all_done` once
  (driver op `gdone`);
* `smart` — a real minimal `SmartGridWorldSimulation` subclass (`StubSmartSim`, its `step` accrues
  scripted integer rewards and applies scripted edits to the agents) built with a subset of the
  built-in done components given by class or by registry name, scripted stub observer / state
  components (registered with `registry.register`, given by class or by name) whose calls are logged,
  driven through an interleaving of reset / step / get_reward / get_obs / get_done / get_all_done for
  two episodes (driver op `gsmart`).  The iteration order of the three component sets is read from the
  live object and sent as input.

Runtime-only checks (no model): the registry's name -> class table against the classes of
done.py / observer.py / state.py / actor.py, the classes actually instantiated for names, and the
pairwise distinctness of the built-in observers' channel keys.
"""
import copy
import itertools
import json

import compat  # noqa: F401
import numpy as np
from gymnasium.spaces import Discrete

import core
import gridw
import poke
import oracle
import wire

from abmarl.sim.agent_based_simulation import ObservingAgent, ActingAgent
from abmarl.sim.gridworld import done as D
from abmarl.sim.gridworld import observer as OBS
from abmarl.sim.gridworld import state as ST
from abmarl.sim.gridworld import actor as ACT
from abmarl.sim.gridworld import registry as REG
from abmarl.sim.gridworld.actor import MoveActor
from abmarl.sim.gridworld.smart import SmartGridWorldSimulation

# ------------------------------------------------------------------------------------------------
# the name -> class table as it must be (checked against `registry` before anything is registered)

EXPECTED_REGISTRY = {
    "done": (D, ["ActiveDone", "TargetAgentOverlapDone", "TargetAgentInactiveDone", "OneTeamRemainingDone",
                 "TargetEncodingInactiveDone"]),
    "observer": (OBS, ["AbsoluteEncodingObserver", "PositionCenteredEncodingObserver",
                       "StackedPositionCenteredEncodingObserver", "AbsolutePositionObserver", "AmmoObserver"]),
    "state": (ST, ["PositionState", "TargetBarriersFreePlacementState", "MazePlacementState", "HealthState",
                   "AmmoState", "OrientationState"]),
    "actor": (ACT, ["MoveActor", "CrossMoveActor", "DriftMoveActor", "BinaryAttackActor",
                    "EncodingBasedAttackActor", "RestrictedSelectiveAttackActor", "SelectiveAttackActor"]),
}


def registry_table_problems():
    """compare registry (name -> class) with the classes of the component modules"""
    problems = []
    reg = REG.registry
    if sorted(reg) != sorted(EXPECTED_REGISTRY):
        problems.append(f"component types {sorted(reg)}")
    for ctype, (mod, names) in EXPECTED_REGISTRY.items():
        table = reg.get(ctype, {})
        builtin = {k: v for k, v in table.items() if k not in _OWN_NAMES}
        if sorted(builtin) != sorted(names):
            problems.append(f"{ctype}: registered names {sorted(builtin)} != {sorted(names)}")
        for name in names:
            cls = getattr(mod, name, None)
            if table.get(name) is not cls or cls is None or cls.__name__ != name:
                problems.append(f"{ctype}: registry[{name!r}] is {table.get(name)!r}, expected {cls!r}")
    return problems


_OWN_NAMES = set()
_REGISTRY_PROBLEMS_AT_IMPORT = registry_table_problems()

# ------------------------------------------------------------------------------------------------
# done components

KINDS = ["active", "overlap", "tinactive", "tenc", "oneteam"]
CLASS_OF = {"active": D.ActiveDone, "overlap": D.TargetAgentOverlapDone, "tinactive": D.TargetAgentInactiveDone,
            "tenc": D.TargetEncodingInactiveDone, "oneteam": D.OneTeamRemainingDone}


class EncTargetDone(D.TargetEncodingInactiveDone):
    """The built-in encoding component under a keyword of its own.  SmartGridWorldSimulation hands the
    *same* kwargs to every component, and the agent->agent components and the encoding component
    all read `target_mapping`; a custom registered component is how a user combines them."""

    def __init__(self, enc_target_mapping=None, **kwargs):
        kwargs.pop("target_mapping", None)
        super().__init__(target_mapping=enc_target_mapping, **kwargs)


def err_kind(ex):
    if isinstance(ex, KeyError):
        return "keyError"
    if isinstance(ex, AssertionError):
        return "assertion"
    if isinstance(ex, IndexError):
        return "badIndex"
    return "other"


def outcome(fn):
    try:
        v = fn()
    except Exception as ex:  # noqa: BLE001
        return ["err", err_kind(ex)]
    if isinstance(v, (bool, np.bool_)):
        return ["ok", bool(v)]
    return ["err", "other"]          # a getter that does not return a bool


def py_amap(amap):
    return {gridw.aid(a): gridw.aid(t) for a, t in amap}


def py_emap(emap):
    return {int(e): (set(ts) if isinstance(ts, list) else int(ts)) for e, ts in emap}


def wire_emap(emap):
    return [[int(e), sorted(ts) if isinstance(ts, list) else [int(ts)]] for e, ts in emap]


def comp_wire(comp):
    """wire form of a *requested* component configuration"""
    k = comp["kind"]
    if k == "active":
        return ["active"]
    if k == "oneteam":
        return ["oneteam"]
    if k in ("overlap", "tinactive"):
        return [k, [[int(a), int(t)] for a, t in comp["amap"]]]
    one = comp.get("one")
    return ["tenc", wire_emap(comp["emap"]), True if one is None else bool(one)]


def make_earlier_alive(rng, world):
    """an earlier state of the same world in which other agents were alive: a dead and a living agent swap roles
    (the number of living agents stays the same), or the healths are drawn anew; positions stay legal because an
    agent that is alive in the earlier state only stands on a cell nobody else uses in it"""
    st = copy.deepcopy(world["state"])
    dead = [i for i, x in enumerate(st) if x["health"][0] == 0]
    alive = [i for i, x in enumerate(st) if x["health"][0] > 0]
    if dead and alive and rng.random() < 0.7:
        d, a = rng.choice(dead), rng.choice(alive)
        st[d]["health"], st[a]["health"] = [1, 2], [0, 1]
        revived = [d]
    else:
        revived = []
        for i, x in enumerate(st):
            if rng.random() < 0.4:
                if x["health"][0] == 0:
                    x["health"] = [1, 2]
                    revived.append(i)
                else:
                    x["health"] = [0, 1]
    taken = {tuple(x["pos"]) for i, x in enumerate(st) if x["health"][0] > 0 and i not in revived}
    free = [(r, c) for r in range(world["rows"]) for c in range(world["cols"]) if (r, c) not in taken]
    rng.shuffle(free)
    for i in revived:
        if free:
            st[i]["pos"] = list(free.pop())
        else:
            st[i]["health"] = [0, 1]
    return st


def build_comp(rw, comp):
    k = comp["kind"]
    kw = dict(agents=rw.agents, grid=rw.grid)
    if k in ("overlap", "tinactive"):
        kw["target_mapping"] = py_amap(comp["amap"])
    elif k == "tenc":
        kw["target_mapping"] = py_emap(comp["emap"])
        kw["sim_ends_if_one_done"] = comp.get("one")
    return CLASS_OF[k](**kw)


# ------------------------------------------------------------------------------------------------
# stub components and the minimal smart simulation

class Clock:
    def __init__(self):
        self.t = 0


class _StubObserver(OBS.ObserverBaseComponent):
    oid = -1

    def __init__(self, clock=None, calllog=None, obs_keys=None, **kwargs):
        super().__init__(**kwargs)
        self.clock, self.calllog = clock, calllog
        self.keys = list(obs_keys[self.oid])
        for agent in self.agents.values():
            if self._supported_agent(agent):
                for k in self.keys:
                    agent.observation_space[f"ch{k}"] = Discrete(10 ** 7)

    @property
    def key(self):
        return f"ch{self.keys[0]}" if self.keys else "none"

    def _supported_agent(self, agent):
        return isinstance(agent, ObservingAgent)

    def get_obs(self, agent, **kwargs):
        a = gridw.aidx(agent.id)
        out = {f"ch{k}": self.oid * 100000 + k * 1000 + a * 100 + (self.clock.t % 50) * 2 + int(agent.active)
               for k in self.keys}
        self.calllog.append(("obs", self, [[k, out[f"ch{k}"]] for k in self.keys]))
        return out


class _StubState(ST.StateBaseComponent):
    sid = -1

    def __init__(self, calllog=None, state_scripts=None, **kwargs):
        super().__init__(**kwargs)
        self.calllog = calllog
        self.script = [list(x) for x in state_scripts[self.sid]]

    def reset(self, **kwargs):
        self.calllog.append(("state", self, None))
        for a, pos, h in self.script:
            ag = self.agents[gridw.aid(a)]
            ag.position = np.array(pos)
            ag.health = gridw.fl(h)


N_OBS, N_ST = 4, 3
OBS_CLASSES = [type(f"VStubObs{i}", (_StubObserver,), {"oid": i}) for i in range(N_OBS)]
ST_CLASSES = [type(f"VStubState{i}", (_StubState,), {"sid": i}) for i in range(N_ST)]
for _c in OBS_CLASSES + ST_CLASSES + [EncTargetDone]:
    REG.register(_c)
    _OWN_NAMES.add(_c.__name__)


def _aba_register(cls):
    """round 6, the registry as a history: ANOTHER class of the same name is registered (a project's own variant that
    never reports anything), then the original is registered again - the name belongs to the class registered last"""
    decoy = type(cls.__name__, (cls,), {"get_done": lambda self, agent, **kw: False,
                                        "get_all_done": lambda self, **kw: False,
                                        "get_obs": lambda self, agent, **kw: {},
                                        "reset": lambda self, **kw: None})
    try:
        REG.register(decoy)
    finally:
        REG.register(cls)


class StubSmartSim(SmartGridWorldSimulation):
    """the minimal subclass of the documentation: an actor, finalize, and a `step` that accrues"""

    def __init__(self, **kwargs):
        super().__init__(**kwargs)          # the same kwargs reach every component
        self.clock = kwargs["clock"]
        self.move_actor = MoveActor(**kwargs)
        self.finalize()

    def step(self, action_dict, edits=(), **kwargs):
        rewards = self.rewards                 # AttributeError before the first reset
        for aid in action_dict:
            rewards[aid]                       # KeyError for an entity without an accumulator
        self.clock.t += 1
        for aid, deltas in action_dict.items():
            for x in deltas:
                self.rewards[aid] += x
        for a, what, arg in edits:
            ag = self.agents[gridw.aid(a)]
            if what == "kill":
                ag.health = 0
            elif what == "revive":
                ag.health = 1
            elif what == "move":
                ag.position = np.array(arg)

    def render(self, **kwargs):
        pass


def learn_kinds(rng, a, rows, cols):
    r = rng.random()
    if r < 0.5:
        a["observing"], a["view_range"] = True, rng.choice([0, 1, 2])
        a["moving"], a["move_range"] = True, 1
    elif r < 0.65:
        a["observing"], a["view_range"] = True, 1
    elif r < 0.8:
        a["moving"], a["move_range"] = True, 1


class SmartSession:
    """cfg = {"dones": [[kind, by]...], "enc_via": "builtin"|"adapter", "amap", "emap", "one",
              "observers": None | [[oid, by, [keys]]...], "states": None | [[sid, by, script]...]}
       by in {"class", "name", "both"}; script = [[agent, [r, c], [num, den]]...]"""

    def __init__(self, world, cfg):
        self.rw = gridw.RealWorld(world)
        self.cfg = cfg
        self.n = len(self.rw.agent_list)
        self.clock, self.calllog = Clock(), []
        self.problems = []
        kw = dict(agents=self.rw.agents, grid=self.rw.grid, clock=self.clock, calllog=self.calllog,
                  obs_keys={o[0]: o[2] for o in (cfg["observers"] or [])},
                  state_scripts={s[0]: s[2] for s in (cfg["states"] or [])},
                  sim_ends_if_one_done=cfg.get("one"))
        adapter = cfg.get("enc_via") == "adapter"
        has_agent_map = any(k in ("overlap", "tinactive") for k, _ in cfg["dones"])
        if adapter:
            kw["target_mapping"] = py_amap(cfg["amap"])
            kw["enc_target_mapping"] = py_emap(cfg["emap"])
        elif has_agent_map:
            kw["target_mapping"] = py_amap(cfg["amap"])
        else:
            kw["target_mapping"] = py_emap(cfg["emap"])

        def members(specs, cls_of):
            out = set()
            for ident, by in specs:
                cls = cls_of(ident)
                if by in ("class", "both"):
                    out.add(cls)
                if by in ("name", "both"):
                    out.add(cls.__name__)
                    if len(repr(cfg)) % 3 == 0:
                        _aba_register(cls)
            return out

        done_cls = lambda k: EncTargetDone if (k == "tenc" and adapter) else CLASS_OF[k]  # noqa: E731
        kw["dones"] = members(cfg["dones"], done_cls)
        kw["observers"] = None if cfg["observers"] is None else members([(o[0], o[1]) for o in cfg["observers"]],
                                                                        lambda i: OBS_CLASSES[i])
        kw["states"] = None if cfg["states"] is None else members([(s[0], s[1]) for s in cfg["states"]],
                                                                  lambda i: ST_CLASSES[i])
        self.sim = StubSmartSim(**kw)
        self.rw.finish()
        sim = self.sim
        # iteration orders of the live sets
        self.done_list = list(sim._dones) if hasattr(sim, "_dones") else None
        self.obs_list = list(sim._observers) if hasattr(sim, "_observers") else None
        self.state_list = list(sim._states) if hasattr(sim, "_states") else None
        # the classes instantiated are the ones asked for (by class and through the registry)
        def want(specs, cls_of):
            return sorted(cls_of(i).__name__ for i, by in specs for _ in range(2 if by == "both" else 1))
        for lst, specs, cls_of, what in (
                (self.done_list, cfg["dones"], done_cls, "dones"),
                (self.obs_list, [(o[0], o[1]) for o in (cfg["observers"] or [])], lambda i: OBS_CLASSES[i], "observers"),
                (self.state_list, [(s[0], s[1]) for s in (cfg["states"] or [])], lambda i: ST_CLASSES[i], "states")):
            got = sorted(type(x).__name__ for x in (lst or []))
            exact = all(type(x) is REG.registry[what[:-1]].get(type(x).__name__) for x in (lst or []))
            if got != want(specs, cls_of) or not exact or ((lst is None) != (len(specs) == 0)):
                self.problems.append(f"{what}: instantiated {got}, requested {want(specs, cls_of)}")
        self.stat = self.rw.stat_wire()
        self.dyn0 = self.rw.dyn_wire()
        for i, c in enumerate(self.done_list or []):
            poke.rejected(c, [cfg, i])

    # ---- wire of the configuration (iteration order of the live sets) ------------------------
    def done_wire(self, inst):
        t = type(inst)
        for k, cls in CLASS_OF.items():
            if t is cls:
                break
        else:
            if t is EncTargetDone:
                k = "tenc"
            else:
                raise ValueError(f"unexpected done component {t}")
        return comp_wire({"kind": k, "amap": self.cfg["amap"], "emap": self.cfg["emap"], "one": self.cfg.get("one")})

    def cfg_wire(self):
        learning = [isinstance(a, ObservingAgent) and isinstance(a, ActingAgent) for a in self.rw.agent_list]
        dones = [] if self.done_list is None else [[self.done_wire(d) for d in self.done_list]]
        observers = [] if self.obs_list is None else [[[o.oid, list(o.keys)] for o in self.obs_list]]
        states = [] if self.state_list is None else [[[s.sid, [[a, list(p), list(h)] for a, p, h in s.script]]
                                                      for s in self.state_list]]
        return [learning, dones, observers, states]

    def sts(self):
        return self.rw.dyn_wire()[1]

    def pending(self):
        if not hasattr(self.sim, "rewards"):
            return []
        # an id this simulation does not have (state shared with another simulation object) is dumped as agent 999:
        # the model never produces it, so it shows as a disagreement and a failed ledger instead of a harness error
        return [[[self.rw.idx.get(k, 999), int(v)] for k, v in self.sim.rewards.items()]]

    # ---- one operation ------------------------------------------------------------------------
    def run(self, op):
        """op (abstract, json) -> (wire op, wire entry)"""
        sim, kind = self.sim, op[0]
        del self.calllog[:]
        sim_w, calls, outs = [], [], []
        if kind == "reset":
            try:
                sim.reset()
                res = ["unit"]
                sim_w = self.sts()
                calls = [self.state_list.index(c) for _, c, _ in self.calllog]
            except Exception as ex:  # noqa: BLE001
                res = ["err", err_kind(ex)]
            wop = ["reset"]
        elif kind == "step":
            acc = op[1]["acc"]
            try:
                sim.step({gridw.aid(a): list(xs) for a, xs in acc}, edits=[tuple(e) for e in op[1]["edits"]])
                res = ["unit"]
            except Exception as ex:  # noqa: BLE001
                res = ["err", err_kind(ex)]
            wop = ["step", [[a, x] for a, xs in acc for x in xs], self.sts()]
        elif kind == "rew":
            try:
                v = sim.get_reward(gridw.aid(op[1]))
                res = ["int", int(v)] if isinstance(v, (int, np.integer)) and not isinstance(v, bool) else ["err", "other"]
            except Exception as ex:  # noqa: BLE001
                res = ["err", err_kind(ex)]
            wop = ["rew", op[1]]
        elif kind == "obs":
            try:
                v = sim.get_obs(gridw.aid(op[1]))
                res = ["obs", [[int(k[2:]), int(x)] for k, x in v.items()]]
                calls = [self.obs_list.index(c) for _, c, _ in self.calllog]
                outs = [o for _, _, o in self.calllog]
            except Exception as ex:  # noqa: BLE001
                res = ["err", err_kind(ex)]
            wop = ["obs", op[1]]
        elif kind == "done":
            o = outcome(lambda: sim.get_done(gridw.aid(op[1])))
            res = ["bool", o[1]] if o[0] == "ok" else o
            wop = ["done", op[1]]
        elif kind == "alldone":
            o = outcome(lambda: sim.get_all_done())
            res = ["bool", o[1]] if o[0] == "ok" else o
            wop = ["alldone"]
        else:
            raise ValueError(op)
        return wop, [res, self.pending(), sim_w, calls, outs]


# ------------------------------------------------------------------------------------------------
# the same simulation class over the *built-in* observers and state components

OBS_KEY_INDEX = {"absolute_encoding": 0, "position_centered_encoding": 1, "stacked_position_centered_encoding": 2,
                 "position": 3, "ammo": 4}
BUILTIN_STATES = ["PositionState", "HealthState", "AmmoState", "OrientationState"]


def canon_value(v):
    """numpy value of an observation channel -> [ndim, *shape, *flat] (ints)"""
    arr = np.asarray(v)
    return [arr.ndim] + [int(x) for x in arr.shape] + [int(x) for x in arr.astype(int).ravel().tolist()]


def canon_items(d):
    return [[OBS_KEY_INDEX[k], canon_value(v)] for k, v in d.items()]


class BuiltinSession:
    """cfg = {"observers": [[name, by]...], "states": [[name, by]...], "dones": [[kind, by]...]} over a roomy
    world without preset state: the built-in state components place the agents, the built-in observers
    look at them; every observer / state instance is wrapped (instance attribute) to log its calls"""

    def __init__(self, world, cfg, tape):
        self.rw = gridw.RealWorld(world)
        self.problems = []
        self.log = []

        def members(specs, table):
            out = set()
            for name, by in specs:
                if by in ("class", "both"):
                    out.add(table[name])
                if by in ("name", "both"):
                    out.add(name)
            return out

        obs_tab = {n: getattr(OBS, n) for n in EXPECTED_REGISTRY["observer"][1]}
        st_tab = {n: getattr(ST, n) for n in BUILTIN_STATES}
        done_tab = {CLASS_OF[k].__name__: CLASS_OF[k] for k in KINDS}
        kw = dict(agents=self.rw.agents, grid=self.rw.grid, clock=Clock(), calllog=[], obs_keys={}, state_scripts={},
                  target_mapping={}, observers=members(cfg["observers"], obs_tab), states=members(cfg["states"], st_tab),
                  dones=members([[CLASS_OF[k].__name__, by] for k, by in cfg["dones"]], done_tab))
        with oracle.scripted(tape):
            self.sim = sim = StubSmartSim(**kw)
            for what, insts, specs in (("observer", sim._observers, cfg["observers"]), ("state", sim._states, cfg["states"])):
                got = sorted(type(x).__name__ for x in insts)
                want = sorted(n for n, by in specs for _ in range(2 if by == "both" else 1))
                if got != want or not all(type(x) is REG.registry[what][type(x).__name__] for x in insts):
                    self.problems.append(f"{what}s: instantiated {got}, requested {want}")
            for st in sim._states:
                st.reset = self._logged(st, st.reset, "state")
            for ob in sim._observers:
                ob.get_obs = self._logged(ob, ob.get_obs, "obs")
            sim.reset()
            called = sorted(id(c) for k, c, _ in self.log if k == "state")
            if called != sorted(id(c) for c in sim._states):
                self.problems.append(f"reset called {len(called)} state resets for {len(sim._states)} state components: "
                                     f"{[type(c).__name__ for k, c, _ in self.log]}")
            self.calls = []
            for ag in self.rw.agent_list:
                del self.log[:]
                merged = sim.get_obs(ag.id)
                if sorted(id(c) for _, c, _ in self.log) != sorted(id(c) for c in sim._observers):
                    self.problems.append(f"get_obs({ag.id}) called {[type(c).__name__ for _, c, _ in self.log]}")
                self.calls.append([[canon_items(o) for _, _, o in self.log], canon_items(merged)])

    def _logged(self, comp, fn, kind):
        def wrapper(*a, **k):
            out = fn(*a, **k)
            self.log.append((kind, comp, dict(out) if kind == "obs" else None))
            return out
        return wrapper


def builtin_kinds(rng, a, rows, cols):
    r = rng.random()
    if r < 0.7:
        a["observing"], a["view_range"] = True, rng.choice([0, 1, 2, "FULL"])
    if rng.random() < 0.5:
        a["moving"], a["move_range"] = True, 1
    if rng.random() < 0.4:
        a["has_ammo"], a["init_ammo"] = True, rng.randint(0, 5)
    if rng.random() < 0.3:
        a["has_orient"], a["init_orient"] = True, rng.choice([None, 1, 2, 3, 4])
    a["blocking"] = rng.random() < 0.2
    if rng.random() < 0.3:
        a["init_health"] = rng.choice([[1, 1], [1, 2], [1, 4]])


def gen_builtin(rng):
    by = lambda: rng.choice(["class", "name", "name", "class", "both"])  # noqa: E731
    rows, cols = rng.randint(3, 5), rng.randint(3, 5)
    n = rng.randint(1, 5)
    encs = list(range(1, rng.randint(1, 3) + 1))
    agents = []
    for _ in range(n):
        a = dict(gridw.AG_DEFAULT, enc=rng.choice(encs))
        builtin_kinds(rng, a, rows, cols)
        agents.append(a)
    world = {"rows": rows, "cols": cols, "overlap": [[e, list(encs)] for e in encs], "agents": agents}
    names = EXPECTED_REGISTRY["observer"][1]
    obs = rng.sample(names, rng.randint(1, len(names)))
    cfg = {"observers": [[o, by()] for o in obs],
           "states": [[s, by()] for s in BUILTIN_STATES],
           "dones": [[k, by()] for k in rng.sample(["active", "oneteam"], rng.randint(1, 2))]}
    tape = [rng.randrange(100000) for _ in range(400)]
    return world, cfg, tape


# ------------------------------------------------------------------------------------------------
# generators

def gen_amap(rng, n):
    """agent -> agent mapping: empty, partial, total, self-targets, shared targets"""
    mode = rng.random()
    if mode < 0.12:
        return []
    agents = list(range(n))
    rng.shuffle(agents)
    k = n if mode < 0.3 else rng.randint(1, n)
    out = []
    for a in agents[:k]:
        t = a if rng.random() < 0.12 else rng.randrange(n)
        out.append([a, t])
    return out


def gen_emap(rng, encs):
    """encoding -> targets: empty mapping, unmapped encodings, empty / int / set targets (never its own)"""
    if rng.random() < 0.12 or len(encs) < 1:
        return []
    out = []
    es = list(encs)
    rng.shuffle(es)
    for e in es:
        if rng.random() < 0.3:
            continue
        others = [x for x in encs if x != e]
        r = rng.random()
        if r < 0.15 or not others:
            out.append([e, []])
        elif r < 0.4:
            out.append([e, rng.choice(others)])                       # bare int: upgraded by the setter
        else:
            ts = [x for x in others if rng.random() < 0.6] or [rng.choice(others)]
            out.append([e, ts])
    return out


def gen_population(rng, max_agents=7):
    """legal world with dead agents; stale positions of dead agents are moved onto their partners"""
    desc = gridw.gen_world(rng, max_side=4, max_agents=max_agents, kinds=learn_kinds,
                           dead_prob=rng.choice([0.0, 0.15, 0.3, 0.5, 0.9]))
    n = len(desc["agents"])
    if rng.random() < 0.1:
        # what the small scopes never reach: encodings in the hundreds (above CPython's cached small integers)
        shift = rng.choice([255, 300, 1000])
        for a in desc["agents"]:
            a["enc"] += shift
        desc["overlap"] = [[e + shift, [x + shift for x in s_]] for e, s_ in desc["overlap"]]
        if desc.get("overlap0") is not None:
            desc["overlap0"] = [[e + shift, [x + shift for x in s_]] for e, s_ in desc["overlap0"]]
    encs = sorted({a["enc"] for a in desc["agents"]})
    gridw.maybe_late(rng, desc, 0.08)
    # a history: encodings re-assigned through the public setter after the components were built
    gridw.maybe_enc0(rng, desc, 0.15)
    amap = gen_amap(rng, n - int(desc.get("late") or 0))    # a mapping names agents that exist at construction
    emap = gen_emap(rng, encs)
    stale = False
    for a, t in amap:
        for dead, other in ((a, t), (t, a)):
            if desc["state"][dead]["health"][0] == 0 and dead != other and rng.random() < 0.5:
                desc["state"][dead]["pos"] = list(desc["state"][other]["pos"])
                stale = True
    return desc, amap, emap, stale


def exhaustive_small():
    """n <= 3 agents on a 1x2 grid where everybody may overlap: every activity pattern x every position
    pattern, a few mappings"""
    for n in (1, 2, 3):
        encs = [1, 2, 1][:n]
        for act in itertools.product([0, 1], repeat=n):
            for posn in itertools.product([0, 1], repeat=n):
                agents = [dict(gridw.AG_DEFAULT, enc=e) for e in encs]
                state = [{"pos": [0, p], "health": [h, 1], "ammo": 0, "orient": 1} for p, h in zip(posn, act)]
                desc = {"rows": 1, "cols": 2, "overlap": [[1, [1, 2]], [2, [1, 2]]], "agents": agents, "state": state}
                amaps = [[], [[0, n - 1]], [[i, (i + 1) % n] for i in range(n)]]
                emaps = [[], [[1, [2]]], [[1, [2]], [2, [1]]]] if n > 1 else [[], [[1, []]]]
                yield desc, amaps, emaps


def comps_for(amaps, emaps):
    yield {"kind": "active"}
    yield {"kind": "oneteam"}
    for m in amaps:
        yield {"kind": "overlap", "amap": m}
        yield {"kind": "tinactive", "amap": m}
    for m in emaps:
        for one in (True, False):
            yield {"kind": "tenc", "emap": m, "one": one}


def gen_smart_cfg(rng, n, subset, amap, emap):
    by = lambda: rng.choice(["class", "name", "name", "class", "both"])  # noqa: E731
    dones = [[k, by()] for k in subset]
    kinds = set(subset)
    mixed = "tenc" in kinds and (kinds & {"overlap", "tinactive"})
    cfg = {"dones": dones, "amap": amap, "emap": emap, "one": rng.choice([True, False, None]), "enc_via": "builtin"}
    if mixed:
        if rng.random() < 0.7:
            cfg["enc_via"] = "adapter"
        else:
            cfg["amap"], cfg["emap"] = [], []       # the only mapping both families accept
    if rng.random() < 0.08:
        cfg["observers"] = None
    else:
        obs = rng.sample(range(N_OBS), rng.randint(0 if rng.random() < 0.1 else 1, N_OBS))
        distinct = rng.random() < 0.35
        pool = list(range(6))
        rng.shuffle(pool)
        cfg["observers"] = []
        for i in obs:
            if distinct:
                keys = [pool.pop() for _ in range(min(len(pool), rng.randint(0, 2)))]
            else:
                keys = rng.sample(range(5), rng.randint(0, 3))
            cfg["observers"].append([i, by(), keys])
    if rng.random() < 0.08:
        cfg["states"] = None
    else:
        sts = rng.sample(range(N_ST), rng.randint(0 if rng.random() < 0.1 else 1, N_ST))
        cfg["states"] = []
        for j in sts:
            script = [[a, [rng.randrange(3), rng.randrange(3)], rng.choice([[0, 1], [1, 1], [1, 1], [1, 2]])]
                      for a in range(n) if rng.random() < 0.6]
            cfg["states"].append([j, by(), script])
    return cfg


def gen_ops(rng, sess):
    n = sess.n
    learning = sess.cfg_wire()[0]
    learners = [a for a in range(n) if learning[a]]

    def step():
        acc = []
        pool = learners if (learners and rng.random() < 0.95) else list(range(n))
        for a in rng.sample(pool, rng.randint(0, len(pool))):
            acc.append([a, [rng.randint(-3, 6) for _ in range(rng.randint(1, 2))]])
        edits = []
        for a in range(n):
            r = rng.random()
            if r < 0.12:
                edits.append([a, "kill", None])
            elif r < 0.18:
                edits.append([a, "revive", None])
            elif r < 0.35:
                edits.append([a, "move", [rng.randrange(3), rng.randrange(3)]])
        return ["step", {"acc": acc, "edits": edits}]

    def getter():
        r = rng.random()
        a = rng.randrange(n)
        if r < 0.35:
            return ["rew", rng.choice(learners) if (learners and rng.random() < 0.85) else a]
        if r < 0.55:
            return ["obs", a]
        if r < 0.85:
            return ["done", a]
        return ["alldone"]

    ops = []
    if rng.random() < 0.3:
        ops += [rng.choice([["rew", rng.randrange(n)], step(), ["done", rng.randrange(n)], ["alldone"],
                            ["obs", rng.randrange(n)]]) for _ in range(rng.randint(1, 2))]
    for _ in range(2):
        ops.append(["reset"])
        for _ in range(rng.randint(3, 9)):
            ops.append(step() if rng.random() < 0.3 else getter())
    return ops


SUBSETS = [list(c) for r in range(len(KINDS) + 1) for c in itertools.combinations(KINDS, r)]


# ------------------------------------------------------------------------------------------------

class DoneProp(core.Prop):
    pid = "C17"

    def __init__(self, pid="C17"):
        self.pid = pid
        self.lean_targets = ["Abmarl.Props.C17"]
        self.rule = (
            "populations: exhaustive n<=3 agents x activity x position patterns on a 1x2 grid, then seeded random legal "
            "worlds (<=7 agents, grids up to 4x4, 1-3 encodings, dead agents incl. stale positions moved onto their "
            "target/targeter, target mappings empty/partial/total/self-target, encoding mappings with unmapped "
            "encodings, empty, int and set targets, sim_ends_if_one_done True/False/None); `comp` case = one real done "
            "component over one population, get_done of every agent + get_all_done; `smart` case = one real "
            "StubSmartSim(SmartGridWorldSimulation) with a subset of the built-in done components (all 32 subsets in "
            "rotation, by class / by registry name / both), 0-4 logging stub observers and 0-3 logging stub state "
            "components (registered, by class or name), driven through a random interleaving of reset/step/get_reward/"
            "get_obs/get_done/get_all_done over two episodes (one or two sessions per population); `builtin` case = the "
            "same simulation class over a subset of the five built-in observers and the built-in Position/Health/Ammo/"
            "Orientation states (by class / name / both), reset once, get_obs of every agent, every component call "
            "logged from outside (driver op gmerge); distinct by (world, component) resp. (world, configuration in live "
            "iteration order, ops) resp. logged outputs; non-trivial = comp: some getter answers True or raises; smart: a "
            "reset succeeded and some read returned a non-zero reward or some done query answered True; builtin: some "
            "get_obs merged more than one observer.  Set iteration order depends on object addresses / string hashing, "
            "so the count of distinct smart cases varies slightly between runs with the same seed.")
        self.assumptions = [
            "target mappings are Python dicts (distinct keys); encodings' target sets are sent sorted",
            "in smart sessions the stub step/state components edit agent attributes directly and the grid's cell "
            "table is not maintained (no done component reads it); the subclass's step is an input of the model "
            "(accruals + agent states after the step), as SmartGridWorldSimulation leaves step abstract",
            "stub observers/states stand in for arbitrary observers/state components (the model is parametric in them)",
            "exceptions are compared by class: KeyError, AssertionError, IndexError, other",
        ]
        self._runtime = []

    def runtime_failures_of_replay(self):
        return list(self._runtime)

    def _note_runtime(self, what, desc):
        if len(self._runtime) < 3:
            self._runtime.append((what, desc))
        self._runtime_count = getattr(self, "_runtime_count", 0) + 1

    # ---- comp cases ---------------------------------------------------------------------------
    def _comp_case(self, world, comp, rw=None, extra_tags=()):
        rw = rw or gridw.RealWorld(world)
        try:
            inst = build_comp(rw, comp)
        except Exception as ex:  # noqa: BLE001  (the generators only produce valid configurations)
            self._note_runtime(f"valid done component configuration rejected at construction: "
                               f"{type(ex).__name__}: {ex}", {"kind": "comp", "world": world, "comp": comp})
            return None
        rw.finish()
        poke.rejected(inst, [world, comp])
        if world.get("enc0"):
            extra_tags = list(extra_tags) + ["encodings-reassigned-after-construction"]
        if world.get("earlier") is not None and world.get("state") is not None:
            # a history: the same component object has already been asked about an earlier state of the same
            # world (other agents alive, possibly as many of them); its answers depend on the current state only
            try:
                gridw.set_state_in_order(rw, world["earlier"])
                for ag in rw.agent_list:
                    outcome(lambda ag=ag: inst.get_done(ag))
                outcome(lambda: inst.get_all_done())
            except ValueError:
                pass
            gridw.set_state_in_order(rw, world["state"])
            extra_tags = list(extra_tags) + ["after-earlier-queries"]
        outs = [outcome(lambda ag=ag: inst.get_done(ag)) for ag in rw.agent_list]
        outs.append(outcome(lambda: inst.get_all_done()))
        stat, dyn = rw.stat_wire(), rw.dyn_wire()
        cw = comp_wire(comp)
        line = wire.enc(["gdone", stat, dyn, cw, outs])
        tags = ["comp:" + comp["kind"]] + list(extra_tags)
        for o in outs:
            if o[0] == "err":
                tags.append("err:" + o[1])
        if outs[-1] == ["ok", True]:
            tags.append("allDone")
        if comp["kind"] in ("overlap", "tinactive") and not comp["amap"]:
            tags.append("empty-mapping")
        if comp["kind"] == "tenc" and not comp["emap"]:
            tags.append("empty-mapping")
        nontrivial = any(o != ["ok", False] for o in outs)
        desc = {"kind": "comp", "world": world, "comp": comp}
        return core.Case(desc, line, wire.enc(outs), key=json.dumps([stat, dyn, cw]), nontrivial=nontrivial, tags=tags)

    # ---- smart cases --------------------------------------------------------------------------
    def _smart_case(self, world, cfg, ops, rng=None):
        try:
            sess = SmartSession(world, cfg)
        except Exception as ex:  # noqa: BLE001  (the generators only produce valid configurations)
            self._note_runtime(f"valid smart simulation configuration rejected at construction: "
                               f"{type(ex).__name__}: {ex}", {"kind": "smart", "world": world, "cfg": cfg, "ops": []})
            return None
        for p in sess.problems:
            self._note_runtime("registry/class instantiation: " + p, {"kind": "smart", "world": world, "cfg": cfg, "ops": []})
        if ops is None:
            ops = gen_ops(rng, sess)
        cw = sess.cfg_wire()
        wops, trace = [], []
        for op in ops:
            wop, entry = sess.run(op)
            wops.append(wop)
            trace.append(entry)
        # after the history (nothing here reaches the model): "get_reward hands out what has accrued and the accumulator
        # is EMPTY afterwards", also for amounts that exact arithmetic cannot subtract - an infinite sentinel a
        # subclass's step put there (seeded change C17-r3m2: `rewards[a] -= reward` leaves inf - inf = nan)
        rew = getattr(sess.sim, "rewards", None)
        if isinstance(rew, dict) and rew:
            for k, sentinel in zip(list(rew)[:2], (float("inf"), float("-inf"))):
                try:
                    rew[k] = sentinel
                    first = sess.sim.get_reward(k)
                    second = sess.sim.get_reward(k)
                    left = sess.sim.rewards[k]
                except Exception as ex:  # noqa: BLE001
                    self._note_runtime("get_reward raised for an infinite accumulator: %s" % type(ex).__name__,
                                       {"kind": "smart", "world": world, "cfg": cfg, "ops": ops})
                    break
                if first != sentinel or second != 0 or left != 0:
                    self._note_runtime("an infinite amount in a reward accumulator is not handed out exactly once: first "
                                       "read %r, second read %r, left %r" % (first, second, left),
                                       {"kind": "smart", "world": world, "cfg": cfg, "ops": ops})
                    break
        line = wire.enc(["gsmart", sess.stat, sess.dyn0, cw, wops, trace])
        tags = ["smart", "dones:%d" % len(sess.done_list or []), "observers:%s" % (len(sess.obs_list) if sess.obs_list is not None else "unset"),
                "states:%s" % (len(sess.state_list) if sess.state_list is not None else "unset"), "enc_via:" + cfg["enc_via"]]
        for _, by in cfg["dones"]:
            tags.append("by:" + by)
        for e in trace:
            if e[0][0] == "err":
                tags.append("err:" + e[0][1])
        reset_ok = any(op[0] == "reset" and e[0] == ["unit"] for op, e in zip(ops, trace))
        nontrivial = reset_ok and any((e[0][0] == "int" and e[0][1] != 0) or e[0] == ["bool", True] for e in trace)
        desc = {"kind": "smart", "world": world, "cfg": cfg, "ops": ops}
        return core.Case(desc, line, wire.enc(trace), key=json.dumps([sess.stat, sess.dyn0, cw, wops]),
                         nontrivial=nontrivial, tags=tags)

    # ---- built-in observers / states under the same simulation class -----------------------------
    def _builtin_case(self, world, cfg, tape):
        desc = {"kind": "builtin", "world": world, "cfg": cfg, "tape": tape}
        try:
            sess = BuiltinSession(world, cfg, tape)
        except Exception as ex:  # noqa: BLE001
            self._note_runtime(f"smart simulation over built-in observers/states failed: {type(ex).__name__}: {ex}", desc)
            return None
        for p in sess.problems:
            self._note_runtime("built-in components: " + p, desc)
        line = wire.enc(["gmerge", sess.calls])
        impl = wire.enc([m for _, m in sess.calls])
        tags = ["builtin", "observers:%d" % len(sess.sim._observers)] + ["obs:" + n for n, _ in cfg["observers"]]
        return core.Case(desc, line, impl, key=json.dumps(sess.calls), nontrivial=any(len(o) > 1 for o, _ in sess.calls),
                         tags=tags)

    def case_from_desc(self, desc):
        if desc["kind"] == "comp":
            c = self._comp_case(copy.deepcopy(desc["world"]), desc["comp"])
        elif desc["kind"] == "builtin":
            c = self._builtin_case(copy.deepcopy(desc["world"]), desc["cfg"], desc["tape"])
        else:
            c = self._smart_case(copy.deepcopy(desc["world"]), desc["cfg"], desc["ops"])
        if c is None:
            raise ValueError("configuration rejected at construction: " + self._runtime[-1][0])
        return c

    def cases(self, tier, rng):
        quick = tier == "quick"
        # 1. exhaustive small scope
        for world, amaps, emaps in exhaustive_small():
            rw = gridw.RealWorld(world)
            for comp in comps_for(amaps, emaps):
                c = self._comp_case(world, comp, rw, ["exhaustive"])
                if c is not None:
                    yield c
        # 2. the simulation class over built-in observers and state components (merge + reset-all)
        for _ in range(150 if quick else 3000):
            world, cfg, tape = gen_builtin(rng)
            c = self._builtin_case(world, cfg, tape)
            if c is not None:
                yield c
        # 3. seeded random populations: every component over each, one or two smart sessions each
        npop = 1500 if quick else 50000
        for i in range(npop):
            world, amap, emap, stale = gen_population(rng)
            try:
                rw = gridw.RealWorld({k: v for k, v in world.items() if k not in ("enc0", "late")})
            except ValueError:
                continue
            if world.get("enc0") or world.get("late"):
                rw = None           # every component gets the history of its own (built before the re-assignment)
            n = len(world["agents"])
            amap2 = gen_amap(rng, n - int(world.get("late") or 0)) if rng.random() < 0.5 else []
            extra = ["stale-pos"] if stale else []
            if world.get("state") and rng.random() < 0.5:
                world = dict(world, earlier=make_earlier_alive(rng, world))
            for comp in comps_for([amap, amap2] if amap2 != amap else [amap], [emap]):
                c = self._comp_case(world, comp, rw, extra)
                if c is not None:
                    yield c
            for j in ((i, i + 13) if (quick or i % 2 == 0) else (i,)):
                subset = SUBSETS[j % len(SUBSETS)]
                cfg = gen_smart_cfg(rng, n, subset, amap, emap)
                c = self._smart_case(world, cfg, None, rng)
                if c is not None:
                    yield c

    # ---- verdict ------------------------------------------------------------------------------
    def interpret(self, reply, case):
        model, ms, is_ = reply
        if is_ not in (0, 1):
            raise ValueError("driver could not parse the implementation outcome (%r)" % (is_,))
        return core.Verdict(wire.enc(model), ms == 1, is_ == 1)

    def shrink_candidates(self, desc):
        if desc["kind"] == "comp":
            world, comp = desc["world"], desc["comp"]
            n = len(world["agents"])
            amap = comp.get("amap", [])
            if world.get("earlier") is not None:
                yield dict(desc, world={k: v for k, v in world.items() if k != "earlier"})
            if world.get("enc0") is not None:
                yield dict(desc, world={k: v for k, v in world.items() if k != "enc0"})
            if world.get("late"):
                yield dict(desc, world={k: v for k, v in world.items() if k != "late"})
            for i in range(n - 1, -1, -1):           # drop an agent no mapping item mentions
                if n > 1 and all(i not in (a, t) for a, t in amap):
                    w2 = copy.deepcopy(world)
                    del w2["agents"][i], w2["state"][i]
                    if w2.get("earlier") is not None:
                        del w2["earlier"][i]
                    w2.pop("enc0", None)             # (a permutation of the encodings: void once an agent is gone)
                    w2.pop("late", None)
                    ren = lambda x: x - 1 if x > i else x  # noqa: E731
                    yield dict(desc, world=w2, comp=dict(comp, amap=[[ren(a), ren(t)] for a, t in amap])
                               if "amap" in comp else comp)
            for part in ("amap", "emap"):             # drop a mapping item
                m = comp.get(part, [])
                for i in range(len(m)):
                    yield dict(desc, comp=dict(comp, **{part: m[:i] + m[i + 1:]}))
            return
        if desc["kind"] != "smart":
            return
        ops = desc["ops"]
        for k in range(len(ops) - 1, 0, -1):
            yield dict(desc, ops=ops[:k])
        for i in range(len(ops)):
            yield dict(desc, ops=ops[:i] + ops[i + 1:])
        cfg = desc["cfg"]
        for i in range(len(cfg["dones"])):
            yield dict(desc, cfg=dict(cfg, dones=cfg["dones"][:i] + cfg["dones"][i + 1:]))
        for part in ("observers", "states"):
            if cfg[part]:
                for i in range(len(cfg[part])):
                    yield dict(desc, cfg=dict(cfg, **{part: cfg[part][:i] + cfg[part][i + 1:]}))

    def finding_matchers(self):
        return {}

    # ---- runtime-only -------------------------------------------------------------------------
    def extra_checks(self, tier, rng, report):
        for p in _REGISTRY_PROBLEMS_AT_IMPORT:
            report.runtime_failure("registry name -> class table (before any registration): " + p, None)
        for p in registry_table_problems():
            report.runtime_failure("registry name -> class table (after registering the stubs): " + p, None)
        for c in OBS_CLASSES + ST_CLASSES + [EncTargetDone]:
            ctype = "observer" if c in OBS_CLASSES else ("state" if c in ST_CLASSES else "done")
            if REG.registry[ctype].get(c.__name__) is not c:
                report.runtime_failure(f"register({c.__name__}) did not enter it under its class name", None)
        for what, desc in self._runtime:
            report.runtime_failure(what, desc)
        report.notes["runtime_failures_total"] = getattr(self, "_runtime_count", 0)
        # built-in observers: one fixed channel key each, pairwise distinct (hypothesis of
        # smart_obs_order_irrelevant)
        world = {"rows": 3, "cols": 3, "overlap": [], "agents": [
            dict(gridw.AG_DEFAULT, enc=1, observing=True, view_range=1, has_ammo=True, init_ammo=3),
            dict(gridw.AG_DEFAULT, enc=2)],
            "state": [{"pos": [0, 0], "health": [1, 1], "ammo": 2, "orient": 1},
                      {"pos": [1, 1], "health": [1, 1], "ammo": 0, "orient": 1}]}
        rw = gridw.RealWorld(world)
        keys = []
        for name in EXPECTED_REGISTRY["observer"][1]:
            inst = REG.registry["observer"][name](agents=rw.agents, grid=rw.grid)
            got = list(inst.get_obs(rw.agent_list[0]).keys())
            if got != [inst.key]:
                report.runtime_failure(f"{name}.get_obs returns channels {got}, key is {inst.key!r}", None)
            keys.append(inst.key)
        if len(set(keys)) != len(keys):
            report.runtime_failure(f"built-in observers share a channel key: {keys}", None)
        report.notes["builtin_observer_keys"] = keys
        report.notes["registry_checked"] = {k: sorted(v[1]) for k, v in EXPECTED_REGISTRY.items()}
