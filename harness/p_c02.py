"""C02 (observations and actions live in the declared spaces): the runtime monitor.

A *session* is one real simulation (stream `comp`: a SmartGridWorldSimulation assembled from the
real components; `stub`: a stub with arbitrary declared spaces; `example`: a packaged example
simulation), optionally under a stack of real wrappers, played like the AllStepManager plays it
(reset; actions for the learning agents that are not done, every action a reproducible sample of
the agent's declared action space; stop when all are done) for some episodes, under one scripted
oracle tape.  A *case* is one event of a session:

  obs      (agent.observation_space, sim.get_obs(agent))   after every reset and every step
  nullobs  (agent.observation_space, agent.null_observation)    at construction time, if declared
  nullact  (agent.action_space, agent.null_action)               at construction time, if declared
  act      (agent.action_space, the sampled action) + how sim.step processed it (ok / err)
  build / reset   a wrapper stack or a reset that raised

The real space and the real point are dumped (c02sims.dump_space / dump_point) and sent to the
driver op `gmember` together with what the real library answers to `point in space`; the driver
answers with Lean's `mem` on the dumped pair.  implementation outcome = the library's `contains`
(+ ok/err for actions); model outcome = `mem` (+ ok: C02_grid_actions); the specification on the
implementation = `mem` is true (and the action was processed without error).

case desc = {stream, sim (recipe), wrappers [innermost first], super_groups, seed, episodes, steps,
             script (optional: enumerated joint actions), at {i, ep, step, agent, what}}
(`info` in a desc is output only: facts about the event that the finding matchers read.)
"""
import copy
import itertools
import json

import compat  # noqa: F401

import core
import gridw
import spc
import wire
import c02sims as S
import p_examples

STACKS_QUICK = [
    [], ["ravel"], ["flatten"], ["super"], ["comm"],
    ["super", "ravel"], ["super", "flatten"], ["ravel", "super"], ["flatten", "super"],
    ["ravel", "comm"], ["flatten", "comm"], ["super", "comm"], ["comm", "super"], ["ravel", "flatten"],
    ["ravel", "super", "comm"], ["flatten", "super", "comm"], ["ravel", "comm", "super"],
    ["super", "ravel", "comm"], ["comm", "super", "flatten"],
]
# stacks whose construction / null points run into the open findings C02-N1 / C02-N2 (kept: the findings are
# exercised on every run and a repair shows up as the disappearance of the KNOWN-FINDING lines)
STACKS_FINDINGS = [["comm", "ravel"], ["comm", "flatten"], ["flatten", "ravel"], ["flatten", "flatten"],
                   ["comm", "super", "ravel"]]

BAD_LINE = ["gmember", ["d", 1, 0], ["x", "raised"], False, "err"]


def stack_name(ws):
    s = "sim"
    for w in ws:
        s = w + "(" + s + ")"
    return s


# ==============================================================================================
# generators of recipes

def _agent(rng, encs, rows, cols, tiny):
    a = dict(gridw.AG_DEFAULT)
    a["enc"] = rng.choice(encs)
    a["blocking"] = rng.random() < 0.25
    full = max(rows, cols) - 1
    if rng.random() < 0.75:
        a["observing"] = True
        a["view_range"] = rng.choice([0, 1] if tiny else [0, 1, 1, 2, "FULL", "FULL", full + 1])
    if rng.random() < 0.65:
        a["moving"] = True
        a["move_range"] = rng.choice([0, 1, 1, 2, "FULL"])
    if rng.random() < 0.45:
        a["attacking"] = True
        a["attack_range"] = rng.choice([0, 1] if tiny else [0, 1, 1, 2, "FULL"])
        a["strength"] = rng.choice([[0, 1], [1, 4], [1, 2], [1, 1], [1, 1]])
        a["accuracy"] = rng.choice([[0, 1], [1, 2], [1, 1], [1, 1]])
        a["sim_attacks"] = rng.choice([1, 1, 2] if tiny else [0, 1, 1, 2, 3])
    if rng.random() < 0.4:
        a["has_ammo"] = True
        a["init_ammo"] = rng.randint(0, 3)
    if rng.random() < 0.4:
        a["has_orient"] = True
        a["init_orient"] = rng.choice([None, 1, 2, 3, 4])
    if rng.random() < 0.5:
        a["init_health"] = rng.choice([[1, 1], [1, 2], [1, 4], [3, 4], [1, 1024]])
    return a


def gen_comp(rng, max_side=5, max_agents=6, tiny=False, sizes=None):
    """a random component-simulation recipe"""
    if sizes:
        rows, cols = rng.choice(sizes)
    else:
        rows, cols = rng.randint(1, max_side), rng.randint(1, max_side)
        p = rng.random()
        if p < 0.12:
            rows = 1
        elif p < 0.24:
            cols = 1
        elif p < 0.28:
            rows = cols = 1
    nenc = rng.randint(1, 2 if tiny else 3)
    encs = list(range(1, nenc + 1))
    mode = rng.choice(["all", "all", "partial", "none"])
    if mode == "all":
        overlap = [[e, list(encs)] for e in encs]
    elif mode == "none":
        overlap = []
    else:
        overlap = gridw.gen_overlap(rng, encs)
    cap = max_agents if mode == "all" else min(max_agents, rows * cols)
    n = rng.randint(1, max(1, cap))
    agents = [_agent(rng, encs, rows, cols, tiny) for _ in range(n)]
    # some initial positions, pairwise compatible
    sym = gridw.closed(overlap)
    occ = {}
    for a in agents:
        if rng.random() < 0.3:
            for _ in range(6):
                p = (rng.randrange(rows), rng.randrange(cols))
                if gridw.may_join(sym, a["enc"], occ.get(p, [])) and \
                        all(gridw.may_join(sym, e, [a["enc"]]) for e in occ.get(p, [])):
                    a["init_pos"] = list(p)
                    occ.setdefault(p, []).append(a["enc"])
                    break
    grid_obs = rng.choice([[], ["absolute"], ["centered"], ["centered_noself"], ["stacked"],
                           ["absolute", "centered"], ["absolute", "stacked"], ["centered_noself", "stacked"],
                           ["absolute", "centered", "stacked"]])
    observers = list(grid_obs)
    if rng.random() < 0.5:
        observers.append("position")
    if rng.random() < 0.5:
        observers.append("ammo")
    if not observers:
        observers = [rng.choice(["position", "ammo", "centered"])]
    if tiny and len(observers) > 2:
        observers = observers[:2]
    attack = rng.choice([None, "binary", "encoding", "selective", "restricted"])
    if attack == "restricted":
        for a in agents:
            a["sim_attacks"] = max(1, a["sim_attacks"])
    present = sorted({a["enc"] for a in agents})
    return {"rows": rows, "cols": cols, "overlap": overlap, "agents": agents, "observers": observers,
            "move": rng.choice([None, "move", "move", "cross", "drift"]), "attack": attack,
            "attack_mapping": [[e, sorted(x for x in present if rng.random() < 0.6)] for e in present],
            "stacked_attacks": rng.random() < 0.4,
            "states": ["PositionState", "HealthState", "AmmoState", "OrientationState"],
            "dones": rng.choice([["ActiveDone"], ["ActiveDone"], ["ActiveDone", "OneTeamRemainingDone"]]),
            "no_overlap": rng.random() < 0.15, "randomize": rng.random() < 0.2,
            # which component is CONSTRUCTED first (None: the order of the process's string hash)
            "build_perm": rng.randrange(24 * 120) if rng.random() < 0.7 else None}


def gen_stub(rng, floats, small, unbounded=False):
    """a random stub recipe: 2-4 agents, any nesting of every leaf kind (`unbounded`: now and then an unbounded
    integer Box, which the Lean `Space` cannot express - the `unmodelled-space` fallback)"""
    n = rng.randint(2, 4)
    agents = []
    for i in range(n):
        for _ in range(40):
            osd = spc.gen_space(rng, rng.choice([0, 1, 2]), floats)
            asd = spc.gen_space(rng, rng.choice([0, 1, 1]), floats)
            if not small or (spc.py_card(osd) < 10 ** 6 and spc.py_card(asd) < 10 ** 4):
                break
        if unbounded and rng.random() < 0.06:
            osd = ["ubox", rng.choice([[1], [2], [2, 2]]), rng.choice([0, 1, 2])]
        a = {"obs": osd, "act": asd, "learning": not (i == n - 1 and rng.random() < 0.3),
             "done_at": rng.choice([1, 2, 3, 99, 99]),
             "null_obs": rng.choice([None, "lo", "rand", "hi"]), "null_act": rng.choice([None, "lo", "rand"]),
             "null_form": rng.choice(["array", "list", "list", "list"])}
        agents.append(a)
    return {"agents": agents, "finish_at": rng.choice([3, 5, 99]), "seed": rng.randrange(10 ** 6)}


def super_groups(rng):
    return rng.choice([[[0, 1]], [[0], [1]], [[0, 1, 2]], [[1, 0]], [[0, 2], [1]]])


# ==============================================================================================

class C02Prop(core.Prop):
    pid = "C02"

    def __init__(self):
        self.lean_targets = ["Abmarl.Props.C02", "Abmarl.Props.Examples"]
        self.rule = (
            "one case = one (declared space, produced point) pair or one processed action of a real simulation played "
            "like the AllStepManager plays it under a scripted oracle tape: observation after every reset/step for "
            "every observing agent (done ones included), declared null observation / null action of every agent of the "
            "(wrapped) simulation at construction, every sampled action with the outcome of sim.step. Streams: `comp` - "
            "SmartGridWorldSimulations assembled from the real components (observers subset of absolute / centred with "
            "observe_self on|off / stacked / position / ammo, one of the three move actors or none, one of the four "
            "attack actors or none, Position+Health+Ammo+Orientation states, ActiveDone / OneTeamRemainingDone) over "
            "random grids incl. 1x1, 1xN, Nx1, overlap tables all/partial/none, blocking agents, view/move/attack "
            "ranges 0 / partial / 'FULL' / beyond the grid, mixed agent classes, fixed and random initial positions, "
            "healths, orientations; exhaustive small scopes first (grids 1x1..2x3, <= 3 agents, EVERY joint first action "
            "of small action spaces, then a second step), then seeded random sessions of several episodes whose actions "
            "are samples drawn from the harness PRNG over the dumped cells of the space (uniform per cell, plus the "
            "all-low and all-high corner points); `stub` - a stub simulation with arbitrary nested declared spaces "
            "(every leaf kind, float Boxes) whose observations are samples of its observation spaces; wrapper stacks "
            "none / Ravel / Flatten / SuperAgent / CommunicationHandshake and stacks of two and three of them over "
            "`comp`, `stub` and examples; `example` - every packaged example simulation of abmarl/examples/sim built "
            "with the configuration of examples/*.py. Outcome compared: the real `point in space` vs Lean `mem` on the "
            "dumped pair; judged: `mem` is true (and the action was processed without error). distinct by (space, "
            "point, outcome); non-trivial = the space has more than one point and the event is a null point, an action, "
            "or an observation after at least one step." + p_examples.RULE + " (distinct by request; non-trivial = "
            "some step of the history changed the world)")
        self.assumptions = p_examples.ASSUMPTIONS + [
            "gymnasium's / abmarl.tools.Box's `contains` is not modelled: it is the implementation side of every "
            "comparison with Lean's `mem` (a disagreement on a dumped pair is a correspondence failure)",
            "how a real Python value is read as a point is harness code (c02sims.dump_point: bool = 0/1, Python scalars "
            "in an abmarl Box are one-element arrays, lists are read with numpy's inference, numpy's safe-cast rule is "
            "applied to dtype widths, anything else has no canonical form and is a member of nothing)",
            "the theorems C02_grid_* are about histories of component calls; the assembly of channels into one Dict "
            "(SmartGridWorldSimulation.get_obs, finalize), the step glue and hand-written observers of the packaged "
            "example simulations and the action side of the wrappers are monitored at run time only",
            "spaces the Lean `Space` cannot express (unbounded Boxes, multi-dimensional MultiBinary/MultiDiscrete, "
            "MultiDiscrete with start) fall back to spec = the real `contains` and are tagged `unmodelled-space`",
            "sessions follow the manager protocol: no action is sent for an agent already reported done",
            "np.random / random are replaced by the scripted oracle tape for the whole session (uniform(lo, hi) with "
            "other bounds than (0, 1): lo + (hi-lo)*(v mod 1024)/1024)",
            "RavelDiscreteWrapper is only stacked on spaces inside the C04 domain (fewer than 2^62 points: K3; "
            "Discrete start = 0: K1; int64 Boxes: K5); other sessions are skipped and counted",
            "abmarl.examples.sim.multi_agent_sim.MultiAgentSim (the base class) is a test double whose getters return "
            "label strings; it is not played (its three finalised subclasses are)",
        ]
        self._reset_stats()

    def _reset_stats(self):
        self.stats = {"sessions": 0, "sessions_without_events": 0, "unmodelled_cases": 0, "cases": 0,
                      "ravel_skipped": 0, "examples_built": {}, "examples_failed": {}}

    # -- one case -----------------------------------------------------------------------------------
    def _case(self, sdesc, e, origin="gen"):
        at = {"i": e.i, "ep": e.ep, "step": e.step, "agent": e.agent, "what": e.what}
        desc = dict(sdesc)
        desc["at"] = at
        info = dict(e.info)
        tags = ["stream:" + sdesc["stream"], "what:" + e.what, "stack:" + stack_name(sdesc.get("wrappers", []))]
        if sdesc["stream"] == "example":
            tags.append("example:" + sdesc["sim"]["name"])
        elif sdesc["stream"] == "comp":
            r = sdesc["sim"]
            tags.append("grid:%s" % ("1x1" if r["rows"] * r["cols"] == 1 else "1xN" if r["rows"] == 1 else
                                     "Nx1" if r["cols"] == 1 else "NxM"))
            tags.append("move:%s" % r.get("move"))
            tags.append("attack:%s" % r.get("attack"))
            for o in r["observers"]:
                tags.append("observer:" + o)
            if any(a.get(k) == "FULL" for a in r["agents"] for k in ("view_range", "move_range", "attack_range")):
                tags.append("range:FULL")
            if any(a.get(k) == 0 and a.get(f) for a in r["agents"]
                   for k, f in (("view_range", "observing"), ("move_range", "moving"), ("attack_range", "attacking"))):
                tags.append("range:0")
        if sdesc.get("script") is not None:
            tags.append("enumerated-actions")
        if e.agent.startswith("super"):
            tags.append("agent:super")
        tags.extend(e.flags)
        if e.ep >= 1:
            tags.append("later-episode")
        if e.what in ("build", "reset") or e.space is None:
            line, impl = wire.enc(BAD_LINE), "0 err"
            info["raised_in"] = e.what
            tags.append("raised:" + e.what)
            nontrivial = True
        else:
            kx = S.key_index(e.space)
            sw = S.dump_space(e.space, kx)
            for k in sorted(S.space_kinds(e.space)):
                tags.append("leaf:" + k)
            with_outcome = e.what == "act" or e.outcome == "err"
            impl = ("1" if e.rc else "0") + ((" " + (e.outcome or "ok")) if with_outcome else "")
            if sw is None:
                self.stats["unmodelled_cases"] += 1
                tags.append("unmodelled-space")
                line = wire.enc(["ping", "unmodelled"])
            else:
                pw = S.dump_point(e.space, e.point, kx) if not (e.what == "obs" and e.outcome == "err") \
                    else ["x", "raised"]
                req = ["gmember", sw, pw, 1 if e.rc else 0]
                if with_outcome:
                    req.append(e.outcome or "ok")
                line = S.fast_enc(req)
            c = S.space_card(e.space)
            nontrivial = (c is None or c > 1) and (e.what != "obs" or e.step >= 1)
            if not e.rc:
                tags.append("impl:not-contained")
            if e.outcome == "err":
                tags.append("impl:raised")
        if info:
            desc["info"] = info
        self.stats["cases"] += 1
        return core.Case(desc, line, impl, key=None, nontrivial=nontrivial, tags=sorted(set(tags)), origin=origin)

    def _session_cases(self, sdesc, only=None):
        """all the cases of one session (`only`: a predicate on events)"""
        self.stats["sessions"] += 1
        evs = S.run_session(sdesc)
        if not evs:
            self.stats["sessions_without_events"] += 1
        seen = set()
        for e in evs:
            if e.what == "skip":
                self.stats["ravel_skipped"] += 1
                continue
            if only is not None and not only(e):
                continue
            c = self._case(sdesc, e)
            if c.line in seen and e.what != "act":
                continue                       # the same pair again within one session
            seen.add(c.line)
            yield c

    def case_from_desc(self, d):
        if d.get("stream") == "example-modelled":
            return p_examples.case_from_desc(d)
        sdesc = {k: v for k, v in d.items() if k not in ("at", "info")}
        at = d.get("at", {})
        evs = [e for e in S.run_session(sdesc) if e.what != "skip"]
        if at.get("first_bad"):
            # shrinking: the first event of the same kind that fails in the same way
            for e in evs:
                sig = "err" if e.outcome == "err" else ("rc0" if not e.rc else None)
                if sig is not None and at.get("what") in (None, e.what) and at.get("sig") in (None, sig):
                    return self._case(sdesc, e)
            raise LookupError("no failing event in this session")
        # an event is identified by (episode, step, agent, what); `i` (its running number) is informational
        for e in evs:
            if (e.ep, e.step, e.agent, e.what) == (at.get("ep"), at.get("step"), at.get("agent"), at.get("what")):
                return self._case(sdesc, e)
        if at.get("what") == "build" and evs:
            # the description records that building the stack raised; it builds now (a repaired finding kept as a
            # regression case): the case is the first thing the session then checks
            return self._case(sdesc, evs[0])
        raise LookupError("no such event")

    # -- verdict --------------------------------------------------------------------------------------
    def interpret(self, reply, case):
        if case.desc.get("stream") == "example-modelled":
            return p_examples.interpret(reply, case)
        with_outcome = " " in case.impl
        if reply[0] == "pong":
            ok = case.impl.startswith("1") and not case.impl.endswith("err")
            return core.Verdict(case.impl, None, ok, {"unmodelled": True})
        m, _, spec, why = reply
        if m not in (0, 1) or spec not in (0, 1):
            raise ValueError("driver did not judge the pair")
        model = str(m) + (" ok" if with_outcome else "")
        return core.Verdict(model, None, spec == 1, {"lean_mem": why, "info": case.desc.get("info")})

    # -- open findings (narrow signatures) ----------------------------------------------------------
    def finding_matchers(self):
        def info(c):
            return c.desc.get("info") or {}

        def what(c):
            return c.desc.get("at", {}).get("what")

        def e1(c, v):
            d = c.desc
            if not (d["stream"] == "example" and "sim" in d and d["sim"]["name"] == "comms_blocking" and what(c) == "obs" and
                    c.impl.startswith("0")):
                return False
            ws = d.get("wrappers", [])
            # the observation (possibly inside a super / communication observation) holds the broadcast channel's
            # entries without the channel's key; a Ravel/Flatten wrapper above it raises KeyError on that key
            return info(c).get("unkeyed_channel") == "message" or \
                (("flatten" in ws or "ravel" in ws) and info(c).get("raised") == "KeyError: 'message'")

        def n1(c, v):
            i = info(c)
            if "comm" not in c.desc.get("wrappers", []):
                return False
            if what(c) in ("nullobs", "nullact"):
                return c.impl.startswith("0") and i.get("member_below_comm") is True
            if what(c) == "build":
                return i.get("layer") in ("ravel", "flatten") and i.get("inner_is_comm") is True and \
                    i.get("inner_null_member_below_comm") is True
            if what(c) == "obs":
                return c.impl.startswith("0") and "super" in c.desc.get("wrappers", []) and \
                    i.get("covered_null_not_member") is True and i.get("covered_member_below_comm") is True
            return False

        def n2(c, v):
            i = info(c)
            ws = c.desc.get("wrappers", [])
            if "ravel" not in ws and "flatten" not in ws:
                return False
            if what(c) in ("nullobs", "nullact"):
                return c.impl.startswith("0") and i.get("falsy_unconverted") in ("RavelDiscreteWrapper", "FlattenWrapper")
            if what(c) == "build":
                return i.get("layer") in ("ravel", "flatten") and \
                    ((i.get("inner_null_unbool") is True and "truth value of an array" in i.get("raised", "")) or
                     i.get("inner_null_falsy_unconverted") in ("RavelDiscreteWrapper", "FlattenWrapper"))
            if what(c) == "obs":
                return c.impl.startswith("0") and i.get("covered_null_not_member") is True and \
                    i.get("covered_falsy_unconverted") in ("RavelDiscreteWrapper", "FlattenWrapper")
            return False
        return {"C02-E1": e1, "C02-N1": n1, "C02-N2": n2}

    # -- shrinking ------------------------------------------------------------------------------------
    def shrink_candidates(self, d):
        if d.get("stream") == "example-modelled":
            yield from p_examples.shrink_candidates(d)
            return
        at = d.get("at", {})
        fb = {"first_bad": True, "what": at.get("what"),
              "sig": "err" if str(d.get("info", {}).get("raised", "")) or at.get("what") in ("build", "reset") else None}
        base = {k: v for k, v in d.items() if k not in ("at", "info")}

        def cand(**kw):
            c = copy.deepcopy(base)
            c.update(kw)
            c["at"] = dict(fb)
            return c
        # fewer episodes / steps
        if d.get("episodes", 1) > 1:
            yield cand(episodes=max(1, at.get("ep", 0) + 1))
            yield cand(episodes=1)
        st = d.get("steps", 1)
        if st > max(0, at.get("step", 0)) and st > 0:
            yield cand(steps=max(0, at.get("step", 0)))
        if st > 1:
            yield cand(steps=st // 2)
        if d.get("script") is not None:
            yield cand(script=None)
        # fewer wrappers
        ws = d.get("wrappers", [])
        for i in range(len(ws)):
            yield cand(wrappers=ws[:i] + ws[i + 1:])
        if d["stream"] == "comp":
            r = d["sim"]
            # fewer agents
            for i in range(len(r["agents"])):
                if len(r["agents"]) > 1:
                    r2 = copy.deepcopy(r)
                    del r2["agents"][i]
                    yield cand(sim=r2)
            # fewer components
            for i in range(len(r["observers"])):
                if len(r["observers"]) > 1:          # a SmartGridWorldSimulation needs an observer
                    r2 = copy.deepcopy(r)
                    del r2["observers"][i]
                    yield cand(sim=r2)
            for k in ("move", "attack"):
                if r.get(k):
                    r2 = copy.deepcopy(r)
                    r2[k] = None
                    yield cand(sim=r2)
            for k in ("no_overlap", "randomize", "stacked_attacks"):
                if r.get(k):
                    r2 = copy.deepcopy(r)
                    r2[k] = False
                    yield cand(sim=r2)
            if len(r["dones"]) > 1:
                r2 = copy.deepcopy(r)
                r2["dones"] = r2["dones"][:1]
                yield cand(sim=r2)
            # plainer agents / smaller ranges
            for i, a in enumerate(r["agents"]):
                for k in ("blocking", "has_ammo", "has_orient", "attacking", "moving"):
                    if a.get(k):
                        r2 = copy.deepcopy(r)
                        r2["agents"][i][k] = False
                        yield cand(sim=r2)
                for k in ("view_range", "move_range", "attack_range"):
                    v = a.get(k)
                    if v == "FULL" or (isinstance(v, int) and v > 0):
                        r2 = copy.deepcopy(r)
                        r2["agents"][i][k] = 0 if v == "FULL" else v - 1
                        yield cand(sim=r2)
        elif d["stream"] == "stub":
            r = d["sim"]
            for i in range(len(r["agents"])):
                if len(r["agents"]) > 1:
                    r2 = copy.deepcopy(r)
                    del r2["agents"][i]
                    yield cand(sim=r2)
            for i, a in enumerate(r["agents"]):
                for k in ("null_obs", "null_act"):
                    if a.get(k):
                        r2 = copy.deepcopy(r)
                        r2["agents"][i][k] = None
                        yield cand(sim=r2)

    # -- generated cases --------------------------------------------------------------------------------
    def cases(self, tier, rng):
        quick = tier == "quick"
        self._reset_stats()
        seed = lambda: rng.randrange(1, 10 ** 8)       # noqa: E731

        # ---- (a) exhaustive small scopes: every joint first action (every pair of joint actions for the first two
        #      steps when there are few), then a sampled second step ---------------------------------------------
        sizes = [(1, 1), (1, 2), (2, 1), (2, 2), (1, 3), (2, 3)]
        for rows, cols in sizes:
            for rep in range(14 if quick else 60):
                r = gen_comp(rng, max_agents=3, tiny=True, sizes=[(rows, cols)])
                sd0 = {"stream": "comp", "sim": r, "wrappers": [], "seed": seed(), "episodes": 1, "steps": 2}
                # the joint action space of the learning agents after the first reset
                probe = S.run_session(dict(sd0, steps=1))
                acts = [e for e in probe if e.what == "act" and e.step == 1]
                cards = [S.space_card(e.space) or 1 for e in acts]
                if not acts:
                    yield from self._session_cases(sd0)
                    continue
                total = 1
                for c in cards:
                    total *= c
                limit = 40 if quick else 200
                if total <= limit:
                    combos = list(itertools.product(*[range(c) for c in cards]))
                else:
                    combos = [tuple(rng.randrange(c) for c in cards) for _ in range(limit)]
                    combos += [tuple(0 for _ in cards), tuple(c - 1 for c in cards)]
                if total * total <= limit:
                    scripts = [[list(a), list(b)] for a in combos for b in combos]     # both steps enumerated
                else:
                    scripts = [[list(a)] for a in combos]                                # second step sampled
                first = True
                for script in scripts:
                    sd = dict(sd0, script=script)
                    # the null points and the reset observations are the same in every run of this recipe
                    yield from self._session_cases(sd, only=None if first else (lambda e: e.step >= 1))
                    first = False

        # ---- (a) seeded random component simulations -------------------------------------------------
        for _ in range(1100 if quick else 5500):
            r = gen_comp(rng, max_side=5 if quick else 7, max_agents=6 if quick else 8)
            sd = {"stream": "comp", "sim": r, "wrappers": [], "seed": seed(), "order": rng.randrange(4),
                  "episodes": 2 if quick else 3, "steps": rng.choice([4, 8] if quick else [6, 12, 25])}
            yield from self._session_cases(sd)

        # ---- (b) wrapper stacks over component simulations and over the stub -------------------------------
        stacks = STACKS_QUICK + STACKS_FINDINGS
        for rnd in range(14 if quick else 90):
            for ws in stacks:
                needs_small = "ravel" in ws
                for stream in ("comp", "stub"):
                    if stream == "comp":
                        r = gen_comp(rng, max_side=2 if needs_small else 4, max_agents=4, tiny=needs_small)
                    else:
                        r = gen_stub(rng, floats="ravel" not in ws, small=needs_small,
                                     unbounded=not ("ravel" in ws or "flatten" in ws))
                    sd = {"stream": stream, "sim": r, "wrappers": ws, "seed": seed(), "super_groups": super_groups(rng),
                          "episodes": 1 if quick else 2, "steps": 4 if quick else 8}
                    yield from self._session_cases(sd)

        # ---- (c) every packaged example simulation --------------------------------------------------
        for name, (fn, nv) in S.EXAMPLES.items():
            for v in range(nv if not quick else min(nv, 2)):
                big = name in ("pacman", "team_battle_example", "predator_prey_resources", "multi_maze_navigation")
                sd = {"stream": "example", "sim": {"name": name, "variant": v}, "wrappers": [], "seed": seed(),
                      "episodes": (2 if big else 3) if quick else (3 if big else 6),
                      "steps": (8 if big else 15) if quick else (25 if big else 40)}
                got = 0
                for c in self._session_cases(sd):
                    got += 1
                    if c.desc["at"]["what"] == "build":
                        self.stats["examples_failed"]["%s[%d]" % (name, v)] = c.desc.get("info", {}).get("raised")
                    yield c
                if got and ("%s[%d]" % (name, v)) not in self.stats["examples_failed"]:
                    self.stats["examples_built"]["%s[%d]" % (name, v)] = got
        # ... and long episodes of them (the repository's own training scripts use horizons of 200 steps): a scripted
        # cycle that wraps around, a counter that runs out, an index beyond a table only show after many steps.  Of
        # these sessions every failing event is a case, of the others the events of every fourth step.
        for name, (fn, nv) in S.EXAMPLES.items():
            for v in range(1 if quick else nv):
                reached = 0
                for k in range(8 if quick else 12):
                    if k >= (2 if quick else 5) and reached >= 2:
                        break              # sessions are added until two of them had an episode of 100+ steps
                    short = 15 if quick else 40
                    sd = {"stream": "example", "sim": {"name": name, "variant": v}, "wrappers": [], "seed": seed(),
                          "episodes": 4, "steps": 150 if quick else 400}
                    top = 0
                    for c in self._session_cases(sd, only=lambda e: e.step > short and (
                            e.outcome == "err" or not e.rc or e.step % 4 == 0)):
                        top = max(top, c.desc["at"].get("step") or 0)
                        yield c
                    reached += top >= 100
        # examples under the wrappers the repository itself uses them with, then every applicable single wrapper
        ex_stacks = [("team_battle_example", 1, ["super"], [[0, 4], [1, 5], [2, 6], [3, 7]]),
                     ("multi_corridor", 1, ["ravel"], None), ("multi_corridor", 0, ["flatten"], None),
                     ("multi_agent_sim", 0, ["comm"], None), ("multi_corridor", 1, ["comm"], None)]
        if not quick:
            ex_stacks.append(("team_battle_example", 0, ["super"],
                              [[i for i in range(24) if i % 4 == k] for k in range(4)]))
            for name, (fn, nv) in S.EXAMPLES.items():
                for ws in (["ravel"], ["flatten"], ["super"], ["comm"], ["super", "flatten"], ["flatten", "super"]):
                    ex_stacks.append((name, rng.randrange(nv), ws, None))
        for name, v, ws, groups in ex_stacks:
            sd = {"stream": "example", "sim": {"name": name, "variant": v}, "wrappers": ws, "seed": seed(),
                  "episodes": 1 if quick else 2, "steps": 5 if quick else 12,
                  "super_groups": groups or super_groups(rng)}
            yield from self._session_cases(sd)
        # ---- the five MODELLED example classes: real objects against the model of their own step / reset / getters
        yield from p_examples.gen_cases(rng, "example-modelled", 450 if quick else 9000, quick)

    def extra_checks(self, tier, rng, report):
        st = self.stats
        report.notes["sessions"] = st["sessions"]
        report.notes["sessions_discarded_infeasible_configuration"] = st["sessions_without_events"]
        report.notes["ravel_or_flatten_sessions_skipped_outside_C04_C05_domain"] = st["ravel_skipped"]
        report.notes["unmodelled_space_cases"] = st["unmodelled_cases"]
        report.notes["unmodelled_space_share"] = round(st["unmodelled_cases"] / max(1, st["cases"]), 4)
        report.notes["example_simulations_built"] = st["examples_built"]
        report.notes["example_simulations_not_built"] = st["examples_failed"]
        report.notes["example_simulations_not_played"] = {
            "multi_agent_sim.MultiAgentSim": "test double: get_obs/get_reward/get_done return label strings"}
        if st["sessions"] and st["sessions_without_events"] > 0.5 * st["sessions"]:
            report.runtime_failure("more than half of the generated sessions could not be built or reset "
                                   "(construction of the simulations is broken or the generator is)", dict(st))
        missing = [n for n in S.EXAMPLES if not any(k.startswith(n + "[") for k in st["examples_built"])]
        if missing and "stopped_by_time_budget_after_s" in report.notes:
            # the run was cut short by its time budget before the example stream was reached: not a verdict on the examples
            report.notes["example_simulations_not_reached_before_the_time_budget"] = missing
        elif missing:
            report.runtime_failure("packaged example simulations that could not be built and played", missing)
        if st["cases"] and st["unmodelled_cases"] > 0.1 * st["cases"]:
            report.runtime_failure("more than 10% of the cases are about spaces the model cannot express", dict(st))
