"""BroadcastSim (abmarl/examples/sim/comms_blocking.py) against the model of its own reset / step / getters and of its
hand-written components (lean/Abmarl/Model/Broadcast.lean).  Its cases ride in the streams of harness/p_examples.py with
`which == "broadcast"` (C02 / C03 `example-modelled`, C08 twins `layer example`).

desc: {"stream", "which": "broadcast", "p": build parameters, "ops": [["reset", tape] | ["step", [[agent, [dr, dc],
broadcast, form]...], tape] | ["obs", a, tape] | ["rew", a] | ["done", a] | ["alldone"]], "scribble"?, "twin"?}

FLOATS.  Messages are float64 in the code and exact rationals in the model.  Every entry of the trace dumps, next to the
world and the reward dict, every agent's `message` and the whole `receiving_state` with each float as the exact
rational it is (`fractions.Fraction`); the driver runs the model CALL BY CALL from the previous dump and echoes an entry
that agrees (discrete parts equal, messages within 2^-40), see Model/BroadcastDriver.lean.  Observations are float32:
for every slot of the `message` dict the harness lists the stored numbers whose float32 rounding (numpy) the entry
equals -- `z` (it is 0), `o` (the agent's own message after the call), `["e", k]` (entry k of the receiving list before
the call) -- and sends the entry itself exactly; the model says which of them the slot must carry.  No float is ever
compared with a model rational for equality.
"""
import copy
import json
from fractions import Fraction

import compat  # noqa: F401
import numpy as np

import core
import gridw
import oracle
import wire
from p_place import guarded, opts_wire
from p_attack import fenc

BAD = 999999937
_MB = []


def _mixed_class():
    """a BroadcastingAgent that also moves and observes the grid (the components test capabilities one by one)"""
    if not _MB:
        from abmarl.examples.sim.comms_blocking import BroadcastingAgent
        from abmarl.sim.gridworld.agent import MovingAgent, GridObservingAgent
        _MB.append(type("MovingBroadcaster", (BroadcastingAgent, MovingAgent, GridObservingAgent), {}))
    return _MB[0]


def num(q, as_int=False):
    """[num, den] -> the Python number handed to the constructors (an int when asked and den == 1)"""
    if q is None:
        return None
    if as_int and q[1] == 1:
        return int(q[0])
    return q[0] / q[1]


def fr(x):
    try:
        f = Fraction(x)
    except Exception:  # noqa: BLE001  (nan, inf, not a number)
        return [BAD, 1]
    return [f.numerator, f.denominator]


def build(p):
    from abmarl.examples.sim.comms_blocking import BroadcastingAgent, BlockingAgent, BroadcastSim
    from abmarl.sim.gridworld.agent import GridWorldAgent
    agents = {}
    for i, a in enumerate(p["agents"]):
        ident = gridw.aid(i)
        kw = dict(id=ident, encoding=int(str(a["enc"])))
        if a.get("pos") is not None:
            kw["initial_position"] = np.array(a["pos"])
        k = a["kind"]
        if k in ("b", "mb"):
            kw["broadcast_range"] = int(a["range"])
            if a.get("init") is not None:
                kw["initial_message"] = num(a["init"], a.get("int"))
            if a.get("blocking"):
                kw["blocking"] = True
            if k == "mb":
                kw.update(move_range=a["move"], view_range=a["view"])
                agents[ident] = _mixed_class()(**kw)
            else:
                agents[ident] = BroadcastingAgent(**kw)
        elif k == "blk":
            agents[ident] = BlockingAgent(move_range=a["move"], view_range=a["view"], **kw)
        else:
            agents[ident] = GridWorldAgent(blocking=bool(a.get("blocking")), **kw)
    kw = dict(agents=agents, broadcast_mapping={int(e): [int(x) for x in s] for e, s in p["mapping"]},
              done_tolerance=num(p["tol"], True))
    if p.get("overlap"):
        kw["overlapping"] = {int(e): set(s) for e, s in p["overlap"]}
    if p.get("no"):
        kw["no_overlap_at_reset"] = True
    if p.get("rand"):
        kw["randomize_placement_order"] = True
    return BroadcastSim.build_sim(p["rows"], p["cols"], **kw)


def session(p, scribble=False):
    import p_examples
    import p_obs
    from abmarl.examples.sim.comms_blocking import BroadcastingAgent
    p_examples.BUILD.setdefault("broadcast", build)

    class BCSession(p_examples.ExSession):
        def __init__(self, p, scribble=False):
            super().__init__("broadcast", p, 0, scribble=scribble)
            sim = self.sim
            self.states = {"position": sim.position_state}
            self.comp_names = ["position"]
            self.n = len(self.al)
            self.isb = [isinstance(a, BroadcastingAgent) for a in self.al]

        def cfg_wire(self):
            sim = self.sim
            mp = sim.broadcast_actor.broadcast_mapping
            return ["broadcast", self.isb,
                    [int(a.broadcast_range) if b else 0 for a, b in zip(self.al, self.isb)],
                    [([fr(a.initial_message)] if (b and a.initial_message is not None) else [])
                     for a, b in zip(self.al, self.isb)],
                    [[int(e), [int(x) for x in s]] for e, s in mp.items()],
                    fr(sim.done.done_tolerance), bool(getattr(sim.grid_observer, "observe_self", True))]

        def aid(self, a):
            return self.al[a].id if a < self.n else "nobody%d" % a

        # ---- reading the object without side effects -------------------------------------------------
        def msgs(self):
            out = []
            for a, b in zip(self.al, self.isb):
                m = getattr(a, "message", None) if b else None
                out.append([] if m is None else [fr(m)])
            return out

        def recv_raw(self):
            return getattr(self.sim.broadcasting_state, "receiving_state", None)

        def recv(self):
            rs = self.recv_raw()
            if rs is None:
                return []
            return [[[self.idx[k], [[self.idx[s], fr(m)] for s, m in lst]] for k, lst in rs.items()]]

        def snap(self):
            return self.sw.dyn_wire(), self.msgs(), self.recv(), self.ledger()

        # ---- observations ----------------------------------------------------------------------------
        def msg_slots(self, a, val, pre_list):
            """the `message` dict of agent a: [[key, cands, exact entry]...] in listing order of the keys"""
            if not isinstance(val, dict):
                return None
            post = getattr(self.al[a], "message", None)
            out = []
            for k, v in val.items():
                if k not in self.idx:
                    return None
                arr = np.asarray(v)
                if arr.shape != (1,) or arr.dtype.kind != "f":
                    return None
                x = arr[0]
                cands = []
                if x == 0:
                    cands.append("z")
                with np.errstate(all="ignore"):
                    if self.idx[k] == a and post is not None and np.float32(post) == x:
                        cands.append("o")
                    for i, (_, m) in enumerate(pre_list):
                        if np.float32(m) == x:
                            cands.append(["e", i])
                out.append([self.idx[k], cands, fr(float(x))])
            out.sort(key=lambda s: s[0])
            return out

        def obs_res(self, a, o, pre_list):
            if not isinstance(o, dict):
                return None
            items, msg = [], []
            for k, v in o.items():
                if k == "message":
                    sl = self.msg_slots(a, v, pre_list)
                    if sl is None:
                        return None
                    msg = [sl]
                elif k in p_examples.KEY_KIND:
                    c = p_obs.canon(p_examples.KEY_KIND[k], k, {k: v})
                    if c[0] in ("err", "none"):
                        return None
                    items.append([k, c])
                else:
                    return None
            return ["obs", items, msg]

        # ---- actions -----------------------------------------------------------------------------------
        def py_action(self, a, move, bc, form):
            if a >= self.n:
                return {"broadcast": 1}
            sp = getattr(self.al[a], "action_space", None)      # (a plain entity has none)
            keys = list(sp.spaces.keys()) if hasattr(sp, "spaces") else []
            if form & 4:
                keys = keys[::-1]
            act = {}
            for k in keys:
                if k == "move":
                    act[k] = (np.array(move, dtype=int) if form & 1 == 0 else
                              np.array([[0, 0], move], dtype=np.int64).T[:, 1])     # a non-contiguous view
                elif k == "broadcast":
                    act[k] = int(bc) if form & 2 == 0 else np.int64(bc)
            return act

        def act_wire(self, acts):
            return [[int(a), [int(m[0]), int(m[1])], int(b)] for a, m, b, _ in acts]

        def op_wire(self, op):
            if op[0] == "reset":
                return ["reset", self.comp_wire("position"), list(op[1])]
            if op[0] == "step":
                return ["step", self.act_wire(op[1]), list(op[2])]
            if op[0] == "obs":
                return ["obs", int(op[1]), list(op[2])]
            if op[0] in ("rew", "done"):
                return [op[0], int(op[1])]
            return ["alldone"]

        def sample(self, rng, a):
            ag = self.al[a]
            spaces = getattr(getattr(ag, "action_space", None), "spaces", {})
            move, bc = [0, 0], 0
            if "move" in spaces:
                lo, hi = spaces["move"].low, spaces["move"].high
                move = [rng.randint(int(lo[0]), int(hi[0])), rng.randint(int(lo[1]), int(hi[1]))]
            if "broadcast" in spaces:
                bc = 1 if rng.random() < 0.75 else 0
            return move, bc

        # ---- one call -----------------------------------------------------------------------------------
        def do(self, op):
            sim = self.sim
            kind = op[0]
            res = None
            if kind == "reset":
                with self._scripted(op[1]):
                    st, val = guarded(sim.reset, seconds=20.0)
                res = ["unit"]
            elif kind == "step":
                ad = {self.aid(a): self.py_action(a, m, b, f) for a, m, b, f in op[1]}
                with self._scripted(op[2]):
                    st, val = guarded(lambda: sim.step(ad), seconds=20.0)
                res = ["unit"]
                if self.scribble:
                    for v in ad.values():              # the caller re-uses its dicts: the simulation must not keep them
                        for k in list(v):
                            v[k] = v[k] * 0 + 7
                    ad.clear()
            elif kind == "obs":
                a = op[1]
                rs = self.recv_raw()
                pre_list = list(rs.get(self.aid(a), [])) if isinstance(rs, dict) else []
                with self._scripted(op[2]):
                    st, val = guarded(lambda: sim.get_obs(self.aid(a)))
                if st == "ok":
                    res = self.obs_res(a, val, pre_list) if a < self.n else None
                    if res is None:
                        res = ["int", BAD]               # not an observation the wire can carry: no model outcome equals it
                    if self.scribble and isinstance(val, dict):   # the caller overwrites what it was handed (in place)
                        for v in val.values():
                            if isinstance(v, np.ndarray) and v.flags.writeable:
                                v[...] = -77
                            if isinstance(v, dict):
                                for w in v.values():
                                    if isinstance(w, np.ndarray) and w.flags.writeable:
                                        w[...] = 0.625
                                v.clear()
                        val.clear()
            elif kind == "rew":
                st, val = guarded(lambda: sim.get_reward(self.aid(op[1])))
                if st == "ok":
                    res = ["int", p_examples.units(val)]
            elif kind == "done":
                st, val = guarded(lambda: sim.get_done(self.aid(op[1])))
                if st == "ok":
                    res = ["bool", bool(val)] if isinstance(val, (bool, np.bool_)) else ["int", BAD]
            else:
                st, val = guarded(sim.get_all_done)
                if st == "ok":
                    res = ["bool", bool(val)] if isinstance(val, (bool, np.bool_)) else ["int", BAD]
            if st != "ok":
                return [["err", st], [], [], [], []]
            dyn, ms, rv, led = self.snap()
            return [res, dyn, ms, rv, led]
    return BCSession(p, scribble)


# ----------------------------------------------------------------------------------------------
# build parameters

INITS = [None, None, None, [1, 2], [-3, 4], [5, 1024], [3, 10], [-7, 10], [1, 3], [0, 1], [1, 1], [-1, 1], [-999, 1000]]
TOLS = [[1, 4], [1, 2], [1, 10], [5, 10 ** 10], [2, 1], [1, 1024], [3, 100]]


def gen_params(rng, big=False, out_of_domain=None):
    """`out_of_domain`: None = by chance (8%), else whether the mapping may break the configuration hypothesis"""
    if big:
        rows, cols = rng.randint(7, 9), rng.randint(7, 9)
    else:
        rows, cols = rng.randint(1, 7), rng.randint(1, 7)
        if rng.random() < 0.5:
            rows, cols = rng.randint(2, 4), rng.randint(2, 4)
    ncell = rows * cols
    nb = rng.randint(1, 5) if not big else rng.randint(8, 12)
    nblk = rng.randint(0, 3) if not big else rng.randint(6, 10)
    nwall = rng.choice([0, 0, 1, 2]) if not big else 3
    share = rng.random() < 0.3                      # broadcasters may share cells
    if not share:
        while nb + nblk + nwall > ncell:
            if nwall:
                nwall -= 1
            elif nblk:
                nblk -= 1
            else:
                nb -= 1
        if nb == 0:
            nb, nblk, nwall = 1, 0, 0
    two = rng.random() < 0.3                        # two kinds of broadcasters (encodings 1 and 3)
    rmax = max(rows, cols)
    ags = []
    for i in range(nb):
        r = rng.choice([0, 1, 2, 3, 4, 5, 6, 6, rmax + 2]) if not big else rng.choice([3, 6, 9])
        a = {"kind": "b" if rng.random() < 0.8 else "mb", "enc": 3 if (two and i % 2) else 1, "range": r,
             "init": rng.choice(INITS), "blocking": rng.random() < 0.1, "pos": None}
        if a["init"] is not None and a["init"][1] == 1 and rng.random() < 0.5:
            a["int"] = True
        if a["kind"] == "mb":
            a.update(move=rng.choice([1, 1, 2]), view=rng.choice([0, 1, 2]))
        ags.append(a)
    for i in range(nblk):
        ags.append({"kind": "blk", "enc": 2, "move": rng.choice([1, 1, 2]), "view": rng.choice([1, 2, 3, "FULL"]),
                    "pos": None})
    for i in range(nwall):
        ags.append({"kind": "wall", "enc": 4, "blocking": rng.random() < 0.6, "pos": None})
    if rng.random() < 0.5:
        rng.shuffle(ags)
    # fixed positions: sometimes a line broadcaster - blocker - broadcaster (the shadow decides), sometimes random cells
    r = rng.random()
    cells = [[x, y] for x in range(rows) for y in range(cols)]
    rng.shuffle(cells)
    if r < 0.35 and not share:
        for a in ags:
            if rng.random() < 0.8 and cells:
                a["pos"] = cells.pop()
    elif r < 0.6 and cols >= 3:
        row = rng.randrange(rows)
        bs = [a for a in ags if a["kind"] in ("b", "mb")]
        ks = [a for a in ags if a["kind"] in ("blk", "wall")]
        if len(bs) >= 2 and ks:
            c0 = rng.randrange(cols - 2)
            bs[0]["pos"], ks[0]["pos"], bs[1]["pos"] = [row, c0], [row, c0 + 1], [row, min(cols - 1, c0 + 2)]
    overlap = None
    if share:
        overlap = rng.choice([[[1, [1]]], [[1, [1, 3]], [3, [1, 3]]], [[1, [1, 2]], [2, [1]]]])
    ood = (rng.random() < 0.08) if out_of_domain is None else out_of_domain
    if ood:
        mapping = rng.choice([[[1, [1, 2]], [3, [1, 3]]], [[3, [1]]], [], [[1, [1, 3, 4]], [3, [2]]]])
    elif two:
        mapping = rng.choice([[[1, [1, 3]], [3, [1]]], [[1, [3]], [3, [1, 3]]], [[3, [3]], [1, [1]]], [[1, []], [3, [1, 3]]]])
    else:
        mapping = rng.choice([[[1, [1]]], [[1, [1]]], [[1, [1, 3]]], [[1, []]], [[1, [1]], [2, [1]]]])
    return {"rows": rows, "cols": cols, "agents": ags, "overlap": overlap, "mapping": mapping, "tol": rng.choice(TOLS),
            "no": rng.random() < 0.2, "rand": rng.random() < 0.15}


def tape_of(rng, n=24):
    return [rng.randrange(4096) for _ in range(n)]


def gen_history(rng, sess, n_ops, episodes):
    """adaptive random history on the real object"""
    ops, entries = [], []
    n = len(sess.al)

    def push(op):
        e = sess.do(op)
        ops.append(op)
        entries.append(e)
        return e[0][0] != "err"

    def reset_op():
        return ["reset", tape_of(rng, 4 * n + 40)]
    ep = 1
    if not push(reset_op()):
        return ops, entries
    quiet = rng.random() < 0.2                       # nobody reads between the steps: the lists pile up
    while len(ops) < n_ops:
        r = rng.random()
        if r < 0.05 and ep < episodes:
            ep += 1
            if not push(reset_op()):
                break
            continue
        if r < 0.45:
            who = [a for a in range(n) if sess.learning[a] and rng.random() < 0.85] if rng.random() < 0.6 \
                else [a for a in range(n) if sess.learning[a]]
            x = rng.random()
            if x < 0.08:
                who.append(rng.choice([a for a in range(n)]))          # possibly an entity without action space
                who = list(dict.fromkeys(who))
            elif x < 0.1:
                who.append(n)                                          # an id the simulation does not know: KeyError
            rng.shuffle(who)
            acts = []
            for a in who:
                m, b = sess.sample(rng, a) if a < n else ([0, 0], 1)
                if rng.random() < 0.03:
                    b = rng.choice([2, -1, 5])                         # outside Discrete(2): truthy, processed all the same
                acts.append([a, m, b, rng.randrange(8)])
            ok = push(["step", acts, tape_of(rng, 8)])
        elif r < 0.72 and not quiet:
            a = rng.randrange(n) if rng.random() < 0.98 else n
            ok = push(["obs", a, tape_of(rng, 200)])
            if ok and rng.random() < 0.3:
                ok = push(["obs", a, tape_of(rng, 200)])               # read twice: the second read differs
        elif r < 0.82:
            ok = push(["rew", rng.randrange(n) if rng.random() < 0.98 else n])
        elif r < 0.9:
            ok = push(["done", rng.randrange(n + 1)])
        else:
            ok = push(["alldone"])
        if not ok:
            break
    return ops, entries


def make_case(desc, sess, ops, entries):
    import p_examples
    opw = [sess.op_wire(op) for op in ops[:len(entries)]]
    head = "(gexample " + fenc(sess.cfg_wire()) + " " + wire.enc(sess.stat) + " " + fenc(sess.dyn0) + " " + fenc(opw)
    outs = fenc(entries)
    tags = ["stream:" + desc["stream"], "example:broadcast"]
    if desc.get("scribble"):
        tags.append("ex-caller-overwrites-returned-values")
    nres = sum(1 for op in ops if op[0] == "reset")
    tags.append("ex-episodes:%d" % min(nres, 4))
    delivered = False
    prev_obs = None
    for op, e in zip(ops, entries):
        tags.append("ex-op:" + op[0])
        if e[0][0] == "err":
            tags.append("ex-err:%s:%s" % (op[0], e[0][1]))
            break
        if op[0] == "step" and e[3] and any(lst for _, lst in e[3][0]):
            delivered = True
            if any(len(lst) >= 2 and len({s for s, _ in lst}) < len(lst) for _, lst in e[3][0]):
                tags.append("bc-two-pending-entries-of-one-sender")
        if op[0] == "obs" and e[0][0] == "obs" and e[0][2]:
            sl = e[0][2][0]
            if any(isinstance(c, list) for _, cs, _ in sl for c in cs):
                tags.append("bc-foreign-slot-filled")
            if prev_obs == op[1]:
                tags.append("bc-observed-twice-in-a-row")
        prev_obs = op[1] if op[0] == "obs" else None
        if op[0] == "alldone" and e[0] == ["bool", True]:
            tags.append("bc-all-done")
        if op[0] == "rew" and e[0][1] not in (0,):
            tags.append("ex-nonzero-reward-read")
    p = desc["p"]
    if any(a["kind"] in ("b", "mb") and a["range"] > max(p["rows"], p["cols"]) for a in p["agents"]):
        tags.append("bc-range-larger-than-grid")
    if any(a.get("init") is not None and (a["init"][1] & (a["init"][1] - 1)) for a in p["agents"]):
        tags.append("bc-decimal-initial-message")
    if any(a["kind"] in ("b", "mb") and a.get("init") is None for a in p["agents"]):
        tags.append("bc-drawn-initial-message")
    if len(sess.al) >= 15:
        tags.append("bc-big:15+agents")
    if any(BAD in [x for _, x in (e[4][0] if e[4] else [])] for e in entries):
        tags.append("ex-reward-not-a-hundredth")
    c = p_examples.ExCase(desc, head + " " + outs + ")", outs, key=core._hash(head), nontrivial=delivered,
                          tags=sorted(set(tags)))
    c.stream = desc["stream"]
    return c


def case_from_desc(d):
    sess = session(copy.deepcopy(d["p"]), scribble=bool(d.get("scribble")))
    other = session(copy.deepcopy(d["p"])) if d.get("twin") else None
    entries = []
    for k, op in enumerate(d["ops"]):
        if other is not None and k % 3 == 1:
            other.do(d["ops"][0] if k < 3 else op)     # a second object of the same parameters is used in between
        e = sess.do(op)
        entries.append(e)
        if e[0][0] == "err":
            break
    return make_case(d, sess, d["ops"][:len(entries)], entries)


def gen_cases(rng, stream, count, quick=True):
    made = 0
    while made < count:
        big = made == 0
        p = gen_params(rng, big=big)
        scribble = rng.random() < 0.15
        try:
            sess = session(copy.deepcopy(p), scribble=scribble)
        except (AssertionError, ValueError, KeyError, TypeError):
            continue
        ops, entries = gen_history(rng, sess, rng.randint(6, 40) if not big else 120, rng.randint(1, 3) if not big else 3)
        if len(entries) == 1 and entries[0][0][0] == "err" and rng.random() < 0.8:
            continue
        d = {"stream": stream, "which": "broadcast", "p": p, "ops": ops[:len(entries)]}
        if scribble:
            d["scribble"] = True
        if rng.random() < 0.25 and not big:
            d["twin"] = True
            yield case_from_desc(d)
        else:
            yield make_case(d, sess, ops, entries)
        made += 1


PARTS = (("result", 0), ("world", 1), ("messages", 2), ("receiving_state", 3), ("ledger", 4))


def interpret(reply, case):
    model, ms, is_, pre = reply
    if is_ not in (0, 1):
        raise ValueError("driver could not parse the implementation's trace")
    detail = {"pre": pre, "spec_on_impl": is_, "spec_on_model": ms}
    case.tags.append("ex-pre:%d" % pre)
    ms_ = fenc(model)
    impl = wire.dec(case.impl)
    if impl and impl[-1][0][0] == "err":
        k = len(impl) - 1
        detail["raised"] = [case.desc["ops"][k][0], impl[-1][0][1]]
    if ms_ != case.impl:
        # the reply echoes every entry that agrees with the model's outcome from the previous dump; the first entry that
        # does not is the model's own outcome (and the last of the reply)
        k = next((i for i, (x, y) in enumerate(zip(model, impl)) if x != y), min(len(model), len(impl)))
        detail["first_differing_call"] = k
        detail["op_at_that_call"] = case.desc["ops"][k] if k < len(case.desc["ops"]) else None
        if k < len(model) and k < len(impl):
            for name, j in PARTS:
                if model[k][j] != impl[k][j]:
                    detail["differs_in"] = name
                    detail["model_" + name] = fenc(model[k][j])[:600]
                    detail["impl_" + name] = fenc(impl[k][j])[:600]
                    break
    return core.Verdict(ms_, (ms == 1) if pre == 1 else None, is_ == 1, detail)


def shrink_candidates(d):
    import p_examples
    yield from p_examples._shrink_candidates(d)
    p = d["p"]
    n = len(p["agents"])
    used = {a for op in d["ops"] for a in ([x[0] for x in op[1]] if op[0] == "step" else
                                           [op[1]] if op[0] in ("obs", "rew", "done") else [])}
    for i in range(n - 1, -1, -1):
        if i not in used and n > 1:
            # drop an agent nobody refers to (indices above it shift down)
            q = copy.deepcopy(p)
            del q["agents"][i]
            sh = lambda a: a - 1 if a > i else a  # noqa: E731
            ops = []
            for op in d["ops"]:
                if op[0] == "step":
                    ops.append(["step", [[sh(x[0])] + x[1:] for x in op[1]], op[2]])
                elif op[0] in ("obs", "rew", "done"):
                    ops.append([op[0], sh(op[1])] + op[2:])
                else:
                    ops.append(op)
            yield {**d, "p": q, "ops": ops}


# ----------------------------------------------------------------------------------------------
# C08: used versus fresh twin (pending receiving lists and messages of the previous episode must not leak)

def twin_case(d):
    import p_examples
    return p_examples._twin_case(d, session_of=lambda dd: session(copy.deepcopy(dd["p"])), make=make_case)


def gen_twin_cases(rng, count):
    made = 0
    while made < count:
        p = gen_params(rng, out_of_domain=False)
        try:
            used = session(copy.deepcopy(p))
        except (AssertionError, ValueError, KeyError, TypeError):
            continue
        pops, pent = gen_history(rng, used, rng.randint(1, 24), rng.randint(1, 3))
        if pent and pent[-1][0][0] == "err" and rng.random() < 0.9:
            continue
        if rng.random() < 0.6:
            # end the prefix with steps nobody reads: the used object carries pending lists into the follow-up's reset
            n = len(used.al)
            for _ in range(rng.randint(1, 3)):
                acts = [[a, used.sample(rng, a)[0], 1, 0] for a in range(n) if used.learning[a]]
                op = ["step", acts, []]
                e = used.do(op)
                pops.append(op)
                pent.append(e)
                if e[0][0] == "err":
                    break
        fops, fent = gen_history(rng, used, rng.randint(2, 12), 1)
        made += 1
        yield twin_case({"layer": "example", "which": "broadcast", "p": p, "order": 0, "pops": pops[:len(pent)],
                         "fops": fops[:len(fent)]})


RULE = (" BroadcastSim of comms_blocking.py (`which: broadcast`, model lean/Abmarl/Model/Broadcast.lean) rides in the "
        "same streams: grids 1x1 .. 7x7 (first case of every run: 7-9 x 7-9, 8-12 broadcasters, 6-10 blockers, 120 "
        "calls), 1-5 BroadcastingAgents (a fifth of them of a class that also moves and observes the grid, a tenth "
        "blocking) with broadcast ranges 0..6 and larger than the grid, initial messages given (dyadic, decimal, ints, "
        "the bounds) or drawn (uniform(-1, 1) from the tape), 0-3 BlockingAgents, 0-2 plain walls, one or two "
        "broadcaster encodings with several mappings (8%: mappings that break the configuration hypothesis - a missing "
        "key, a row that allows an agent without receiving list: the KeyError branches of the model), agents alone in "
        "their cells or sharing them, fixed positions with a blocker between two broadcasters; histories of reset / "
        "step (subsets, shuffled insertion order, items for entities and unknown ids, values outside Discrete(2)) / "
        "get_obs (read twice in a row, or not at all between the steps) / get_reward / get_done / get_all_done over "
        "1-3 episodes on one object, 15% with a caller that overwrites what it was handed, 25% with a second object "
        "used in between.  Every entry dumps world, messages, receiving_state (floats as exact rationals) and reward "
        "dict; the driver runs the model call by call from the previous dump and accepts a message within 2^-40 of "
        "its exact number; observation entries must be the float32 rounding of the stored number the model names "
        "(checked with numpy).  Judged by BC.specBC (Spec/Broadcast.lean).")
