"""Verdict logic shared by all property checks (DESIGN.md §2).

A property module provides a `Prop` object (see class Prop).  `run_check` does:
  1. proof obligations: lake build, `#print axioms` audit, forbidden-construct grep
     (thorough tier: leanchecker);
  2. corpus cases first, then generated cases; every case runs the *real* code (current
     working tree of /repo) and is sent, together with the implementation's outcome, to the
     Lean driver, which answers with the model's outcome, the proved specification predicate
     evaluated on the model's outcome (self-test) and on the implementation's outcome (judge);
  3. verdict: spec false on an implementation outcome = failing input (KNOWN-FINDING if it
     matches an open entry of known_findings.json, VIOLATION otherwise); disagreement or broken
     obligation without any failing input = VIOLATION ... no-failing-input-found.
Exit codes: 0 held, 1 violation, 2 internal error.
"""
import hashlib
import json
import os
import random
import sys
import time
import traceback

import lean as L
import wire

VERIF = L.VERIF
TRUSTED_BASE = [
    "Lean 4.33.0 kernel; axioms allowed: propext, Classical.choice, Quot.sound (audited per theorem by #print axioms)",
    "no sorry/admit/axiom/native_decide/bv_decide/implemented_by/unsafe in lean/ (grepped on every run)",
    "statements in lean/Abmarl/Props/*.lean say what properties.jsonl says (human-read)",
    "Lean compiler + runtime of the driver executable; lean/Abmarl/Model/Wire.lean and harness/wire.py",
    "correspondence = differential execution of model and current /repo sources on the generated cases (not proof)",
    "harness stand-ins: oracle tape replacing numpy.random/random, scripted stub simulation, get_inf shim",
    "Python 3.12, numpy, gymnasium, open_spiel as installed (implementation side of every comparison)",
]


class Case:
    """One correspondence case.
    desc      json-able description from which the case can be rebuilt (replay / corpus)
    line      request line for the driver (already contains the implementation outcome)
    impl      canonical implementation outcome (string) to compare with the model's
    key       hashable identity for distinct counting (None = use line hash)
    nontrivial  bool by the property's stated rule
    tags      list of branch/kind labels for the input-distribution histogram
    """
    __slots__ = ("desc", "line", "impl", "key", "nontrivial", "tags", "origin", "req", "impl_list", "unnamed")

    def __init__(self, desc, line, impl, key=None, nontrivial=True, tags=(), origin="gen"):
        self.desc, self.line, self.impl = desc, line, impl
        self.key, self.nontrivial, self.tags, self.origin = key, nontrivial, list(tags), origin


class Verdict:
    __slots__ = ("model", "model_spec", "impl_spec", "detail")

    def __init__(self, model, model_spec, impl_spec, detail=None):
        self.model, self.model_spec, self.impl_spec, self.detail = model, model_spec, impl_spec, detail


class Prop:
    """Interface a property module implements."""
    pid = "C00"
    lean_targets = []          # lake targets holding this property's theorems
    rule = ""                  # how cases are generated; what makes one distinct / non-trivial
    assumptions = []           # modelled-rather-than-verified notes for the evidence
    level_text = ""

    def cases(self, tier, rng):
        """yield Case objects (real code already run)"""
        raise NotImplementedError

    def case_from_desc(self, desc):
        """rebuild a Case from its description (re-runs the real code)"""
        raise NotImplementedError

    def interpret(self, reply, case):
        """reply (decoded driver answer) -> Verdict"""
        raise NotImplementedError

    def shrink_candidates(self, desc):
        """yield smaller descs (optional)"""
        return []

    def finding_matchers(self):
        """{finding id: fn(case, verdict) -> bool}; narrow signatures of open findings"""
        return {}

    def relabel(self, case, verdict):
        """a case whose implementation outcome holds an exception the harness could not name from its MESSAGE, re-made
        with the model's name for it where the exception TYPE is the one the model expects (None: nothing to do)"""
        return None

    def extra_checks(self, tier, rng, report):
        """runtime-only checks (no model), may call report.runtime_failure(...)"""
        return None


def load_known():
    with open(os.path.join(VERIF, "known_findings.json")) as f:
        return json.load(f)["findings"]


def _hash(s):
    return hashlib.sha1(s.encode()).hexdigest()[:12]


class Report:
    def __init__(self, prop, tier, seed):
        self.prop, self.tier, self.seed = prop, tier, seed
        self.t0 = time.time()
        self.obligations = []
        self.discharged = []
        self.broken_obligations = []      # (name, why)
        self.evaluations = 0
        self.keys = set()
        self.nontrivial_keys = set()
        self.tags = {}
        self.samples = []
        self.disagreements = []           # (case, verdict)
        self.failing = []                 # (case, verdict) with impl_spec False
        self.selftest_fail = []           # model_spec False
        self.known_hits = {}              # finding id -> count
        self.runtime_failures = []        # (what, desc)
        self.harness_crash = None         # traceback of an exception outside every guarded call (see run_check)
        self.notes = {}
        self.violation_lines = []
        self.checker_cmd = ""

    def runtime_failure(self, what, desc):
        self.runtime_failures.append((what, desc))

    def count(self, case):
        self.evaluations += 1
        k = case.key if case.key is not None else _hash(case.line)
        self.keys.add(k)
        if case.nontrivial:
            self.nontrivial_keys.add(k)
        for t in case.tags:
            self.tags[t] = self.tags.get(t, 0) + 1
        if len(self.samples) < 3 or (case.nontrivial and len(self.samples) < 6 and self.evaluations % 97 == 0):
            self.samples.append(case.desc)


def proof_part(prop, tier, rep):
    pid = prop.pid
    obl = L.obligations(pid)
    rep.obligations = obl
    # modules the audit file imports besides Props/Cxx.lean (obligations.json "_imports") are targets too
    prop.lean_targets = list(prop.lean_targets) + [m for m in L.extra_modules(pid) if m not in prop.lean_targets]
    rep.checker_cmd = (f"cd lean && lake build {' '.join(prop.lean_targets)} driver && "
                       f"lake env lean Abmarl/Audit/{pid}.lean  # + forbidden-construct grep"
                       + ("; lake env leanchecker " + " ".join(prop.lean_targets) if tier == "thorough" else ""))
    ok, log = L.build(list(prop.lean_targets) + ["driver"])
    if not ok:
        # find out which part still builds
        okd, _ = L.build(["driver"])
        rep.broken_obligations.append(("lake build " + " ".join(prop.lean_targets), log[-1500:]))
        if not okd:
            raise L.LeanFailure("driver does not build:\n" + log[-3000:])
        return
    hits = L.grep_forbidden()
    if hits:
        rep.broken_obligations.append(("forbidden construct in lean/", "; ".join(hits[:10])))
    ax, out, rc = L.audit(pid)
    for name in obl:
        if name not in ax:
            rep.broken_obligations.append((name, "theorem missing from audit output: " + out[-500:]))
        elif not set(ax[name]) <= L.ALLOWED_AXIOMS:
            rep.broken_obligations.append((name, "depends on axioms " + ", ".join(ax[name])))
        else:
            rep.discharged.append(name)
    rep.notes["axioms"] = {k: v for k, v in ax.items() if k in obl}
    if tier == "thorough" and not rep.broken_obligations:
        ok, out = L.leanchecker(prop.lean_targets)
        rep.notes["leanchecker"] = "ok" if ok else out[-800:]
        if not ok:
            rep.broken_obligations.append(("leanchecker " + " ".join(prop.lean_targets), out[-800:]))


def judge_cases(prop, cases, rep, relabel=True):
    """send cases to the driver, classify"""
    if not cases:
        return
    replies = L.run_driver([c.line for c in cases])
    again = []
    for c, r in zip(cases, replies):
        try:
            if r.startswith("(bad-op"):
                # the driver could not read the request: the outcome the implementation produced has a form the
                # model's parser has no place for (never on the unchanged tree).  A disagreement without a model
                # outcome; whether it is a violation is for the other cases to say (else no-failing-input-found)
                v = Verdict("(the driver could not parse the implementation's outcome)", None, None, {"reply": r[:200]})
            else:
                v = prop.interpret(wire.dec(r), c)
        except Exception as ex:  # malformed reply = harness/driver bug
            raise L.LeanFailure(f"cannot interpret driver reply {r[:300]!r} for {json.dumps(c.desc)[:300]}: {ex}")
        if relabel and (v.impl_spec is False or v.model != c.impl):
            # an exception whose MESSAGE the harness does not recognise, of the TYPE the model expects here: the
            # wording of a message is not part of the contract - the case is judged again under the model's label
            c2 = prop.relabel(c, v)
            if c2 is not None:
                again.append(c2)
                continue
        rep.count(c)
        if v.model_spec is False:
            rep.selftest_fail.append((c, v))
        if v.impl_spec is False:
            rep.failing.append((c, v))
        if v.model != c.impl:
            rep.disagreements.append((c, v))
    judge_cases(prop, again, rep, relabel=False)


def single_verdict(prop, desc):
    c = prop.case_from_desc(desc)
    r = L.run_driver([c.line])[0]
    v = prop.interpret(wire.dec(r), c)
    if v.impl_spec is False or v.model != c.impl:
        c2 = prop.relabel(c, v)
        if c2 is not None:
            c = c2
            v = prop.interpret(wire.dec(L.run_driver([c.line])[0]), c)
    return c, v


def shrink(prop, case, verdict, pred, budget_s=20.0):
    """greedy delta debugging over prop.shrink_candidates; pred(case, verdict) must stay true"""
    t0 = time.time()
    best, bestv = case, verdict
    improved = True
    while improved and time.time() - t0 < budget_s:
        improved = False
        for d in prop.shrink_candidates(best.desc):
            if time.time() - t0 > budget_s:
                break
            try:
                c, v = single_verdict(prop, d)
            except Exception:
                continue
            if pred(c, v):
                best, bestv, improved = c, v, True
                break
    return best, bestv


def write_replay(prop, kind, case, verdict, extra=None):
    os.makedirs(os.path.join(VERIF, "replays"), exist_ok=True)
    body = {
        "property": prop.pid, "kind": kind, "desc": case.desc if case else None,
        "impl_outcome": case.impl if case else None,
        "model_outcome": verdict.model if verdict else None,
        "spec_on_impl": verdict.impl_spec if verdict else None,
        "detail": verdict.detail if verdict else None,
        "replay_cmd": f"./check {prop.pid} --replay <this file>",
    }
    if extra:
        body.update(extra)
    h = _hash(json.dumps(body, sort_keys=True, default=str))
    path = os.path.join("replays", f"{prop.pid}-{h}.json")
    with open(os.path.join(VERIF, path), "w") as f:
        json.dump(body, f, indent=1, default=str)
    return path


def decide(prop, rep):
    """turn the collected facts into output lines and an exit code"""
    lines = []
    known = [k for k in load_known() if k["property"] == prop.pid or prop.pid in k.get("also", [])]
    open_k = {k["id"]: k for k in known if k["status"] == "open"}
    matchers = prop.finding_matchers()
    new_fail = []
    for c, v in rep.failing:
        hit = None
        for fid, fn in matchers.items():
            if fid in open_k and fn(c, v):
                hit = fid
                break
        if hit:
            rep.known_hits[hit] = rep.known_hits.get(hit, 0) + 1
        else:
            new_fail.append((c, v))
    for fid, cnt in sorted(rep.known_hits.items()):
        lines.append(f"KNOWN-FINDING: property={prop.pid} {fid}: {open_k[fid]['what']} ({cnt} case(s) this run)")
    exit_code = 0
    if new_fail:
        c, v = new_fail[0]
        c, v = shrink(prop, c, v, lambda cc, vv: vv.impl_spec is False and not any(
            fid in open_k and fn(cc, vv) for fid, fn in matchers.items()))
        path = write_replay(prop, "failing-input", c, v, {"other_failing_cases": len(new_fail) - 1})
        lines.append(f"VIOLATION property={prop.pid} replay={path}")
        exit_code = 1
    for what, desc in rep.runtime_failures:
        path = write_replay(prop, "runtime-check", None, None, {"what": what, "desc": desc})
        lines.append(f"VIOLATION property={prop.pid} replay={path}")
        exit_code = 1
    if exit_code == 0 and rep.harness_crash:
        path = write_replay(prop, "broken-correspondence", None, None,
                            {"theorem_or_obligation": "correspondence harness of " + prop.pid + " (could not drive the "
                                                      "code under test)",
                             "why": rep.harness_crash[-3000:], "searched_cases": rep.evaluations,
                             "note": "no input was found on which the implementation violates the specification"})
        lines.append(f"VIOLATION property={prop.pid} replay={path} no-failing-input-found")
        exit_code = 1
    if exit_code == 0:
        # nothing fails the specification; is the property still *shown* to hold?
        unknown_dis = [(c, v) for c, v in rep.disagreements if not any(
            fid in open_k and fn(c, v) for fid, fn in matchers.items())]
        if rep.broken_obligations or rep.selftest_fail:
            name, why = (rep.broken_obligations[0] if rep.broken_obligations
                         else ("spec self-test on model outcome", json.dumps(rep.selftest_fail[0][0].desc)[:500]))
            path = write_replay(prop, "broken-obligation", None, None,
                                {"theorem_or_obligation": name, "why": why,
                                 "searched_cases": rep.evaluations,
                                 "note": "no input was found on which the implementation violates the specification"})
            lines.append(f"VIOLATION property={prop.pid} replay={path} no-failing-input-found")
            exit_code = 1
        elif unknown_dis:
            c, v = unknown_dis[0]
            c, v = shrink(prop, c, v, lambda cc, vv: vv.model != cc.impl)
            path = write_replay(prop, "correspondence", c, v,
                                {"correspondence": f"driver op for {prop.pid}: model outcome differs from implementation outcome",
                                 "disagreeing_cases": len(unknown_dis), "searched_cases": rep.evaluations,
                                 "note": "the proved specification predicate holds on every implementation outcome explored"})
            lines.append(f"VIOLATION property={prop.pid} replay={path} no-failing-input-found")
            exit_code = 1
    rep.violation_lines = [ln for ln in lines if ln.startswith("VIOLATION")]
    return lines, exit_code


def write_evidence(prop, rep, exit_code):
    if os.environ.get("VERIF_NO_EVIDENCE"):
        return                      # development runs (tools/anchor_coverage.sh) leave the evidence alone
    os.makedirs(os.path.join(VERIF, "evidence"), exist_ok=True)
    ev = {
        "property_id": prop.pid, "tier": rep.tier, "seed": rep.seed, "level": "proof",
        "coverage": {
            "obligations": len(rep.obligations), "discharged": len(rep.discharged),
            "obligation_names": rep.obligations,
            "checker_cmd": rep.checker_cmd, "trusted_base": TRUSTED_BASE,
            "evaluations": rep.evaluations, "distinct_nontrivial": len(rep.nontrivial_keys),
            "distinct": len(rep.keys), "rule": prop.rule,
            "samples": rep.samples[:6] if rep.samples else [{"obligations": rep.obligations}],
            "traces_validated_against_impl": rep.evaluations - len(rep.disagreements),
            "disagreements": len(rep.disagreements),
            "spec_false_on_impl": len(rep.failing),
            "known_finding_hits": rep.known_hits,
            "input_distribution": dict(sorted(rep.tags.items())),
            "broken_obligations": [n for n, _ in rep.broken_obligations],
            "notes": rep.notes,
        },
        "assumptions": list(prop.assumptions),
        "wall_s": round(time.time() - rep.t0, 2),
        "violations": len(rep.violation_lines),
    }
    with open(os.path.join(VERIF, "evidence", prop.pid + ".json"), "w") as f:
        json.dump(ev, f, indent=1, default=str)


def corpus_descs(pid):
    d = os.path.join(VERIF, "corpus", pid)
    out = []
    if os.path.isdir(d):
        for fn in sorted(os.listdir(d)):
            if fn.endswith(".json"):
                with open(os.path.join(d, fn)) as f:
                    out.append((fn, json.load(f)))
    return out


def run_check(prop, tier, seed, replay=None):
    rep = Report(prop, tier, seed)
    try:
        rng = random.Random(seed * 1000003 + 17)
        proof_part(prop, tier, rep)
        cases = []
        if replay:
            with open(replay) as f:
                body = json.load(f)
            if body.get("desc") is None:
                print(f"replay file names a broken obligation, not an input: {body.get('theorem_or_obligation')}")
            else:
                c = prop.case_from_desc(body["desc"])
                c.origin = "replay"
                cases.append(c)
                # runtime-only checks that a property module makes while it plays a case (interrupted steps, membership
                # of what was handed out, ...) are collected by the module; a replay reports them too
                for what, d in (getattr(prop, "runtime_failures_of_replay", lambda: [])() or []):
                    rep.runtime_failure(what, d)
        else:
          batch = []
          try:
            for fn, desc in corpus_descs(prop.pid):
                c = prop.case_from_desc(desc["desc"] if "desc" in desc else desc)
                c.origin = "corpus:" + fn
                c.tags.append("corpus")
                cases.append(c)
            # a soft wall-clock budget for generating cases (VERIF_BUDGET_S; default 150 s quick, 540 s thorough,
            # well above what a run takes on this sandbox): on a loaded machine the run ends in bounded time with
            # what it explored so far, and says so in the evidence
            budget = float(os.environ.get("VERIF_BUDGET_S", "150" if tier == "quick" else "540"))
            t_gen = time.time()      # the budget is for GENERATING cases: the proof part (build, audit, leanchecker) is not in it
            for c in prop.cases(tier, rng):
                batch.append(c)
                if len(batch) >= 2000:
                    judge_cases(prop, cases + batch, rep)
                    cases, batch = [], []
                    if time.time() - t_gen > budget:
                        rep.notes["stopped_by_time_budget_after_s"] = round(time.time() - t_gen, 1)
                        break
            cases += batch
            prop.extra_checks(tier, rng, rep)
            gw = sys.modules.get("gridw")
            if gw is not None and gw.STATS["illegal"] > 0:
                # the generators only describe worlds that are legal by construction; a description the REAL grid
                # refused to hold was skipped by the generator - which would hide a grid that refuses what it should hold
                rep.runtime_failure("real code: the grid refused to hold %d world description(s) that are legal by "
                                    "construction" % gw.STATS["illegal"], None)
          except L.LeanFailure:
            raise
          except Exception:  # noqa: BLE001
            # the harness could not drive the code under test (an exception outside every guarded call: the real
            # objects no longer have the shape the correspondence relies on).  On the unchanged tree this never
            # happens; on a changed tree the correspondence is BROKEN: what was collected so far is still judged, and
            # if no failing input turns up the run ends with `VIOLATION ... no-failing-input-found` naming this crash
            rep.harness_crash = traceback.format_exc()
            cases += batch
        judge_cases(prop, cases, rep)
        pk = sys.modules.get("poke")
        if pk is not None and pk.STATS["objects"]:
            # rejected assignments through public setters of live objects (harness/poke.py): how many this run made
            rep.notes["rejected_assignments_on_live_objects"] = dict(pk.STATS)
        lines, code = decide(prop, rep)
        write_evidence(prop, rep, code)
        for ln in lines:
            print(ln)
        print(f"{prop.pid} {tier} seed={seed}: obligations {len(rep.discharged)}/{len(rep.obligations)}, "
              f"{rep.evaluations} cases ({len(rep.nontrivial_keys)} distinct non-trivial), "
              f"{len(rep.disagreements)} disagreements, {len(rep.failing)} spec failures, "
              f"{time.time() - rep.t0:.1f}s -> exit {code}")
        return code
    except Exception:
        traceback.print_exc()
        print(f"{prop.pid}: internal error of the check (exit 2)")
        return 2
