"""The packaged example simulations that are MODELLED (lean/Abmarl/Model/Examples.lean): real objects against the
model of their own step / reset / getters.  NOT a property of its own: its cases are streams of existing checks --

  C02, C03   stream "example-modelled": histories of direct calls (`gexample`): reset() / step() / get_obs /
             get_reward / get_done / get_all_done on ONE real object, several episodes, under the scripted oracle;
             the trace (result, dumped world, reward dict after every call) is compared entry by entry with the
             model's and judged by `specEx` (Spec/Examples.lean: every world WInv, every observation in its declared
             space, getters change nothing, rewards read-and-reset, a step with in-space actions does not raise);
  C01, C07   stream "example-mgr": the real AllStepManager / TurnBasedManager over the real example (`mgrx`), the
             trace judged by specC01 / specC07 exactly as for the stub (harness/p_mgr.py).

Classes: TeamBattleSim, PredatorPreyResourcesSim, MazeNavigationSim, MultiMazeNavigationSim,
TrafficCorridorSimulation here; MultiCorridor (p_corridor.py), MultiAgentGridSim (p_multigrid.py) and
ReachTheTargetSim (p_reach.py) ride in the same streams (dispatch on desc["which"]); BroadcastSim of comms_blocking.py
(p_broadcast.py) rides in the direct-call and twin streams.

desc = {"stream", "which", "p": build parameters (json), "order": rotation of the observer / done component sets,
        "ops": [["reset", [component names in reset order], tape] | ["step", [[agent, [dr, dc], attack, form]...], tape] |
                ["obs", a, tape] | ["rew", a] | ["done", a] | ["alldone"]]}
manager stream: {"stream": "example-mgr", "which", "p", "order", "kind", "shuffle", "mtape", "stape", "ops": [["r"] | ["s", acts]]}

Rewards: the real float x is read as k = round(100 x); |100 x - k| must be < 1e-6 (else the sentinel BAD_REWARD is
sent, which no model outcome equals).  The model counts in units of 1/100.
"""
import contextlib
import copy
import json
import os
import random as _random

import compat  # noqa: F401
import numpy as np

import core
import gridw
import mgr
import oracle
import wire
import p_place
import p_corridor
import p_multigrid
import p_reach
import p_pacman
import p_broadcast
from p_place import guarded, opts_wire
from p_attack import fenc

from abmarl.sim import is_agent
from abmarl.sim.gridworld.agent import GridWorldAgent
from abmarl.sim.gridworld import state as ST
from abmarl.sim.gridworld import observer as OB
from abmarl.sim.gridworld import done as DN
from abmarl.managers import AllStepManager, TurnBasedManager

BAD_REWARD = 999999937
WHICH = ["teamBattle", "predatorPrey", "mazeNav", "multiMaze", "traffic"]
OBS_KIND = {OB.AbsoluteEncodingObserver: "absolute", OB.PositionCenteredEncodingObserver: "centered",
            OB.StackedPositionCenteredEncodingObserver: "stacked", OB.AbsolutePositionObserver: "position",
            OB.AmmoObserver: "ammo"}
KEY_KIND = {"absolute_encoding": "absolute", "position_centered_encoding": "centered",
            "stacked_position_centered_encoding": "stacked", "position": "position", "ammo": "ammo"}
STATE_NAME = {ST.PositionState: "position", ST.TargetBarriersFreePlacementState: "position",
              ST.MazePlacementState: "position", ST.HealthState: "health", ST.AmmoState: "ammo",
              ST.OrientationState: "orient"}
PLACE_KIND = {ST.PositionState: "position", ST.TargetBarriersFreePlacementState: "target", ST.MazePlacementState: "maze"}


def units(x):
    """a real reward as an integer number of hundredths"""
    if isinstance(x, (bool, np.bool_)):
        return BAD_REWARD
    try:
        v = 100.0 * float(x)
    except Exception:  # noqa: BLE001
        return BAD_REWARD
    k = round(v)
    return int(k) if abs(v - k) < 1e-6 else BAD_REWARD


# ----------------------------------------------------------------------------------------------
# builders (json parameters -> a real simulation object)

def _agents_from(descs):
    """agents of arbitrary classes (harness/gridw.py) -- the simulation classes accept any agent mix"""
    return [gridw.make_agent(i, a) for i, a in enumerate(descs)]


def _pos(p):
    return None if p is None else np.array(p)


def build_team_battle(p):
    from abmarl.examples.sim.team_battle_example import BattleAgent, TeamBattleSim
    if p.get("agents") is not None:
        al = _agents_from(p["agents"])
    else:
        al = []
        for i, (enc, ip, ih) in enumerate(p["battle"]):
            kw = {}
            if ip is not None:
                kw["initial_position"] = _pos(ip)
            if ih is not None:
                kw["initial_health"] = gridw.fl(ih)
            al.append(BattleAgent(id=gridw.aid(i), encoding=enc, **kw))
    agents = {a.id: a for a in al}
    kw = dict(agents=agents, overlapping={int(e): set(s) for e, s in p["overlap"]},
              attack_mapping={int(e): set(s) for e, s in p["amap"]}, states=set(p["states"]),
              observers=set(p["observers"]), dones=set(p["dones"]))
    if p.get("stacked"):
        kw["stacked_attacks"] = True
    return TeamBattleSim.build_sim(p["rows"], p["cols"], **kw)


def build_predator_prey(p):
    from abmarl.examples.sim.predator_prey_resources import (
        ResourceAgent, PreyAgent, PredatorAgent, PredatorPreyResourcesSim)
    al = []
    for i, (cls, ih) in enumerate(p["agents"]):
        kw = {} if ih is None else {"initial_health": gridw.fl(ih)}
        al.append({"resource": ResourceAgent, "prey": PreyAgent, "predator": PredatorAgent}[cls](id=gridw.aid(i), **kw))
    amap = {2: {1}, 3: {2}}
    return PredatorPreyResourcesSim.build_sim(
        p["rows"], p["cols"], agents={a.id: a for a in al}, overlapping={1: {2, 3}, 2: {1, 2, 3}, 3: {1, 2}},
        attack_mapping=amap, target_mapping=copy.deepcopy(amap), states={"PositionState", "HealthState"},
        observers=set(p["observers"]), dones=set(p["dones"]))


def build_maze_nav(p):
    from abmarl.examples.sim.maze_navigation import MazeNavigationAgent, MazeNavigationSim
    reg = {"N": lambda n: MazeNavigationAgent(id="navigator", encoding=1, view_range=p["view"]),
           "T": lambda n: GridWorldAgent(id="target", encoding=3),
           "W": lambda n: GridWorldAgent(id=f"wall{n}", encoding=2, blocking=True)}
    kw = dict(overlapping={1: {3}, 3: {1}}, states=set(p["states"]), observers=set(p["observers"]))
    if p.get("file"):
        import abmarl.examples.sim as ex
        return MazeNavigationSim.build_sim_from_file(os.path.join(os.path.dirname(ex.__file__), "maze.txt"), reg, **kw)
    return MazeNavigationSim.build_sim_from_array(np.array(p["grid"]), reg, **kw)


def build_multi_maze(p):
    from abmarl.examples.sim.multi_maze_navigation import MultiMazeNavigationAgent, MultiMazeNavigationSim
    agents = {"target": GridWorldAgent(id="target", encoding=1),
              **{f"barrier{i}": GridWorldAgent(id=f"barrier{i}", encoding=2) for i in range(p["nb"])},
              **{f"navigator{i}": MultiMazeNavigationAgent(id=f"navigator{i}", encoding=3, view_range=p["view"])
                 for i in range(p["nn"])}}
    if p.get("target_last"):
        agents = {**{k: v for k, v in agents.items() if k != "target"}, "target": agents["target"]}
    return MultiMazeNavigationSim.build_sim(
        p["rows"], p["cols"], agents=agents, overlapping={1: {3}, 3: {3}}, target_agent=agents["target"],
        barrier_encodings={2}, free_encodings={1, 3}, cluster_barriers=bool(p["cluster"]),
        scatter_free_agents=bool(p["scatter"]), no_overlap_at_reset=bool(p["no"]))


def build_traffic(p):
    from abmarl.examples.sim.traffic_corridor import WallAgent, TargetAgent, TrafficAgent, TrafficCorridorSimulation
    grid = np.array(p["grid"])
    reg = {"R": lambda n: TrafficAgent(id=f"red{n}", encoding=1), "G": lambda n: TrafficAgent(id=f"green{n}", encoding=2),
           "r": lambda n: TargetAgent(id="red_target", encoding=1), "g": lambda n: TargetAgent(id="green_target", encoding=2),
           "W": lambda n: WallAgent(id=f"wall{n}", encoding=3)}
    tm = {}
    cnt = {}
    for row in p["grid"]:
        for ch in row:
            if ch == "R":
                tm[f"red{cnt.get(ch, 0)}"] = "red_target"
            if ch == "G":
                tm[f"green{cnt.get(ch, 0)}"] = "green_target"
            if ch in reg:
                cnt[ch] = cnt.get(ch, 0) + 1
    return TrafficCorridorSimulation.build_sim_from_array(
        grid, reg, overlapping={1: {1}, 2: {2}}, states=set(p["states"]), dones=set(p["dones"]),
        observers=set(p["observers"]), target_mapping=tm)


BUILD = {"teamBattle": build_team_battle, "predatorPrey": build_predator_prey, "mazeNav": build_maze_nav,
         "multiMaze": build_multi_maze, "traffic": build_traffic}


# ----------------------------------------------------------------------------------------------
# generators of build parameters

H_CHOICES = [None, None, [1, 1], [1, 2], [3, 4], [1, 4]]


def gen_params(rng, which, big=False):
    if which == "teamBattle":
        side_r, side_c = (rng.randint(2, 5), rng.randint(2, 5)) if not big else (8, 8)
        teams = rng.randint(2, 4)
        encs = list(range(1, teams + 1))
        n = rng.randint(2, 7) if not big else 16
        p = {"rows": side_r, "cols": side_c,
             "overlap": [[e, [e]] for e in encs] if rng.random() < 0.7 else [[e, encs] for e in encs],
             "amap": [[e, [x for x in encs if x != e]] for e in encs],
             "states": ["PositionState", "HealthState"] + (["AmmoState", "OrientationState"] if rng.random() < 0.25 else []),
             "observers": rng.choice([["PositionCenteredEncodingObserver"],
                                      ["PositionCenteredEncodingObserver", "AbsolutePositionObserver"],
                                      ["AbsoluteEncodingObserver", "StackedPositionCenteredEncodingObserver"]]),
             "dones": rng.choice([["OneTeamRemainingDone"], ["ActiveDone", "OneTeamRemainingDone"], ["ActiveDone"]]),
             "stacked": rng.random() < 0.2}
        if rng.random() < 0.5:
            corners = [[0, 0], [0, side_c - 1], [side_r - 1, 0], [side_r - 1, side_c - 1]]
            fixed = rng.random() < 0.5
            p["battle"] = [[encs[i % teams], corners[i % 4] if fixed else None, rng.choice(H_CHOICES)] for i in range(n)]
        else:
            ags = []
            multi = rng.random() < 0.35          # agents that may strike two (three) agents at once
            entity = rng.random() < 0.3          # an attackable entity that is not an Agent (no reward entry)
            for i in range(n):
                a = dict(gridw.AG_DEFAULT)
                a["enc"] = encs[i % teams]
                r = rng.random()
                a["observing"] = True
                a["view_range"] = rng.choice([0, 1, 2, "FULL"])
                a["moving"] = rng.random() < 0.85
                a["move_range"] = rng.choice([1, 1, 2])
                a["attacking"] = rng.random() < 0.8
                a["attack_range"] = rng.choice([0, 1, 2])
                a["strength"] = rng.choice([[1, 1], [1, 2], [1, 4], [3, 4]])
                a["accuracy"] = rng.choice([[1, 1], [1, 1], [1, 2], [3, 4]])
                a["sim_attacks"] = rng.choice([1, 2, 2, 3]) if multi else 1
                a["init_health"] = rng.choice(H_CHOICES)
                if "AmmoState" in p["states"] and rng.random() < 0.5:
                    a["has_ammo"], a["init_ammo"] = True, rng.randint(0, 3)
                if "OrientationState" in p["states"] and rng.random() < 0.3:
                    a["has_orient"], a["init_orient"] = True, rng.choice([None, 1, 3])
                if entity and i == n - 1:
                    a.update(moving=False, attacking=False)
                if not (a["moving"] or a["attacking"]):
                    if entity:
                        a["observing"] = False       # a plain entity (not an Agent): no ledger entry
                    else:
                        a["moving"] = True
                ags.append(a)
            if not any(a["observing"] and (a["moving"] or a["attacking"]) for a in ags):
                ags[0].update(observing=True, moving=True)
            p["agents"] = ags
        return p
    if which == "predatorPrey":
        side = rng.randint(3, 5) if not big else 8
        nr, npy, npd = (rng.randint(1, 3), rng.randint(1, 3), rng.randint(1, 2)) if not big else (6, 5, 2)
        cl = ["resource"] * nr + ["prey"] * npy + ["predator"] * npd
        if rng.random() < 0.5:
            rng.shuffle(cl)
        return {"rows": side, "cols": side, "agents": [[c, rng.choice(H_CHOICES)] for c in cl],
                "observers": rng.choice([["PositionCenteredEncodingObserver"],
                                         ["PositionCenteredEncodingObserver", "AbsoluteEncodingObserver"]]),
                "dones": rng.choice([["ActiveDone", "TargetEncodingInactiveDone"], ["ActiveDone"]])}
    if which == "mazeNav":
        if rng.random() < 0.15 or big:
            return {"file": True, "view": rng.choice([2, "FULL"]), "states": ["PositionState"],
                    "observers": ["PositionCenteredEncodingObserver"]}
        rows, cols = rng.randint(1, 4), rng.randint(2, 5)
        cells = [(r, c) for r in range(rows) for c in range(cols)]
        rng.shuffle(cells)
        grid = [["0"] * cols for _ in range(rows)]
        grid[cells[0][0]][cells[0][1]] = "N"
        grid[cells[1][0]][cells[1][1]] = "T"
        for r, c in cells[2:]:
            if rng.random() < 0.3:
                grid[r][c] = "W"
        return {"grid": grid, "view": rng.choice([1, 2, "FULL"]),
                "states": rng.choice([["PositionState"], ["PositionState", "HealthState"]]),
                "observers": rng.choice([["PositionCenteredEncodingObserver"],
                                         ["PositionCenteredEncodingObserver", "AbsolutePositionObserver"]])}
    if which == "multiMaze":
        side, nb, nn = (rng.randint(3, 6), rng.randint(0, 5), rng.randint(1, 3)) if not big else (10, 20, 5)
        return {"rows": side, "cols": rng.randint(3, 6) if not big else 10, "nb": nb, "nn": nn,
                "view": rng.choice([1, 2, "FULL"]), "cluster": rng.random() < 0.7, "scatter": rng.random() < 0.7,
                "no": rng.random() < 0.7, "target_last": rng.random() < 0.3}
    if which == "traffic":
        L = rng.randint(1, 4)
        mid = ["r"] + ["_"] * L + ["g"]
        side = lambda a, b: [a] + ["W"] * L + [b]  # noqa: E731
        grid = [side("G", "R"), mid] + ([side("G", "R")] if rng.random() < 0.7 else [])
        if rng.random() < 0.3:
            grid = [side("_", "R"), mid, side("G", "_")]
        return {"grid": grid, "states": rng.choice([["PositionState"], ["PositionState", "HealthState"]]),
                "dones": rng.choice([["TargetAgentOverlapDone"], ["TargetAgentOverlapDone", "ActiveDone"]]),
                "observers": ["PositionCenteredEncodingObserver"]}
    raise ValueError(which)


# ----------------------------------------------------------------------------------------------
# one real object

class _Shuffle2:
    """inside `oracle.scripted(sim tape)`: random.shuffle (the all-step manager's) reads ANOTHER tape -- the model
    keeps the manager's tape and the simulation's apart"""

    def __init__(self, tape):
        self.tape = tape

    def __enter__(self):
        self.saved = _random.shuffle
        _random.shuffle = self.tape.shuffle
        return self

    def __exit__(self, *exc):
        _random.shuffle = self.saved
        return False


class ExSession:
    def __init__(self, which, p, order=0, scribble=False):
        import p_c03
        self.which, self.p = which, p
        self.scribble = scribble        # the caller overwrites (in place) what get_obs returned and re-uses its action dicts
        self.sim = sim = BUILD[which](copy.deepcopy(p))
        self.sw = p_c03.SimWorld(sim)
        self.al = self.sw.agent_list
        self.idx = self.sw.idx
        # the component sets, pinned (class name order rotated by `order`); the theorems hold for every order
        for name in ("_observers", "_dones"):
            comps = getattr(sim, name, None)
            if isinstance(comps, (set, frozenset)):
                lst = sorted(comps, key=lambda c: type(c).__name__)
                r = order % len(lst) if lst else 0
                setattr(sim, name, lst[r:] + lst[:r])
        if which == "multiMaze":
            self.states = {"position": sim.position_state}
            self.observers = [sim.grid_observer]
            self.dones = None
        else:
            self.states = {}
            for c in sorted(getattr(sim, "_states", []), key=lambda c: type(c).__name__):
                self.states[STATE_NAME[type(c)]] = c
            self.observers = getattr(sim, "_observers", None)
            self.dones = getattr(sim, "_dones", None)
        self.comp_names = sorted(self.states)
        self.ledger_attr = "reward" if which == "multiMaze" else "rewards"
        self.stat = self.sw.stat_wire()
        self.dyn0 = self.sw.dyn_wire()
        self.learning = [bool(is_agent(a)) for a in self.al]
        self.actors = [i for i, a in enumerate(self.al) if is_agent(a)]

    # ---- configuration wire --------------------------------------------------------------------
    def comp_wire(self, name):
        if name != "position":
            return name
        c = self.states["position"]
        kind = PLACE_KIND[type(c)]
        o = {"no": c.no_overlap_at_reset, "rand": c.randomize_placement_order, "cluster": False, "scatter": False,
             "target": 0, "barrier": [], "free": []}
        if kind != "position":
            o.update(cluster=c.cluster_barriers, scatter=c.scatter_free_agents, target=self.idx[c.target_agent.id],
                     barrier=sorted(c.barrier_encodings), free=sorted(c.free_encodings))
        return ["position", opts_wire(kind, o)]

    def done_wire(self, d):
        t = type(d)
        if t is DN.ActiveDone:
            return ["active"]
        if t is DN.OneTeamRemainingDone:
            return ["oneteam"]
        if t in (DN.TargetAgentOverlapDone, DN.TargetAgentInactiveDone):
            return ["overlap" if t is DN.TargetAgentOverlapDone else "tinactive",
                    [[self.idx[a], self.idx[b]] for a, b in d.target_mapping.items()]]
        if t is DN.TargetEncodingInactiveDone:
            return ["tenc", [[int(e), sorted(int(x) for x in (s if isinstance(s, (set, list, tuple)) else [s]))]
                             for e, s in d.target_mapping.items()], bool(d.sim_ends_if_one_done)]
        raise ValueError(f"unexpected done component {t}")

    def cfg_wire(self):
        sim = self.sim
        obs = [] if self.observers is None else [[[OBS_KIND[type(o)], bool(getattr(o, "observe_self", True))]
                                                  for o in self.observers]]
        dones = [] if self.dones is None else [[self.done_wire(d) for d in self.dones]]
        if hasattr(sim, "attack_actor"):
            am = sim.attack_actor.attack_mapping
            att = [[[int(e), sorted(int(x) for x in s)] for e, s in sorted(am.items())],
                   bool(sim.attack_actor.stacked_attacks)]
        else:
            att = [[], False]
        nav = tgt = 0
        navs = []
        if self.which == "mazeNav":
            nav, tgt = self.idx["navigator"], self.idx["target"]
        if self.which == "multiMaze":
            from abmarl.examples.sim.multi_maze_navigation import MultiMazeNavigationAgent
            tgt = self.idx[sim.position_state.target_agent.id]
            navs = [i for i, a in enumerate(self.al) if isinstance(a, MultiMazeNavigationAgent)]
        return [self.which, self.learning, [self.comp_wire(c) for c in self.comp_names], obs, dones, att, nav, tgt, navs]

    # ---- reading the object without side effects --------------------------------------------------
    def ledger(self):
        d = getattr(self.sim, self.ledger_attr, None)
        if d is None:
            return []
        return [[[self.idx[k], units(v)] for k, v in d.items()]]

    def snap(self):
        return self.sw.dyn_wire(), self.ledger()

    def obs_items(self, o):
        if not isinstance(o, dict):
            return None
        out = []
        import p_obs
        for k, v in o.items():
            kind = KEY_KIND.get(k)
            if kind is None:
                return None
            c = p_obs.canon(kind, k, {k: v})
            if c[0] in ("err", "none"):
                return None
            out.append([k, c])
        return out

    def py_action(self, a, move, attack, form):
        """the agent's action dict; `form` varies the representation of equal values"""
        ag = self.al[a]
        sp = ag.action_space
        act = {}
        keys = list(sp.spaces.keys()) if hasattr(sp, "spaces") else []
        if form & 4:
            keys = keys[::-1]
        for k in keys:
            if k == "move":
                act[k] = (np.array(move, dtype=int) if form & 1 == 0 else
                          np.array([[0, 0], move], dtype=np.int64).T[:, 1])    # a non-contiguous view
            elif k == "attack":
                act[k] = int(attack) if form & 2 == 0 else np.int64(attack)
        return act

    def act_wire(self, acts):
        return [[int(a), [int(m[0]), int(m[1])], int(k)] for a, m, k, _ in acts]

    def op_wire(self, op):
        if op[0] == "reset":
            return ["reset", [self.comp_wire(c) for c in op[1]], list(op[2])]
        if op[0] == "step":
            return ["step", self.act_wire(op[1]), list(op[2])]
        if op[0] == "obs":
            return ["obs", int(op[1]), list(op[2])]
        if op[0] in ("rew", "done"):
            return [op[0], int(op[1])]
        return ["alldone"]

    # ---- one call -----------------------------------------------------------------------------------
    def _scripted(self, tape):
        tp = oracle.Tape(tape)
        st = contextlib.ExitStack()
        st.enter_context(oracle.scripted(tp))
        st.enter_context(p_place._MazePatch(tp, []))
        return st

    def do(self, op):
        sim = self.sim
        kind = op[0]
        if kind == "reset":
            if self.which != "multiMaze":
                sim._states = [self.states[c] for c in op[1]]     # the iteration order of the set is an input
            with self._scripted(op[2]):
                st, val = guarded(sim.reset, seconds=20.0)
            res = ["unit"]
        elif kind == "step":
            ad = {self.al[a].id: self.py_action(a, m, k, f) for a, m, k, f in op[1]}
            with self._scripted(op[2]):
                st, val = guarded(lambda: sim.step(ad), seconds=20.0)
            res = ["unit"]
            if self.scribble:
                for v in ad.values():              # the caller re-uses its dicts: the simulation must not keep them
                    for k in list(v):
                        v[k] = v[k] * 0 + 7 if not isinstance(v[k], list) else [7]
                ad.clear()
        elif kind == "obs":
            with self._scripted(op[2]):
                st, val = guarded(lambda: sim.get_obs(self.al[op[1]].id))
            if st == "ok":
                items = self.obs_items(val)
                res = ["obs", items] if items is not None else ["err", "other"]
                if self.scribble and isinstance(val, dict):   # the caller overwrites what it was handed (in place)
                    for v in val.values():
                        if isinstance(v, np.ndarray) and v.flags.writeable:
                            v[...] = -77
                    val.clear()
        elif kind == "rew":
            st, val = guarded(lambda: sim.get_reward(self.al[op[1]].id))
            if st == "ok":
                res = ["int", units(val)]
        elif kind == "done":
            st, val = guarded(lambda: sim.get_done(self.al[op[1]].id))
            if st == "ok":
                res = ["bool", bool(val)]
        else:
            st, val = guarded(sim.get_all_done)
            if st == "ok":
                res = ["bool", bool(val)]
        if st != "ok":
            # the call raised: the object may have been changed half-way; neither dumped nor compared (the history ends)
            return [["err", st], [], []]
        dyn, led = self.snap()
        return [res, dyn, led]

    # ---- sampling from the declared action spaces (harness rng) ----------------------------------
    def sample(self, rng, a):
        sp = self.al[a].action_space
        move, attack = [0, 0], 0
        spaces = getattr(sp, "spaces", {})
        if "move" in spaces:
            lo, hi = spaces["move"].low, spaces["move"].high
            move = [rng.randint(int(lo[0]), int(hi[0])), rng.randint(int(lo[1]), int(hi[1]))]
        if "attack" in spaces:
            attack = rng.randrange(int(spaces["attack"].n))
            if rng.random() < 0.5:
                attack = int(spaces["attack"].n) - 1
        return move, attack


def run_ops(sess, ops):
    entries = []
    for op in ops:
        e = sess.do(op)
        entries.append(e)
        if e[0][0] == "err":
            break
    return entries


def tape_of(rng, n=24):
    return [rng.randrange(4096) for _ in range(n)]


def gen_history(rng, sess, n_ops, episodes):
    """play a random history on the real object (adaptive: who is active is read from the object)"""
    ops, entries = [], []
    n = len(sess.al)

    def push(op):
        e = sess.do(op)
        ops.append(op)
        entries.append(e)
        return e[0][0] != "err"

    def reset_op():
        order = list(sess.comp_names)
        rng.shuffle(order)
        return ["reset", order, tape_of(rng, 3 * n + 40)]
    ep = 1
    if not push(reset_op()):
        return ops, entries
    while len(ops) < n_ops:
        r = rng.random()
        if r < 0.05 and ep < episodes:
            ep += 1
            if not push(reset_op()):
                break
            continue
        if r < 0.45:
            live = [a for a in sess.actors if sess.al[a].active]
            if sess.which == "mazeNav":
                who = list(sess.actors)
            else:
                who = [a for a in live if rng.random() < 0.85] if rng.random() < 0.5 else list(live)
                dead = [a for a in sess.actors if not sess.al[a].active]
                if dead and rng.random() < 0.3:
                    who.append(rng.choice(dead))           # `if agent.active:` must skip it (direct calls may do this)
            rng.shuffle(who)                               # insertion order of the action dict = loop order of step
            acts = []
            for a in who:
                m, k = sess.sample(rng, a)
                acts.append([a, m, k, rng.randrange(8)])
            ok = push(["step", acts, tape_of(rng, 4 * len(acts) + 8)])
        elif r < 0.65:
            ok = push(["obs", rng.choice(sess.actors) if rng.random() < 0.9 else rng.randrange(n), tape_of(rng, 60)])
        elif r < 0.8:
            ok = push(["rew", rng.choice(sess.actors)])
        elif r < 0.92:
            ok = push(["done", rng.randrange(n) if sess.which != "traffic" else rng.choice(sess.actors)])
        else:
            ok = push(["alldone"])
        if not ok:
            break
    return ops, entries


# ----------------------------------------------------------------------------------------------
# cases of the direct-call stream

class ExCase(core.Case):
    __slots__ = ("stream",)


def make_case(desc, sess, ops, entries):
    opw = [sess.op_wire(op) for op in ops[:len(entries)]]
    head = "(gexample " + fenc(sess.cfg_wire()) + " " + wire.enc(sess.stat) + " " + fenc(sess.dyn0) + " " + fenc(opw)
    outs = fenc(entries)
    tags = ["stream:" + desc["stream"], "example:" + desc["which"]]
    if desc.get("scribble"):
        tags.append("ex-caller-overwrites-returned-values")
    nres = sum(1 for op in ops if op[0] == "reset")
    tags.append("ex-episodes:%d" % min(nres, 4))
    changed = deaths = False
    prev = None
    for op, e in zip(ops, entries):
        tags.append("ex-op:" + op[0])
        if e[0][0] == "err":
            tags.append("ex-err:%s:%s" % (op[0], e[0][1]))
            break
        if op[0] == "step":
            if prev is not None and e[1] != prev:
                changed = True
            if prev is not None:
                died = [i for i, (p, q) in enumerate(zip(prev[1], e[1][1])) if p[2] and not q[2]]
                if died:
                    deaths = True
                    if any(not sess.learning[i] for i in died):
                        tags.append("ex-killed-entity-without-reward-entry")      # the situation of C02-E3 (repaired)
                    if len(died) >= 2 and any(isinstance(a[2], int) and a[2] >= 2 for a in op[1]):
                        tags.append("ex-several-killed-by-multi-attack")          # ... of C02-E2 (repaired)
            if desc["which"] == "multiMaze" and e[2] and any(x >= 80 for _, x in e[2][0]):
                tags.append("ex-multimaze-target-reward-accrued")                 # ... of C01-E1 (repaired)
        if op[0] == "obs" and desc.get("scribble") and any(k == "position" for k, _ in e[0][1]):
            tags.append("ex-position-observation-overwritten-in-place")           # ... of C09-A1 (repaired)
        if op[0] == "rew" and e[0][1] not in (0,):
            tags.append("ex-nonzero-reward-read")
        prev = e[1]
    if deaths:
        tags.append("ex-deaths")
    if any(BAD_REWARD in [x for _, x in (e[2][0] if e[2] else [])] for e in entries):
        tags.append("ex-reward-not-a-hundredth")
    c = ExCase(desc, head + " " + outs + ")", outs, key=core._hash(head), nontrivial=changed, tags=sorted(set(tags)))
    c.stream = desc["stream"]
    return c


def case_from_desc(d):
    if d["which"] == "corridor":
        return p_corridor.case_from_desc(d)
    if d["which"] == "multigrid":
        return p_multigrid.case_from_desc(d)
    if d["which"] == "reach":
        return p_reach.case_from_desc(d)
    if d["which"] == "pacman":
        return p_pacman.case_from_desc(d)
    if d["which"] == "broadcast":
        return p_broadcast.case_from_desc(d)
    sess = ExSession(d["which"], d["p"], d.get("order", 0), scribble=bool(d.get("scribble")))
    other = None
    if d.get("twin"):
        # a second object built from the same parameters is played in between: the first must not notice
        other = ExSession(d["which"], d["p"], d.get("order", 0) + 1)
    entries = []
    for k, op in enumerate(d["ops"]):
        if other is not None and k % 3 == 1:
            other.do(d["ops"][0] if k < 3 else op)
        e = sess.do(op)
        entries.append(e)
        if e[0][0] == "err":
            break
    return make_case(d, sess, d["ops"][:len(entries)], entries)


def gen_cases(rng, stream, count, quick=True):
    made = 0
    while made < count:
        which = WHICH[made % len(WHICH)] if rng.random() < 0.8 else rng.choice(WHICH)
        p = gen_params(rng, which, big=(not quick and rng.random() < 0.1))
        order = rng.randrange(4)
        scribble = rng.random() < 0.15
        try:
            sess = ExSession(which, p, order, scribble=scribble)
        except (AssertionError, ValueError, KeyError, TypeError):
            continue                                   # configuration rejected by the constructors
        ops, entries = gen_history(rng, sess, rng.randint(6, 36), rng.randint(1, 3))
        if len(entries) == 1 and entries[0][0][0] == "err" and rng.random() < 0.8:
            continue                                   # mostly worlds whose first reset succeeds
        d = {"stream": stream, "which": which, "p": p, "order": order, "ops": ops[:len(entries)]}
        if scribble:
            d["scribble"] = True
        if rng.random() < 0.25:
            d["twin"] = True
            yield case_from_desc(d)                    # replayed with a second object used in between
        else:
            yield make_case(d, sess, ops, entries)
        made += 1
    # MultiCorridor (not a grid world; harness/p_corridor.py) rides in the same stream
    yield from p_corridor.gen_cases(rng, stream, max(20, count // 4), quick)
    yield from p_multigrid.gen_cases(rng, stream, max(12, count // 8), quick)
    yield from p_reach.gen_cases(rng, stream, max(20, count // 4), quick)
    yield from p_pacman.gen_cases(rng, stream, max(16, count // 8), quick)
    yield from p_broadcast.gen_cases(rng, stream, max(20, count // 4), quick)


def interpret(reply, case):
    if case.desc.get("which") == "corridor":
        return p_corridor.interpret(reply, case)
    if case.desc.get("which") == "multigrid":
        return p_multigrid.interpret(reply, case)
    if case.desc.get("which") == "pacman":
        return p_pacman.interpret(reply, case)
    if case.desc.get("which") == "broadcast":
        return p_broadcast.interpret(reply, case)
    return _interpret(reply, case)


def _interpret(reply, case):
    model, ms, is_, pre = reply
    if is_ not in (0, 1):
        raise ValueError("driver could not parse the implementation's trace")
    m_ok = ms == 1
    i_ok = is_ == 1
    detail = {"pre": pre, "spec_on_impl": is_, "spec_on_model": ms}
    case.tags.append("ex-pre:%d" % pre)
    ms_ = fenc(model)
    impl = wire.dec(case.impl)
    if impl and impl[-1][0][0] == "err":
        k = len(impl) - 1
        detail["raised"] = [case.desc["ops"][k][0], impl[-1][0][1]]
    if ms_ != case.impl:
        k = next((i for i, (x, y) in enumerate(zip(model, impl)) if x != y), min(len(model), len(impl)))
        detail["first_differing_call"] = k
        detail["op_at_that_call"] = case.desc["ops"][k] if k < len(case.desc["ops"]) else None
        if k < len(model) and k < len(impl):
            for name, j in (("result", 0), ("world", 1), ("ledger", 2)):
                if model[k][j] != impl[k][j]:
                    detail["differs_in"] = name
                    detail["model_" + name] = fenc(model[k][j])[:600]
                    detail["impl_" + name] = fenc(impl[k][j])[:600]
                    break
    return core.Verdict(ms_, m_ok if pre == 1 else None, i_ok, detail)


def shrink_candidates(d):
    if d.get("which") == "corridor":
        yield from p_corridor.shrink_candidates(d)
        return
    if d.get("which") == "multigrid":
        yield from p_multigrid.shrink_candidates(d)
        return
    if d.get("which") == "broadcast":
        yield from p_broadcast.shrink_candidates(d)
        return
    yield from _shrink_candidates(d)


def _shrink_candidates(d):
    ops = d["ops"]
    n = len(ops)
    if d.get("twin"):
        yield {k: v for k, v in d.items() if k != "twin"}
    if d.get("scribble"):
        yield {k: v for k, v in d.items() if k != "scribble"}
    if n > 2:
        yield {**d, "ops": ops[:1 + (n - 1) // 2]}
    for k in range(n - 1, 0, -1):
        yield {**d, "ops": ops[:k] + ops[k + 1:]}
    for k, op in enumerate(ops):
        if op[0] == "step" and len(op[1]) > 1:
            for j in range(len(op[1])):
                yield {**d, "ops": ops[:k] + [["step", op[1][:j] + op[1][j + 1:], op[2]]] + ops[k + 1:]}
    for k, op in enumerate(ops):
        t = op[-1] if op[0] in ("reset", "step", "obs") else None
        if t and any(t):
            yield {**d, "ops": ops[:k] + [op[:-1] + [[0] * len(t)]] + ops[k + 1:]}


# ----------------------------------------------------------------------------------------------
# the manager stream: real managers over the real example

class _Logged:
    """instrumentation of one live example object (harness only): what `step` was called with, and the reward dict
    right after it returned"""

    def __init__(self, sess):
        self.sess = sess
        self.step_log = []
        self.accrued_snapshot = None
        self.sim_raised = None          # the SIMULATION's own method raised (not the manager): the history ends there
        sim = sess.sim
        real_step, real_reset = sim.step, sim.reset

        def watch(name, fn):
            def run(*a, **kw):
                try:
                    return fn(*a, **kw)
                except Exception as ex:  # noqa: BLE001
                    if self.sim_raised is None:
                        self.sim_raised = f"{name}: {type(ex).__name__}: {ex}"
                    raise
            return run

        def step(action_dict, **kw):
            self.step_log.append([(k, v) for k, v in action_dict.items()])
            out = real_step(action_dict, **kw)
            self.accrued_snapshot = self.pending()
            return out

        def reset(**kw):
            out = real_reset(**kw)
            self.accrued_snapshot = self.pending()
            return out
        sim.step, sim.reset = watch("step", step), watch("reset", reset)
        self.quiet = False
        for name in ("get_obs", "get_reward", "get_done", "get_all_done", "get_info"):
            real = getattr(sim, name)
            setattr(sim, name, self._watch_getter(name, real))

    def _watch_getter(self, name, fn):
        def run(*a, **kw):
            try:
                return fn(*a, **kw)
            except Exception as ex:  # noqa: BLE001
                if self.sim_raised is None and not self.quiet:
                    self.sim_raised = f"{name}: {type(ex).__name__}: {ex}"
                raise
        return run

    def pending(self):
        """what get_reward would deliver, per agent, read without side effects"""
        s = self.sess
        d = getattr(s.sim, s.ledger_attr, None) or {}
        out = []
        self.quiet = True
        for a in s.al:
            out.append(units(d[a.id]) if a.id in d else 0)
        self.quiet = False
        return out

    def ghost(self):
        s = self.sess
        self.quiet = True
        try:
            ad = bool(s.sim.get_all_done())
        except Exception:  # noqa: BLE001
            ad = False
        dn = []
        for a in s.al:
            try:
                dn.append(bool(s.sim.get_done(a.id)))
            except Exception:  # noqa: BLE001
                dn.append(False)
        self.quiet = False
        return [ad, dn, self.pending(), []]


class MgrSession:
    def __init__(self, d):
        self.d = d
        self.sess = ExSession(d["which"], d["p"], d.get("order", 0))
        sim = self.sess.sim
        if d["which"] != "multiMaze":
            sim._states = [self.sess.states[c] for c in self.sess.comp_names]
        self.log = _Logged(self.sess)
        self.mgr = AllStepManager(sim, randomize_action_input=bool(d["shuffle"])) if d["kind"] == 0 \
            else TurnBasedManager(sim)
        self.stape = oracle.Tape(d["stape"])
        self.mtape = oracle.Tape(d["mtape"])
        self.trace, self.ops = [], []
        self.last = None
        self.dead = False

    def _obs(self, o):
        items = self.sess.obs_items(o)
        return ["ok", items] if items is not None else ["err", "other"]

    def apply(self, op):
        s = self.sess
        before = len(self.log.step_log)
        pend_before = self.log.pending()
        with oracle.scripted(self.stape), p_place._MazePatch(self.stape, []), _Shuffle2(self.mtape):
            if op[0] == "r":
                st, val = mgr.guarded(lambda: self.mgr.reset(), seconds=20.0)
            else:
                ad = {s.al[a].id: s.py_action(a, m, k, f) for a, m, k, f in op[1]}
                st, val = mgr.guarded(lambda: self.mgr.step(ad), seconds=20.0)
        if self.log.sim_raised is not None:
            # the simulation itself raised inside the manager call (a failed reset: no cell left): outside the
            # manager model, whose simulation is total -- the history ends before this call (the direct-call
            # stream covers it)
            self.dead = True
            return "sim-raised", None
        stepped = len(self.log.step_log) > before
        cd = lambda dct, f: [[s.idx[k], f(v)] for k, v in dct.items()]  # noqa: E731
        if st == "ok":
            if op[0] == "r":
                res = ["r", cd(val, self._obs)]
            else:
                obs, rew, done, info = val
                dd = {k: v for k, v in done.items() if k != "__all__"}
                res = ["s", cd(obs, self._obs), cd(rew, units), cd(dd, bool), cd(info, lambda i: []),
                       bool(done.get("__all__"))]
        else:
            res = ["e", st]
        sa = ["y", self.sim_args(self.log.step_log[-1])] if stepped else ["n"]
        accrued = list(self.log.accrued_snapshot) if (stepped or (op[0] == "r" and st == "ok")) else pend_before
        self.ops.append(op)
        self.trace.append([res, sa, accrued, self.log.ghost()])
        if st == "ok":
            self.last = (op[0], val)
        elif st != "rejected":
            self.dead = True
        return st, val


def _sim_args(self, logged):
    s = self.sess
    return [[s.idx[k], [int(v["move"][0]), int(v["move"][1])] if "move" in v else [0, 0], int(v.get("attack", 0))]
            for k, v in logged]


MgrSession.sim_args = _sim_args


def mgr_case(d, ms):
    s = ms.sess
    opw = [["r"] if op[0] == "r" else ["s", s.act_wire(op[1])] for op in ms.ops]
    head = ("(mgrx " + fenc(s.cfg_wire()) + " " + wire.enc(s.stat) + " " + fenc(s.dyn0) + " " +
            wire.enc([d["kind"], bool(d["shuffle"]), list(d["mtape"]), list(d["stape"])])[1:-1] + " " + fenc(opw))
    outs = fenc(ms.trace)
    tags = ["stream:example-mgr", "example:" + d["which"], mgr.KINDS[d["kind"]]]
    finishes = False
    for e in ms.trace:
        r = e[0]
        if r[0] == "e":
            tags.append("err:" + r[1])
        elif r[0] == "s":
            if r[5]:
                tags.append("allDone")
            if r[5] or any(x for _, x in r[3]):
                finishes = True
    tags.append("eps:%d" % sum(1 for o in ms.ops if o[0] == "r"))
    desc = dict(d, ops=ms.ops)
    c = ExCase(desc, head + " " + outs + ")", outs, key=core._hash(head), nontrivial=finishes, tags=sorted(set(tags)))
    c.stream = "example-mgr"
    return c


def mgr_case_from_desc(d):
    if d["which"] == "corridor":
        return p_corridor.mgr_case_from_desc(d)
    if d["which"] == "multigrid":
        return p_multigrid.mgr_case_from_desc(d)
    if d["which"] == "reach":
        return p_reach.mgr_case_from_desc(d)
    if d["which"] == "pacman":
        return p_pacman.mgr_case_from_desc(d)
    ms = MgrSession(d)
    for op in d["ops"]:
        if ms.dead:
            break
        ms.apply(op)
    return mgr_case(d, ms)


def gen_mgr_cases(rng, count):
    made = 0
    while made < count:
        which = WHICH[made % len(WHICH)]
        p = gen_params(rng, which)
        kind = rng.randrange(2)
        shuffle = kind == 0 and rng.random() < 0.5
        d = {"stream": "example-mgr", "which": which, "p": p, "order": rng.randrange(4), "kind": kind,
             "shuffle": shuffle, "mtape": [rng.randrange(1000) for _ in range(60)] if shuffle else [],
             "stape": [rng.randrange(4096) for _ in range(400)]}
        try:
            ms = MgrSession(d)
        except (AssertionError, ValueError, KeyError, TypeError):
            continue
        s = ms.sess
        episodes, ep = rng.randint(1, 3), 0
        max_ops = rng.randint(3, 16)
        reported = set()
        st, _ = ms.apply(["r"])
        ep += 1
        while st == "ok" and len(ms.ops) < max_ops and not ms.dead and ms.last is not None:
            lk, val = ms.last
            over = lk == "s" and val[2].get("__all__")
            if over or rng.random() < 0.05:
                if ep >= episodes:
                    break
                ms.apply(["r"])
                reported = set()
                ep += 1
                continue
            if lk == "r":
                live = [s.idx[k] for k in val]
            else:
                for k, dn in val[2].items():
                    if k != "__all__" and dn:
                        reported.add(s.idx[k])
                live = [s.idx[k] for k, dn in val[2].items() if k != "__all__" and not dn]
            if kind == 1:
                who = live[-1:]
            elif which == "mazeNav":
                who = list(live)
            else:
                who = [a for a in live if rng.random() < 0.85] if rng.random() < 0.4 else list(live)
            r = rng.random()
            if r < 0.1 and reported:
                who = who + [rng.choice(sorted(reported))]      # must be rejected before the simulation is advanced
            rng.shuffle(who)
            acts = []
            for a in who:
                m, k = s.sample(rng, a)
                acts.append([a, m, k, rng.randrange(8)])
            ms.apply(["s", acts])
        if not ms.trace or (ms.trace[0][0][0] == "e" and rng.random() < 0.8):
            continue
        made += 1
        yield mgr_case(d, ms)
    yield from p_corridor.gen_mgr_cases(rng, max(20, count // 4))
    yield from p_multigrid.gen_mgr_cases(rng, max(12, count // 8))
    yield from p_reach.gen_mgr_cases(rng, max(20, count // 4))
    yield from p_pacman.gen_mgr_cases(rng, max(12, count // 6))


def mgr_interpret(reply, case, spec_idx):
    trace, m1, m7, i1, i7 = reply
    ms = [m1, m7][spec_idx]
    is_ = [i1, i7][spec_idx]
    if is_ not in (0, 1):
        raise ValueError("driver could not parse the implementation trace")
    detail = {}
    ms_ = fenc(trace)
    if ms_ != case.impl:
        impl = wire.dec(case.impl)
        k = next((i for i, (x, y) in enumerate(zip(trace, impl)) if x != y), min(len(trace), len(impl)))
        detail["first_differing_call"] = k
        if k < len(trace) and k < len(impl):
            for name, j in (("result", 0), ("sim_args", 1), ("accrued", 2), ("ghost", 3)):
                if trace[k][j] != impl[k][j]:
                    detail["differs_in"] = name
                    detail["model_" + name] = fenc(trace[k][j])[:600]
                    detail["impl_" + name] = fenc(impl[k][j])[:600]
                    break
    return core.Verdict(ms_, ms == 1, is_ == 1, detail)


def mgr_shrink_candidates(d):
    ops = d["ops"]
    for k in range(len(ops) - 1, 0, -1):
        yield dict(d, ops=ops[:k])
    for i in range(1, len(ops)):
        yield dict(d, ops=ops[:i] + ops[i + 1:])


# ----------------------------------------------------------------------------------------------
# C08: used versus fresh twin on real example objects (examples_reset_forgets / examples_fresh_twin)

def twin_case(d):
    if d["which"] == "corridor":
        return p_corridor.twin_case(d)
    if d["which"] == "multigrid":
        return p_multigrid.twin_case(d)
    if d["which"] == "reach":
        return p_reach.twin_case(d)
    if d["which"] == "pacman":
        return p_pacman.twin_case(d)
    if d["which"] == "broadcast":
        return p_broadcast.twin_case(d)
    return _twin_case(d)


def _twin_case(d, session_of=None, make=None):
    """the used object plays the prefix `pops` (episodes cut anywhere), then the follow-up `fops` (a reset first); a
    newly built object plays the follow-up alone under the same tapes.  The model runs the follow-up from the FRESH
    object's dump; its trace, the used object's and the fresh object's must all be equal."""
    session_of = session_of or (lambda dd: ExSession(dd["which"], dd["p"], dd.get("order", 0)))
    used = session_of(d)
    pent = run_ops(used, d["pops"])
    uent = run_ops(used, d["fops"])
    fresh = session_of(d)
    fent = run_ops(fresh, d["fops"])
    fops = d["fops"][:len(uent)]
    c = (make or make_case)(dict(d, ops=fops, stream="example-twin"), fresh, fops, uent)
    c.desc = d
    same = fenc(uent) == fenc(fent)
    c.tags = [t for t in c.tags if not t.startswith("stream:")] + [
        "layer:example", "twin:" + ("same" if same else "DIFFERENT"),
        "prefix-len:" + ("0" if not d["pops"] else "1-5" if len(d["pops"]) <= 5 else "6+")]
    if pent and pent[-1][0][0] == "err":
        c.tags.append("prefix-ended-in-error")
    c.nontrivial = len(d["pops"]) > 1
    c.key = core._hash(json.dumps(d, sort_keys=True))
    return c


def gen_twin_cases(rng, count):
    made = 0
    while made < count:
        which = WHICH[made % len(WHICH)]
        p = gen_params(rng, which)
        order = rng.randrange(4)
        try:
            used = ExSession(which, p, order)
        except (AssertionError, ValueError, KeyError, TypeError):
            continue
        pops, pent = gen_history(rng, used, rng.randint(1, 24), rng.randint(1, 3))
        if pent and pent[-1][0][0] == "err" and rng.random() < 0.9:
            continue                                   # mostly prefixes that ran (a raising call leaves a half-way object)
        fops, fent = gen_history(rng, used, rng.randint(2, 12), 1)
        made += 1
        yield twin_case({"layer": "example", "which": which, "p": p, "order": order, "pops": pops[:len(pent)],
                         "fops": fops[:len(fent)]})
    yield from p_corridor.gen_twin_cases(rng, max(10, count // 4))
    yield from p_multigrid.gen_twin_cases(rng, max(8, count // 8))
    yield from p_reach.gen_twin_cases(rng, max(10, count // 4))
    yield from p_pacman.gen_twin_cases(rng, max(8, count // 5))
    yield from p_broadcast.gen_twin_cases(rng, max(10, count // 4))


def twin_interpret(reply, case):
    if case.desc.get("which") == "corridor":
        return p_corridor.twin_interpret(reply, case)
    if case.desc.get("which") == "multigrid":
        return p_multigrid.twin_interpret(reply, case)
    d = dict(case.desc)
    d["ops"] = d["fops"]
    inner = core.Case(d, case.line, case.impl, tags=case.tags)
    v = interpret(reply, inner)
    case.tags[:] = inner.tags
    same = "twin:same" in case.tags
    v.detail["used_equals_fresh_twin"] = same
    return core.Verdict(v.model, v.model_spec, same and v.impl_spec, v.detail)


def twin_shrink_candidates(d):
    if d.get("which") == "corridor":
        yield from p_corridor.twin_shrink_candidates(d)
        return
    if d.get("which") == "multigrid":
        yield from p_multigrid.twin_shrink_candidates(d)
        return
    for k in range(len(d["pops"]) - 1, 0, -1):
        yield dict(d, pops=d["pops"][:k] + d["pops"][k + 1:])
    for k in range(len(d["fops"]) - 1, 0, -1):
        yield dict(d, fops=d["fops"][:k])


# ----------------------------------------------------------------------------------------------
# what the host checks (p_c02 / p_c03 / p_mgr) plug in

RULE = (" Stream `example-modelled`: real TeamBattleSim / PredatorPreyResourcesSim / MazeNavigationSim / "
        "MultiMazeNavigationSim / TrafficCorridorSimulation objects (several grid sizes, team layouts, agent mixes incl. "
        "agents of other classes than the packaged ones, observer / done component sets in rotated iteration orders) "
        "played by direct calls on ONE object for several episodes under the scripted oracle: reset() with the state "
        "components in a random order, step() with actions sampled from the declared action spaces (harness rng; "
        "insertion order of the action dict shuffled, dead agents sometimes included, equal values in other "
        "representations), get_obs / get_reward / get_done / get_all_done in between, in a quarter of the cases with a "
        "second object of the same parameters used in between; the trace (result, dumped world, reward dict after "
        "every call) is compared entry by entry with the model of the class's own step / reset / getters "
        "(lean/Abmarl/Model/Examples.lean, op `gexample`) and judged by specEx (every world WInv, every observation "
        "in its declared space, getters change nothing, rewards read-and-reset, a step with in-space actions does "
        "not raise). In-domain since the repairs c4ff362 / afc90bd / c275832 / fce2c1d: agents that strike two or "
        "three agents at once, killed entities without a reward entry, MultiMazeNavigationSim's ledger, callers that "
        "overwrite the returned observations in place (15% of the cases)." + p_corridor.RULE + p_multigrid.RULE + p_reach.RULE + p_pacman.RULE
        + p_broadcast.RULE)
ASSUMPTIONS = [
    "example-modelled: rewards are compared in units of 1/100 (the real float x is read as round(100 x), which must be "
    "within 1e-6; floating-point rounding of the reward sums is not modelled)",
    "example-modelled: a call that raised ends the history; what it left of the object is neither dumped nor judged",
    "example-modelled: ReachTheTargetSim is modelled (Model/Reach.lean); proved: WInvWeak of every reachable world, "
    "observations in the declared space, `stepMustNotRaise => step returns` for every reachable state, and RT.specRT on "
    "the model's trace of every history (reach_hist); its two KeyError branches for in-space actions (findings R1, R2) were "
    "repaired in the repo and the model follows; multi_agent_sim.py is not modelled",
    "example-modelled: PacmanSim / PacmanSimSimple are modelled (Model/Pacman.lean) with the exact state a raising step leaves; "
    "proved: Lawful/WF (C01, C07), reset establishes WInv from anything and forgets (C03, C08), static part and legal vitals in "
    "every reachable state, the cell structure (WInvFloat), `stepPre => step returns and leaves WInv`, observation membership "
    "and PM.specPM on the model's trace of every history (pacman_hist); reward schemes are compared in units of 1/100 (values "
    "that are multiples of 0.01)",
    "example-modelled: BroadcastSim (comms_blocking.py) is modelled with exact rationals; the real float64 messages are "
    "tied per call (the model is run from the implementation's previous dump, a message is accepted within 2^-40 of the "
    "exact number; float32 observation entries are compared with numpy's float32 rounding of the stored numbers in the "
    "harness); get_all_done is decided exactly on the dumped messages (a float average within rounding error of the "
    "tolerance boundary could answer differently: not generated)",
]
