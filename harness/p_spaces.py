"""C04 (ravel is a bijection onto Discrete(n)) and C05 (flatten round-trips into the flattened Box):
the real functions of abmarl.sim.wrappers against the Lean model on generated nested spaces."""
import json

import core
import spc
import wire

OPS = {"C04": ("ravel", "unravel", "ravelspace", "checkspace"),
       "C05": ("flatten", "unflatten", "flatspace")}
EXHAUSTIVE_CARD = 4096


class SpacesProp(core.Prop):
    def __init__(self, pid):
        self.pid = pid
        self.lean_targets = ["Abmarl.Props." + pid]
        if pid == "C04":
            self.rule = (
                "one case = one call of the real ravel / unravel / ravel_space / check_space on a generated nested "
                "space (depth <= 3, <= 4 children, Discrete / MultiBinary / MultiDiscrete / multi-dimensional int Box "
                "with per-cell bounds and negative lows, unsorted Dict keys, Dict points in shuffled insertion order); "
                "for a space with <= 4096 points every point is ravelled and every integer 0..n-1 unravelled, "
                "otherwise sampled points plus the corners (all-low, all-high, each single-cell-maximal point; "
                "0, 1, n-2, n-1); gymnasium's own `unravel(k) in space` is part of the compared outcome; plus boundary "
                "sizes up to 2^63-1 and a small out-of-domain stream for the known findings; distinct by (op, space, "
                "input); non-trivial = the space is nested or has a leaf with more than one cell")
        else:
            self.rule = (
                "one case = one call of the real flatten / unflatten(flatten(.)) / flatten_space+flatdim on a generated "
                "nested space (the C04 generator plus float Boxes, float32 and float64, with dyadic k/1024 bounds and "
                "points; sibling flat dimensions pairwise different where possible); every point of an integer space "
                "with <= 4096 points, otherwise sampled points plus corners; the real `flatten(p) in flatten_space(s)` "
                "and (integer spaces) `unflatten(flatten(p)) in s` are part of the compared outcome; plus a small "
                "out-of-domain stream for the known findings; distinct by (op, space, input); non-trivial = the space "
                "is nested or has a leaf with more than one cell")
        self.assumptions = [
            "int64 arithmetic of numpy is modelled by unbounded integers under the side condition card < 2^63 (K3)",
            "floats are fed as dyadic rationals k/1024 (exact in float32/float64); the model computes with Rat",
            "array elements are distinguished as integer-typed / float-typed only (integer widths are not modelled; "
            "narrow integer Boxes are outside the well-formedness domain, K5)",
            "a Python dict point is its finite map in sorted key order; the real code is fed shuffled insertion orders",
            "every exception of the real code is the single outcome `err`",
        ]

    # -- one case ---------------------------------------------------------------------------------
    def _case(self, desc, origin="gen"):
        impl = spc.RUN[desc["op"]](desc)
        line = wire.enc(spc.request(desc, impl))
        sd = desc["space"]
        nontrivial = spc.is_nested(sd) or spc.py_flatdim(sd) > 1
        tags = ["op:" + desc["op"], "top:" + sd[0]]
        for kind in sorted({l[0] for l in spc.leaves(sd)}):
            tags.append("leaf:" + kind)
        if "ood" in desc:
            tags.append("ood:" + desc["ood"])
        if "mode" in desc:
            tags.append("mode:" + desc["mode"])
        if impl[0] == "e":
            tags.append("impl:err")
        key = json.dumps([desc["op"], spc.space_wire(sd),
                          spc.pt_wire(sd, desc["point"]) if "point" in desc else desc.get("k")])
        return core.Case(desc, line, wire.enc(impl), key=key, nontrivial=nontrivial, tags=tags, origin=origin)

    def case_from_desc(self, desc):
        return self._case(desc)

    def interpret(self, reply, case):
        model, ms, is_ = reply
        if is_ not in (0, 1):
            raise ValueError("driver did not judge the implementation outcome")
        if ms == -1 and "ood" not in case.desc:
            raise ValueError("generator produced a case outside the theorems' hypotheses (WF / membership)")
        return core.Verdict(wire.enc(model), None if ms == -1 else ms == 1, is_ == 1)

    # -- generated cases ------------------------------------------------------------------------------
    def _space_cases(self, rng, sd, n_samples, mode):
        """all the cases of one space"""
        pid = self.pid
        card = spc.py_card(sd) if spc.all_leaves_int(sd) else None
        if pid == "C04":
            yield {"op": "ravelspace", "space": sd, "mode": mode}
            yield {"op": "checkspace", "space": sd, "mode": mode}
        else:
            yield {"op": "flatspace", "space": sd, "mode": mode}
        if card is not None and card <= EXHAUSTIVE_CARD:
            pts = spc.enum_points(sd, rng)
            ks = range(card)
            m = "all"
        else:
            pts = list(spc.corner_points(rng, sd)) + [spc.random_point(rng, sd) for _ in range(n_samples)]
            if pid == "C05":
                # integer-typed points of float boxes (np.can_cast(int64, float64))
                ok = True

                def pick(l):
                    nonlocal ok
                    if l[0] != "fbox":
                        return spc.sample_leaf(rng, l, "rand")
                    p = spc.int_point_for_fbox(l)
                    if p is None:
                        ok = False
                        return spc.sample_leaf(rng, l, "lo")
                    return p
                p = spc.build_point(sd, pick, rng)
                if ok:
                    pts.append(p)
            ks = []
            if card is not None:
                ks = sorted({k for k in (0, 1, card - 2, card - 1) if 0 <= k < card} |
                            {rng.randrange(card) for _ in range(n_samples)})
            m = "sampled"
        for p in pts:
            if pid == "C04":
                yield {"op": "ravel", "space": sd, "point": p, "mode": m}
            else:
                yield {"op": "flatten", "space": sd, "point": p, "mode": m}
                yield {"op": "unflatten", "space": sd, "point": p, "mode": m}
        if pid == "C04":
            for k in ks:
                yield {"op": "unravel", "space": sd, "k": k, "mode": m}

    def cases(self, tier, rng):
        quick = tier == "quick"
        floats = self.pid == "C05"
        # (generated spaces, cases that may be spent on complete enumerations, sampled points per big space)
        n_spaces, budget, n_samples = {
            ("C04", True): (400, 110000, 12), ("C04", False): (20000, 450000, 16),
            ("C05", True): (400, 40000, 12), ("C05", False): (6000, 200000, 16)}[(self.pid, quick)]
        for sd in spc.example_spaces() + (spc.extreme_spaces(floats) if floats else []):
            if self.pid == "C04" and not spc.all_leaves_int(sd):
                yield self._case({"op": "checkspace", "space": sd, "ood": "unsupported", "mode": "example"})
                continue
            for d in self._space_cases(rng, sd, n_samples, "example"):
                yield self._case(d)
        caps = [8, 32, 128, 512, 2048, EXHAUSTIVE_CARD]
        for i in range(n_spaces):
            # two spaces in three are small enough to be enumerated completely, their sizes spread over the
            # whole range up to 4096 (until the tier's enumeration budget is spent, then up to 16 only)
            want_small = i % 3 != 2
            cap = caps[(i // 3) % len(caps)] if budget > 0 else 16
            while True:
                sd = spc.gen_space(rng, rng.choice([1, 2, 2, 3, 3]), floats)
                if not spc.all_leaves_int(sd):
                    break
                card = spc.py_card(sd)
                if card >= 2 ** 63:
                    continue                          # outside WF (K3): only in the out-of-domain stream
                if want_small and card > cap:
                    continue
                if not want_small and card <= EXHAUSTIVE_CARD:
                    continue                          # every third space is too big to enumerate: sampled
                if card <= EXHAUSTIVE_CARD:
                    budget -= 2 * card
                break
            for d in self._space_cases(rng, sd, n_samples, "gen"):
                yield self._case(d)
        for d in self._boundary(rng):
            yield self._case(d)
        for d in self._out_of_domain():
            yield self._case(d)

    def _boundary(self, rng):
        """sizes at the edge of the int64 side condition (inside WF)"""
        if self.pid != "C04":
            return
        big = [
            ["md", [49, 73, 127, 337, 92737, 649657]],                              # 2^63 - 1 points
            ["tup", [["md", [2 ** 31, 2 ** 31]], ["d", 1, 0]]],                      # 2^62
            ["tup", [["md", [2 ** 31, 2 ** 30]], ["d", 3, 0]]],                      # 3 * 2^61
            ["box", [1], [-2 ** 62], [2 ** 62 - 2], 1],                              # 2^63 - 1, wide bounds
            ["dict", [["z", ["box", [2], [-2 ** 30, 5], [2 ** 30, 5 + 2 ** 29], 1]], ["a", ["mb", 2]]]],
        ]
        for sd in big:
            card = spc.py_card(sd)
            assert card < 2 ** 63
            yield {"op": "ravelspace", "space": sd, "mode": "boundary"}
            yield {"op": "checkspace", "space": sd, "mode": "boundary"}
            for p in list(spc.corner_points(rng, sd)) + [spc.random_point(rng, sd) for _ in range(6)]:
                yield {"op": "ravel", "space": sd, "point": p, "mode": "boundary"}
            for k in sorted({0, 1, card - 2, card - 1} | {rng.randrange(card) for _ in range(6)}):
                yield {"op": "unravel", "space": sd, "k": k, "mode": "boundary"}

    def _out_of_domain(self):
        """inputs excluded by the hypotheses of the theorems: compared with the model all the same; a failing
        one must match the narrow signature of an open known finding"""
        if self.pid == "C04":
            # K1: Discrete(n, start != 0)
            for sd, pts, ks in [
                (["d", 3, 1], [["s", 1], ["s", 2], ["s", 3]], [0, 1, 2]),
                (["d", 4, -2], [["s", -2], ["s", 0], ["s", 1]], [0, 3]),
                (["tup", [["d", 3, 1], ["d", 2, 0]]], [["t", [["s", 1], ["s", 0]]], ["t", [["s", 3], ["s", 1]]]], [0, 5]),
                (["dict", [["b", ["mb", 2]], ["a", ["d", 2, 5]]]],
                 [["m", [["b", ["a", [1, 0]]], ["a", ["s", 5]]]], ["m", [["a", ["s", 6]], ["b", ["a", [0, 1]]]]]], [0, 7]),
            ]:
                for p in pts:
                    yield {"op": "ravel", "space": sd, "point": p, "ood": "K1"}
                for k in ks:
                    yield {"op": "unravel", "space": sd, "k": k, "ood": "K1"}
                yield {"op": "ravelspace", "space": sd, "ood": "K1"}
            # K3: 2^63 points or more
            for sd, pts, ks in [
                (["md", [2 ** 32 + 1, 2 ** 32]], [["a", [1, 1]], ["a", [2 ** 32, 2 ** 32 - 1]]], [5, 2 ** 63]),
                (["box", [7, 7], [-2] * 49, [5] * 49, 1], [["a", [0] * 49]], [5]),
                (["tup", [["md", [2 ** 31, 2 ** 31]], ["d", 2, 0]]], [["t", [["a", [1, 1]], ["s", 1]]]], [5, 2 ** 63 - 1]),
                (["tup", [["md", [2 ** 31, 2 ** 31]], ["d", 4, 0]]], [["t", [["a", [1, 1]], ["s", 3]]]], [5]),
            ]:
                yield {"op": "ravelspace", "space": sd, "ood": "K3"}
                for p in pts:
                    yield {"op": "ravel", "space": sd, "point": p, "ood": "K3"}
                for k in ks:
                    yield {"op": "unravel", "space": sd, "k": k, "ood": "K3"}
            # K5: integer Box of a dtype other than `int`; float and unbounded boxes (check_space only)
            for sd, pts, ks in [
                (["box", [2], [0, 0], [3, 3], 0], [["a", [1, 1]]], [5, 0]),
                (["tup", [["box", [1], [-1], [1], 0], ["d", 2, 0]]], [["t", [["a", [0]], ["s", 1]]]], [3]),
            ]:
                yield {"op": "checkspace", "space": sd, "ood": "K5"}
                yield {"op": "ravelspace", "space": sd, "ood": "K5"}
                for p in pts:
                    yield {"op": "ravel", "space": sd, "point": p, "ood": "K5"}
                for k in ks:
                    yield {"op": "unravel", "space": sd, "k": k, "ood": "K5"}
            for sd in [["fbox", [2], [[0, 1], [0, 1]], [[1, 1], [1, 1]], 64],
                       ["fbox", [1], [[0, 1]], [[1, 1]], 32],
                       ["ubox", [2], 0], ["ubox", [1], 1], ["ubox", [2, 2], 2],
                       ["tup", [["d", 3, 0], ["fbox", [1], [[0, 1]], [[1, 1]], 64]]],
                       ["dict", [["z", ["mb", 2]], ["a", ["ubox", [1], 1]]]],
                       ["tup", [["d", 3, 0], ["dict", [["b", ["box", [1], [0], [1], 1]], ["a", ["md", [2, 2]]]]]]]]:
                yield {"op": "checkspace", "space": sd, "ood": "unsupported"}
        else:
            for sd, pts in [
                (["d", 3, 1], [["s", 1], ["s", 3]]),
                (["tup", [["d", 3, 1], ["mb", 2]]], [["t", [["s", 3], ["a", [1, 0]]]], ["t", [["s", 1], ["a", [0, 0]]]]]),
                (["dict", [["z", ["fbox", [2], [[0, 1], [-1, 2]], [[1, 1], [1, 2]], 64]], ["a", ["d", 2, -1]]]],
                 [["m", [["z", ["a", [[1, 2], [0, 1]]]], ["a", ["s", -1]]]]]),
            ]:
                yield {"op": "flatspace", "space": sd, "ood": "K1"}
                for p in pts:
                    yield {"op": "flatten", "space": sd, "point": p, "ood": "K1"}
                    yield {"op": "unflatten", "space": sd, "point": p, "ood": "K1"}
            for sd, pts in [
                (["tup", [["box", [2], [0, 0], [1, 1], 0], ["d", 2, 0]]], [["t", [["a", [0, 1]], ["s", 1]]]]),
                (["dict", [["b", ["box", [1], [-1], [1], 0]], ["a", ["mb", 2]]]], [["m", [["b", ["a", [0]]], ["a", ["a", [1, 1]]]]]]),
                (["box", [2], [0, 0], [1, 1], 0], [["a", [0, 1]]]),
            ]:
                yield {"op": "flatspace", "space": sd, "ood": "K5"}
                for p in pts:
                    yield {"op": "flatten", "space": sd, "point": p, "ood": "K5"}
                    yield {"op": "unflatten", "space": sd, "point": p, "ood": "K5"}

    # -- known findings ---------------------------------------------------------------------------------
    def finding_matchers(self):
        """narrow signatures: the input shape *and* the way it fails.  The model is written after the code, so
        on K1 / K5 inputs the known wrong behaviour is exactly the model's outcome; on K3 inputs the model keeps
        the true (unbounded) number while numpy wraps or refuses."""
        def only(sd, k1=False, k3=False, k5=False):
            # no other reason for being outside WF than the finding's own
            return (spc.has_start(sd) == k1 and spc.has_narrow(sd) == k5 and
                    (not spc.all_leaves_int(sd) or (spc.py_card(sd) >= 2 ** 63) == k3))

        def k1(case, v):
            sd = case.desc["space"]
            return only(sd, k1=True) and v.impl_spec is False and v.model == case.impl

        def k3(case, v):
            d = case.desc
            sd = d["space"]
            if self.pid != "C04" or not spc.all_leaves_int(sd) or not only(sd, k3=True) or v.impl_spec is not False:
                return False
            impl = wire.dec(case.impl)
            if impl == ["e", "err"]:
                return True                                    # numpy / gymnasium refuse the size
            if d["op"] == "ravelspace" and impl[0] == "ok" and isinstance(impl[1], int):
                return impl[1] == spc.py_card(sd) % 2 ** 64 and impl[2] == 0   # silent wrap of np.prod
            return False

        def k5(case, v):
            d = case.desc
            sd = d["space"]
            if not only(sd, k5=True) or v.impl_spec is not False:
                return False
            if d["op"] == "flatspace":
                return v.model == case.impl and wire.dec(case.impl)[1] == "f" and spc.is_nested(sd)
            if d["op"] == "unravel":
                # the int64 result is not a member of the narrow Box (the model does not model widths)
                m, i = wire.dec(v.model), wire.dec(case.impl)
                return m[0] == "ok" and i[0] == "ok" and m[1] == i[1] and m[2] == 1 and i[2] == 0
            return False

        return {"K1": k1, "K3": k3, "K5": k5}

    # -- shrinking ----------------------------------------------------------------------------------------
    def shrink_candidates(self, desc):
        sd = desc["space"]
        card = spc.py_card(sd) if spc.all_leaves_int(sd) else 0

        def with_space(nsd, npt=None):
            d = dict(desc, space=nsd)
            if "point" in d:
                if npt is None:
                    return None
                d["point"] = npt
            if "k" in d:
                c = spc.py_card(nsd) if spc.all_leaves_int(nsd) else 0
                if c <= 0:
                    return None
                d["k"] = d["k"] % c
            return d

        if sd[0] in ("dict", "tup"):
            kids = sd[1]
            pt = desc.get("point")
            for i in range(len(kids)):
                # project onto child i
                if sd[0] == "tup":
                    c = with_space(kids[i], pt[1][i] if pt else None)
                else:
                    c = with_space(kids[i][1], dict(map(tuple, pt[1]))[kids[i][0]] if pt else None)
                if c:
                    yield c
            if len(kids) > 1:
                for i in range(len(kids)):
                    rest = kids[:i] + kids[i + 1:]
                    if sd[0] == "tup":
                        c = with_space(["tup", rest], ["t", pt[1][:i] + pt[1][i + 1:]] if pt else None)
                    else:
                        c = with_space(["dict", rest],
                                       ["m", [kp for kp in pt[1] if kp[0] != kids[i][0]]] if pt else None)
                    if c:
                        yield c
        if "k" in desc and card > 0:
            for k in (0, desc["k"] // 2, desc["k"] - 1):
                if 0 <= k < desc["k"]:
                    yield dict(desc, k=k)
