"""C06 (space-converting wrappers commute with the wrapped simulation): side-by-side twins on the real code.

The same seeded real simulation is built twice; one copy is wrapped (RavelDiscreteWrapper, FlattenWrapper,
FlattenActionWrapper, alone or inside / around SuperAgentWrapper and CommunicationHandshakeWrapper).  Every call
that reaches the space-converting layer `L` of the wrapped copy is logged (instance-level taps, nothing in /repo is
touched) and mirrored on the twin of `L.sim` with the actions decoded by the REAL unravel / unflatten.  Inner
states, the arguments the inner `step` received, observations and the Lean model must agree three-way
(`wsar`).  Grid-world actors wrapped by the real RavelActionWrapper / ExclusiveChannelActionWrapper are compared
with the unwrapped actor fed the decoded action on a twin world (`wactor`); the exclusive-channel encoding is
compared number by number and point by point (`wexcl`); `unwrapped` for every stack (`wunwrap`).

Runtime-only clauses (no theorem possible in a pure model, reported through runtime_failure): the inner
simulation's agents and spaces (repr, structural equality, null points, ids, object identity of `sim.agents`, of
every agent and of every space) are identical before wrapping, after wrapping and after stepping; and
`wrapper.unwrapped is innermost` for every wrapper of every stack.
"""
import copy
import itertools
import json
import time

import compat  # noqa: F401
import numpy as np

import core
import gridw
import spc
import wire
from mgr import guarded, gen_script
from oracle import scripted, Tape
from stub_sim import SpaceStubSim, script_to_wire

from abmarl.sim import is_agent
from abmarl.sim.wrappers import (RavelDiscreteWrapper, FlattenWrapper, FlattenActionWrapper, SuperAgentWrapper,
                                 CommunicationHandshakeWrapper)
from abmarl.sim.wrappers import ravel_discrete_wrapper as RW
from abmarl.sim.wrappers import flatten_wrapper as FW
from abmarl.sim.gridworld.wrapper import RavelActionWrapper, ExclusiveChannelActionWrapper
from abmarl.sim.gridworld.actor import (ActorBaseComponent, MoveActor, CrossMoveActor, DriftMoveActor,
                                         BinaryAttackActor, EncodingBasedAttackActor,
                                         RestrictedSelectiveAttackActor, SelectiveAttackActor)
from abmarl.sim.gridworld.agent import MovingAgent
from abmarl.examples.sim.multi_corridor import MultiCorridor

SAR = {"ravel": RavelDiscreteWrapper, "flatten": FlattenWrapper, "flattenAction": FlattenActionWrapper}
BAD = spc.BAD
SWEEP = 512           # wrapped action spaces up to this size are swept completely from a common state


# ==================================================================================================
# canonical forms

def debool(x):
    """numpy treats True / False as 1 / 0 wherever the code under test uses them (ravel_multi_index,
    concatenate): canonicalise them as integers"""
    if isinstance(x, (bool, np.bool_)):
        return int(x)
    if isinstance(x, np.ndarray):
        return x.astype(int) if x.dtype.kind == "b" else x
    if isinstance(x, dict):
        return {k: debool(v) for k, v in x.items()}
    if isinstance(x, tuple):
        return tuple(debool(v) for v in x)
    if isinstance(x, list):
        return [debool(v) for v in x]
    return x


def has_bad(c):
    if c == BAD:
        return True
    if isinstance(c, list):
        return any(has_bad(x) for x in c)
    return False


def _leaf_arrays(sd, obj):
    """a bare Python number standing for a 0-d array (what `.tolist()` of a 0-d array gives) is that array"""
    k = sd[0]
    if k == "dict" and isinstance(obj, dict):
        sub = dict(sd[1])
        return {key: (_leaf_arrays(sub[key], v) if key in sub else v) for key, v in obj.items()}
    if k == "tup" and isinstance(obj, (tuple, list)) and len(obj) == len(sd[1]):
        return tuple(_leaf_arrays(s, v) for s, v in zip(sd[1], obj))
    if k in ("box", "fbox", "ubox") and isinstance(obj, (int, float)) and not isinstance(obj, bool):
        return np.asarray(obj)
    return obj


def canon_point(sd, obj):
    """canonical wire form of a point of the space described by sd; the atom `bad` if it has none"""
    try:
        c = spc.canon_pt(sd, _leaf_arrays(sd, debool(obj)))
    except Exception:  # noqa: BLE001
        return BAD
    return BAD if has_bad(c) else c


def canon_flat(x):
    try:
        c = spc.canon_array(debool(x))
    except Exception:  # noqa: BLE001
        return BAD
    if c == BAD or has_bad(c) or len(c[1]) != 1:
        return BAD
    return c


def space_desc(space):
    try:
        return spc.from_gym(space)
    except Exception:  # noqa: BLE001
        return None


# ==================================================================================================
# actions of a real gymnasium space from the seeded rng (json-able)
#   int | {"i": [ints]} | {"q": [[num, den]..]} | {"d": [[key, val]..]} | {"t": [vals]}

def sample_json(rng, sd, flat=False):
    """a json-able member of the space described by sd (spc description)"""
    k = sd[0]
    if k == "d":
        return rng.randrange(sd[2], sd[2] + sd[1])
    if k == "mb":
        return {"i": [rng.randrange(2) for _ in range(sd[1])]}
    if k == "md":
        return {"i": [rng.randrange(r) for r in sd[1]]}
    if k == "box":
        return {"i": [rng.randint(l, h) for l, h in zip(sd[2], sd[3])], "shape": sd[1]}
    if k == "fbox":
        vals = []
        for l, h in zip(sd[2], sd[3]):
            l, h = spc.frac(l), spc.frac(h)
            lo_k, hi_k = int(np.ceil(l * 1024)), int(np.floor(h * 1024))
            r = rng.random()
            if r < 0.6 and int(np.ceil(l)) <= int(np.floor(h)):
                q = spc.Fraction(rng.randint(int(np.ceil(l)), int(np.floor(h))))     # an integral value
            else:
                q = spc.Fraction(rng.randint(lo_k, hi_k), 1024)
            vals.append(spc.fwire(q))
        return {"q": vals, "shape": sd[1]}
    if k == "dict":
        return {"d": [[key, sample_json(rng, sub)] for key, sub in sd[1]]}
    if k == "tup":
        return {"t": [sample_json(rng, sub) for sub in sd[1]]}
    raise ValueError(sd)


def json_to_py(j):
    if isinstance(j, int):
        return int(j)
    if "i" in j:
        a = np.array(j["i"], dtype=np.int64)
        return a.reshape(j["shape"]) if "shape" in j else a
    if "q" in j:
        a = np.array([float(spc.frac(x)) for x in j["q"]], dtype=np.float64)
        return a.reshape(j["shape"]) if "shape" in j else a
    if "d" in j:
        return {k: json_to_py(v) for k, v in j["d"]}
    if "t" in j:
        return tuple(json_to_py(v) for v in j["t"])
    raise ValueError(j)


# ==================================================================================================
# building stacks

def build_base(sd):
    if sd["type"] == "stub":
        return SpaceStubSim(sd["script"], sd["spaces"], sd["obs"], flat_ep=sd.get("flat", False),
                            kw=sd.get("kw", False), nulls=sd.get("nulls"))
    if sd["type"] == "corridor":
        return MultiCorridor(end=sd["end"], num_agents=sd["n"])
    raise ValueError(sd["type"])


def base_dump(base):
    if isinstance(base, SpaceStubSim):
        return base.dump()
    if isinstance(base, MultiCorridor):
        if not hasattr(base, "corridor"):
            return []
        pos = [int(a.position) for a in base.agents.values()]
        occ = [-1 if c is None else int(c.id[5:]) for c in base.corridor]
        return pos + [int(base.reward[k]) for k in base.agents] + occ
    raise ValueError(type(base))


def wrap_one(name, sim, desc):
    if name in SAR:
        return SAR[name](sim)
    if name == "super":
        return SuperAgentWrapper(sim, super_agent_mapping={k: list(v) for k, v in desc["super"].items()})
    if name == "comm":
        return CommunicationHandshakeWrapper(sim)
    raise ValueError(name)


def build_chain(desc, layers, snaps=None):
    """[outermost, ..., base]; snaps collects (layer object, inner object, snapshot before wrapping)"""
    chain = [build_base(desc["sim"])]
    for name in reversed(layers):
        inner = chain[0]
        before = snapshot(inner) if (snaps is not None and name in SAR) else None
        obj = wrap_one(name, inner, desc)
        if before is not None:
            snaps.append((name, obj, inner, before))
        chain.insert(0, obj)
    return chain


# ==================================================================================================
# the deep-copy clause (runtime-only)

def _null_repr(x):
    try:
        return repr(debool(x).tolist() if isinstance(x, np.ndarray) else x)
    except Exception:  # noqa: BLE001
        return "?"


def _rng_state(sp):
    """the states of the random generators of a space and its sub-spaces as they are now (a generator that was never
    created stays uncreated: `np_random` would make one).  Wrapping a simulation does not re-seed ITS spaces."""
    if sp is None:
        return None
    g = getattr(sp, "_np_random", None)
    out = [None if g is None else repr(g.bit_generator.state)]
    subs = getattr(sp, "spaces", None)
    if isinstance(subs, dict):
        out += [_rng_state(x) for x in subs.values()]
    elif isinstance(subs, (tuple, list)):
        out += [_rng_state(x) for x in subs]
    return out


def snapshot(sim, copies=True):
    ags = sim.agents
    per = []
    for k, a in ags.items():
        asp = getattr(a, "action_space", None)
        osp = getattr(a, "observation_space", None)
        per.append({"key": k, "agent": id(a), "cls": type(a).__name__, "id": a.id,
                    "rng": repr([_rng_state(asp), _rng_state(osp)]),
                    "arepr": repr(asp), "orepr": repr(osp), "aid": id(asp), "oid": id(osp),
                    "acopy": copy.deepcopy(asp) if copies else asp, "ocopy": copy.deepcopy(osp) if copies else osp,
                    "nact": _null_repr(getattr(a, "null_action", None)),
                    "nobs": _null_repr(getattr(a, "null_observation", None)),
                    "nactid": id(getattr(a, "null_action", None)),
                    "nobsid": id(getattr(a, "null_observation", None))})
    return {"agents": id(ags), "per": per}


def snapshot_diff(before, sim):
    """what differs between a snapshot (with deep copies of the spaces) and the simulation now ('' = nothing)"""
    now = snapshot(sim, copies=False)
    if before["agents"] != now["agents"]:
        return "sim.agents is a different object"
    if [p["key"] for p in before["per"]] != [p["key"] for p in now["per"]]:
        return "the keys of sim.agents changed"
    for b, n in zip(before["per"], now["per"]):
        for f in ("agent", "cls", "id", "arepr", "orepr", "aid", "oid", "nact", "nobs", "nactid", "nobsid", "rng"):
            if b[f] != n[f]:
                if f == "rng":
                    return f"agent {b['key']}: the random generator of one of its spaces was re-seeded or advanced"
                return f"agent {b['key']}: {f} changed from {b[f]!r} to {n[f]!r}"
        if not (b["acopy"] == n["acopy"]) or not (b["ocopy"] == n["ocopy"]):
            return f"agent {b['key']}: a space is no longer equal to its copy taken before wrapping"
    return ""


# ==================================================================================================
# taps

class Tap:
    """logs the calls of the listed methods of one object (instance attributes; /repo is not touched)"""

    def __init__(self, obj, names, sink):
        self.obj, self.names = obj, names
        for name in names:
            orig = getattr(obj, name)
            setattr(obj, name, self._make(name, orig, sink))

    @staticmethod
    def _make(name, orig, sink):
        def shim(*args, **kwargs):
            # the arguments are kept as they were AT THE CALL (a simulation may write into the actions it receives)
            rec = {"name": name, "args": copy.deepcopy(args) if name == "step" else args, "kwargs": dict(kwargs)}
            sink.begin(rec)
            try:
                rec["result"] = orig(*args, **kwargs)
                return rec["result"]
            except Exception as ex:  # noqa: BLE001
                rec["exc"] = f"{type(ex).__name__}: {ex}"
                raise
            finally:
                sink.end(rec)
        return shim


class Pair:
    """a wrapped stack `W` and the twin of the simulation its layer `L` wraps"""

    MUT = ("reset", "step", "get_obs", "get_reward")
    PURE = ("get_done", "get_all_done", "get_info")

    def __init__(self, desc):
        self.desc = desc
        stack, li = desc["stack"], desc["layer"]
        self.kind = stack[li]
        self.snaps = []
        self.chain = build_chain(desc, stack, self.snaps)
        self.L = self.chain[li]
        self.inner = self.chain[li + 1]
        self.baseW = self.chain[-1]
        self.tchain = build_chain(desc, stack[li + 1:])
        self.tmid = self.tchain[0]
        self.baseT = self.tchain[-1]
        self.outermost = li == 0
        self.stub_mode = (li == len(stack) - 1 and desc["sim"]["type"] == "stub" and not desc["sim"].get("kw"))
        self.order = list(self.inner.agents) if self.stub_mode else sorted(self.inner.agents)
        self.idx = {k: i for i, k in enumerate(self.order)}
        # descriptions of the inner agents' spaces
        self.sdesc = []
        self.ok = True
        for i, k in enumerate(self.order):
            a = self.inner.agents[k]
            if not is_agent(a):
                self.sdesc.append(None)
                continue
            if self.stub_mode:
                d = tuple(desc["sim"]["spaces"][i])
            else:
                d = (space_desc(a.action_space), space_desc(a.observation_space))
            if d[0] is None or d[1] is None:
                self.ok = False
            elif self.kind == "ravel" and not (spc.all_leaves_int(d[0]) and spc.all_leaves_int(d[1]) and
                                               spc.py_card(d[0]) < 2 ** 63 and spc.py_card(d[1]) < 2 ** 63):
                self.ok = False           # outside C04's domain (K3); RavelDiscreteWrapper is not claimed there
            self.sdesc.append(d)
        self.tapeW = Tape(desc.get("tape", []))
        self.tapeT = Tape(desc.get("tape", []))
        self.log = []            # calls that reached L (records)
        self.cur = None
        self.muted = False
        self.entries = []        # wire entries
        self.kwcalls = []        # indices of entries whose call carried keyword arguments that matter
        self.problems = []       # runtime-only failures
        self.snap_after_wrap = [snapshot_diff(b, inner) for _, _, inner, b in self.snaps]
        names = self.MUT + (self.PURE if self.outermost else ())
        Tap(self.L, names, self)
        self._inner_step = self.inner.step
        self.inner.step = self._inner_step_shim

    # -- tap callbacks -----------------------------------------------------------------------------
    def begin(self, rec):
        rec["inner_steps"] = []
        self.cur = rec

    def end(self, rec):
        self.cur = None
        if self.muted:
            return               # a probe of the generator (pure getter), not part of the history
        rec["stW"] = base_dump(self.baseW)
        self.log.append(rec)

    def probe(self, fn):
        """call a pure getter of the wrapped stack for the generator's own use, without logging it"""
        self.muted = True
        try:
            with scripted(self.tapeW):
                return guarded(fn)
        finally:
            self.muted = False

    def _inner_step_shim(self, action_dict, **kwargs):
        if self.cur is not None:
            self.cur["inner_steps"].append(self._canon_acts(action_dict))
        return self._inner_step(action_dict, **kwargs)

    # -- canonical pieces --------------------------------------------------------------------------
    def _canon_acts(self, ad):
        out = []
        for k, v in ad.items():
            i = self.idx.get(k, -1)
            sd = self.sdesc[i] if 0 <= i < len(self.sdesc) else None
            out.append([i, canon_point(sd[0], v) if sd is not None else BAD])
        return out

    def _wrapped_act_wire(self, x):
        if self.kind == "ravel":
            c = spc.canon_scalar(x)
            return c if isinstance(c, int) and c >= 0 else BAD
        return canon_flat(x)

    def _obs_wire_W(self, i, o):
        if self.kind == "ravel":
            c = spc.canon_scalar(o)
            return ["k", c] if isinstance(c, int) else BAD
        if self.kind == "flatten":
            return canon_flat(o)
        return canon_point(self.sdesc[i][1], o) if self.sdesc[i] is not None else BAD

    def _ret_wire(self, rec, side):
        """canonical returned value of a logged call (side 'W': wrapped forms; 'T': inner forms)"""
        if "exc" in rec:
            return ["x", "crash"]
        name, res = rec["name"], rec.get("result")
        if name in ("reset", "step"):
            return ["u"]
        i = self.idx.get(rec["args"][0], -1) if rec["args"] else -1
        if name == "get_obs":
            if side == "W":
                c = self._obs_wire_W(i, res)
            else:
                c = canon_point(self.sdesc[i][1], res) if (0 <= i and self.sdesc[i] is not None) else BAD
            return ["x", "bad"] if c == BAD else ["o", i, c]
        if name == "get_reward":
            return ["w", int(res)] if isinstance(res, (int, np.integer)) and not isinstance(res, bool) else ["x", "bad"]
        if name in ("get_done", "get_all_done"):
            return ["f", bool(res)] if isinstance(res, (bool, np.bool_)) else ["x", "bad"]
        if name == "get_info":
            if isinstance(res, dict) and set(res) == {"t"}:
                return ["i", [int(res["t"])]]
            return ["i", []] if res == {} else ["x", "bad"]
        return ["x", "bad"]

    def _call_wire(self, rec):
        name = rec["name"]
        if name == "reset":
            return ["r"]
        if name == "step":
            return ["s", [[self.idx.get(k, -1), self._wrapped_act_wire(v)] for k, v in rec["args"][0].items()]]
        i = self.idx.get(rec["args"][0], -1) if rec["args"] else -1
        return {"get_obs": ["o", i], "get_reward": ["w", i], "get_done": ["d", i], "get_all_done": ["ad"],
                "get_info": ["i", i]}[name]

    # -- mirroring on the twin ---------------------------------------------------------------------------
    def _real_decode(self, aid, x):
        space = self.tmid.agents[aid].action_space
        if self.kind == "ravel":
            return RW.unravel(space, copy.deepcopy(x))
        return FW.unflatten(space, copy.deepcopy(x))

    def _mirror(self, rec):
        """the same call on the twin of `L.sim`; a step gets the actions decoded by the real unravel / unflatten.  If
        the real decode raises the twin is not stepped (argsT = (n)); if the twin's own step raises after a successful
        decode, argsT is what it was given"""
        name, kwargs = rec["name"], rec["kwargs"]
        trec = {"name": name, "args": rec["args"]}
        argsT = ["n"]
        with scripted(self.tapeT):
            try:
                if name == "step":
                    decoded = {aid: self._real_decode(aid, x) for aid, x in rec["args"][0].items()}
                    argsT = ["y", self._canon_acts(decoded)]
                    trec["result"] = self.tmid.step(decoded, **kwargs)
                else:
                    trec["result"] = getattr(self.tmid, name)(*rec["args"], **kwargs)
            except Exception as ex:  # noqa: BLE001
                trec["exc"] = f"{type(ex).__name__}: {ex}"
        return trec, argsT

    def _flush(self):
        """turn the calls logged since the last flush into entries (mirroring each on the twin)"""
        for rec in self.log:
            call = self._call_wire(rec)
            if has_bad(call):
                self.ok = False
            retW = self._ret_wire(rec, "W")
            if len(rec["inner_steps"]) == 1:
                inW = ["y", rec["inner_steps"][0]]
            else:
                inW = ["n"]
                if len(rec["inner_steps"]) > 1:
                    self.problems.append(("the inner step was called %d times during one call" % len(rec["inner_steps"]),
                                          call))
            is_in = True
            if rec["name"] == "get_obs" and "exc" not in rec:
                try:
                    is_in = bool(rec["result"] in self.L.agents[rec["args"][0]].observation_space)
                except Exception:  # noqa: BLE001
                    is_in = False
            trec, argsT = self._mirror(rec)
            retT = self._ret_wire(trec, "T")
            if rec["name"] in ("get_obs", "get_reward") and any(rec["kwargs"].values()):
                self.kwcalls.append(len(self.entries))
            self.entries.append([call, retW, inW, is_in, rec["stW"], retT, argsT, base_dump(self.baseT)])
        self.log = []

    # -- driving the wrapped stack from outside ---------------------------------------------------------
    def top(self, call):
        """one call on the outermost wrapper: ["r"] | ["s", [[id, action json]..]] | ["o", id, kw?] | ["w", id, kw?]
        | ["d", id] | ["ad"] | ["i", id]"""
        W = self.chain[0]
        with scripted(self.tapeW):
            c = call[0]
            if c == "r":
                st, val = guarded(lambda: W.reset())
            elif c == "s":
                ad = {k: json_to_py(v) for k, v in call[1]}
                st, val = guarded(lambda: W.step(ad))
            elif c == "o":
                st, val = guarded(lambda: W.get_obs(call[1], **(call[2] if len(call) > 2 else {})))
            elif c == "w":
                st, val = guarded(lambda: W.get_reward(call[1], **(call[2] if len(call) > 2 else {})))
            elif c == "d":
                st, val = guarded(lambda: W.get_done(call[1]))
            elif c == "ad":
                st, val = guarded(lambda: W.get_all_done())
            elif c == "i":
                st, val = guarded(lambda: W.get_info(call[1]))
            else:
                raise ValueError(call)
        if c == "o" and st == "ok":
            # what was handed out earlier belongs to the caller (round 6: a wrapper that writes the next observation
            # into the array it returned the call before): the value kept from the previous call must still be what it was
            kept = getattr(self, "_kept", None)
            if kept is None:
                kept = self._kept = {}
            prev = kept.get(call[1])
            if prev is not None and not _same_value(prev[0], prev[1]):
                self.problems.append(("an observation handed out earlier (agent %s) was changed in place by a later call "
                                      "on the wrapper" % call[1], None))
            try:
                kept[call[1]] = (val, copy.deepcopy(val))
            except Exception:  # noqa: BLE001
                kept.pop(call[1], None)
        self._flush()
        return st, val

    # -- results --------------------------------------------------------------------------------------------
    def impl_init(self):
        out = []
        for k, sd in zip(self.order, self.sdesc):
            if sd is None:
                out.append([])
                continue
            a = self.L.agents[k]
            try:
                if self.kind == "ravel":
                    out.append([int(a.action_space.n), int(a.observation_space.n)])
                elif self.kind == "flatten":
                    out.append([_box_wire(a.action_space), _box_wire(a.observation_space)])
                else:
                    out.append([_box_wire(a.action_space)])
            except Exception:  # noqa: BLE001
                out.append(["e"])
        return out

    def spaces_wire(self):
        return [[] if sd is None else [spc.space_wire(sd[0]), spc.space_wire(sd[1])] for sd in self.sdesc]

    def inner_wire(self):
        if not self.stub_mode:
            return ["rec"]
        sd = self.desc["sim"]
        pts = []
        for i, sp in enumerate(sd["spaces"]):
            pts.append([] if sp is None else [spc.pt_wire(sp[1], p) for p in sd["obs"][i]])
        return ["stub", script_to_wire(sd["script"]), pts, bool(sd.get("flat", False))]

    def runtime_checks(self):
        """the deep-copy clause and `unwrapped`"""
        out = list(self.problems)
        for (name, obj, inner, before), d1 in zip(self.snaps, self.snap_after_wrap):
            if d1:
                out.append((f"wrapping altered the wrapped simulation's own agents: {name} wrapper, {d1}", None))
            d2 = snapshot_diff(before, inner)
            if d2 and d2 != d1:
                out.append((f"stepping the wrapper altered the wrapped simulation's own agents: {name} wrapper, {d2}", None))
            if obj.agents is inner.agents:
                out.append((f"the wrapper shares its agents dictionary with the wrapped simulation: {name} wrapper", None))
        for w in self.chain[:-1]:
            try:
                u = w.unwrapped
            except Exception as ex:  # noqa: BLE001
                u = ex
            if u is not self.chain[-1]:
                out.append((f"`unwrapped` is not the innermost simulation: {type(w).__name__} in the stack "
                            f"{self.desc['stack']}", None))
        return out

    def unwrapped_idx(self):
        out = []
        for w in self.chain[:-1]:
            try:
                u = w.unwrapped
            except Exception:  # noqa: BLE001
                u = None
            pos = [i for i, o in enumerate(self.chain) if o is u]
            out.append(pos[0] if pos else -1)
        return out


def _box_wire(b):
    if b.dtype == int:
        kind = "i64"
    elif np.issubdtype(b.dtype, np.integer):
        kind = "narrow"
    elif np.issubdtype(b.dtype, np.floating):
        kind = "f"
    else:
        raise ValueError(b.dtype)
    lo, hi = spc.canon_array(b.low), spc.canon_array(b.high)
    if lo == BAD or hi == BAD or len(lo[1]) != 1 or len(hi[1]) != 1:
        raise ValueError("box")
    return [kind, [spc.fwire(spc.frac(x)) for x in lo[2]], [spc.fwire(spc.frac(x)) for x in hi[2]]]


# ==================================================================================================
# generators of simulations, stacks and histories

def _small_space(rng, floats, max_card, depth=None):
    for _ in range(200):
        sd = spc.gen_space(rng, depth if depth is not None else rng.choice([0, 1, 1, 2, 2, 3]), floats)
        if spc.all_leaves_int(sd):
            c = spc.py_card(sd)
            if c > max_card:
                continue
        elif spc.py_flatdim(sd) > 14:
            continue
        return sd
    return ["d", 3, 0]


def _null_for(rng, sd):
    """a null point the constructors can digest (a Dict / Tuple point, or a Discrete number), or None"""
    if sd[0] in ("dict", "tup") or sd[0] == "d":
        return spc.random_point(rng, sd)
    return None          # a numpy null array with several entries makes `if null_observation:` raise (see MERGE_NOTES)


def gen_stub_sim(rng, floats, max_act_card=4000, kw=False):
    script = gen_script(rng, max_agents=4, max_t=6)
    script["noms"] = []
    if rng.random() < 0.3:
        script["seeded"] = True      # agents built with `seed=`, spaces already sampled from (see SpaceStubSim)
    spaces, obs, nulls = [], [], []
    for i in range(script["n"]):
        if not script["learning"][i]:
            spaces.append(None)
            obs.append([])
            nulls.append(None)
            continue
        act = _small_space(rng, floats, SWEEP if rng.random() < 0.6 else max_act_card)
        ob = _small_space(rng, floats, 10 ** 5)
        spaces.append([act, ob])
        pts = list(spc.corner_points(rng, ob))[:2] if rng.random() < 0.3 else []
        pts += [spc.random_point(rng, ob) for _ in range(rng.randint(1, 4))]
        obs.append(pts)
        nulls.append([_null_for(rng, act), _null_for(rng, ob)] if rng.random() < 0.3 else None)
    lr = [i for i in range(script["n"]) if script["learning"][i]]
    if len(lr) >= 2 and not floats and rng.random() < 0.1:
        # near twins: two agents whose observation spaces differ by ONE in a bound of several hundred thousand - equal
        # for gymnasium's Box.__eq__ (np.allclose), different spaces with different numbers of points
        i0, i1 = rng.sample(lr, 2)
        top = rng.choice([250000, 10 ** 6, 3 * 10 ** 5 + 7])
        for i, hi in ((i0, top), (i1, top + 1)):
            ob = ["box", [1], [0], [hi], True]
            spaces[i][1] = ob
            obs[i] = list(spc.corner_points(rng, ob))[:2] + [spc.random_point(rng, ob) for _ in range(2)]
            if nulls[i] is not None:
                nulls[i][1] = None
    sd = {"type": "stub", "script": script, "spaces": spaces, "obs": obs, "flat": rng.random() < 0.3}
    if any(n is not None for n in nulls):
        sd["nulls"] = nulls
    if kw:
        sd["kw"] = True
    return sd


def learner_ids(sd):
    n = sd["script"]["n"]
    ids = [f"{'zwxbyvcuat'[i % 10]}{i}{'_' * (i % 3)}" for i in range(n)]
    return [ids[i] for i in range(n) if sd["script"]["learning"][i]]


def gen_desc(rng, kind_pool):
    """a simulation, a stack and the layer under test"""
    r = rng.random()
    if r < 0.15:
        sim = {"type": "corridor", "end": rng.randint(4, 8), "n": rng.randint(1, 3)}
        sim["n"] = min(sim["n"], sim["end"] - 1)
        stacks = [["ravel"], ["flatten"], ["flattenAction"], ["comm", "ravel"], ["ravel", "comm"],
                  ["ravel", "super"], ["flatten", "super"], ["ravel", "flattenAction"]]
        stack = rng.choice(stacks)
        desc = {"sim": sim, "stack": stack, "tape": [rng.randrange(1000) for _ in range(40)]}
        if "super" in stack:
            ids = [f"agent{i}" for i in range(sim["n"])]
            k = rng.randint(1, len(ids))
            desc["super"] = {"S0": ids[:k]}
    else:
        stack = rng.choice(kind_pool)
        floats = all(s in ("flatten", "flattenAction", "super", "comm") for s in stack) and "ravel" not in stack
        sim = gen_stub_sim(rng, floats and rng.random() < 0.7)
        if "comm" in stack or sum(1 for x in stack if x in SAR) > 1:
            # CommunicationHandshakeWrapper keeps the inner null points while replacing the spaces, and a flattened
            # null action with several entries makes the next wrapper's `if null_action:` raise (MERGE_NOTES, W-O1/O3):
            # such agents cannot be wrapped again, so these stacks are generated without null points
            sim.pop("nulls", None)
        desc = {"sim": sim, "stack": stack}
        if "super" in stack:
            ids = learner_ids(sim)
            rng.shuffle(ids)
            k = rng.randint(1, len(ids))
            desc["super"] = {"S0": ids[:k]}
            if len(ids) - k >= 2 and rng.random() < 0.4:
                desc["super"]["S1"] = ids[k:k + 2]
    sar_layers = [i for i, s in enumerate(desc["stack"]) if s in SAR]
    desc["layer"] = rng.choice(sar_layers)
    return desc


STACKS = [["ravel"], ["ravel"], ["flatten"], ["flatten"], ["flattenAction"], ["ravel", "super"], ["flatten", "super"],
          ["comm", "ravel"], ["ravel", "comm"], ["ravel", "flattenAction"], ["flattenAction", "super"],
          ["comm", "flatten"], ["super", "ravel"]]


def top_agents(pair):
    W = pair.chain[0]
    return [k for k, a in W.agents.items() if is_agent(a)]


def _same_value(a, b):
    if isinstance(a, dict) and isinstance(b, dict):
        return list(a.keys()) == list(b.keys()) and all(_same_value(a[k], b[k]) for k in a)
    if isinstance(a, (list, tuple)) and isinstance(b, (list, tuple)):
        return len(a) == len(b) and all(_same_value(x, y) for x, y in zip(a, b))
    if isinstance(a, np.ndarray) or isinstance(b, np.ndarray):
        a, b = np.asarray(a), np.asarray(b)
        return a.shape == b.shape and a.dtype == b.dtype and bool(np.array_equal(a, b))
    try:
        return bool(a == b)
    except Exception:  # noqa: BLE001
        return True


def play(rng, pair, max_calls, p_reset=0.06):
    """adaptive random history on the outermost wrapper; returns the concrete top-level calls"""
    W = pair.chain[0]
    calls = []

    def do(c):
        calls.append(c)
        return pair.top(c)

    do(["r"])
    ids = top_agents(pair)
    sds = {k: space_desc(W.agents[k].action_space) for k in ids}
    if any(v is None for v in sds.values()):
        pair.ok = False
        return calls
    while len(calls) < max_calls:
        r = rng.random()
        if r < p_reset:
            do(["r"])
        elif r < 0.5:
            live = []
            for k in ids:
                st, d = pair.probe(lambda k=k: W.get_done(k))
                if st == "ok" and not d:
                    live.append(k)
            st, ad = pair.probe(lambda: W.get_all_done())
            if not live or (st == "ok" and ad):
                do(["r"])
                continue
            chosen = [k for k in live if rng.random() < 0.8] or live[:1]
            rng.shuffle(chosen)
            do(["s", [[k, sample_json(rng, sds[k])] for k in chosen]])
        elif r < 0.8:
            do(["o", rng.choice(ids)])
        elif r < 0.9:
            do(["w", rng.choice(ids)])
        elif r < 0.95:
            do(["d", rng.choice(ids)])
        elif r < 0.98:
            do(["ad"])
        else:
            if pair.stub_mode and pair.outermost:
                do(["i", rng.choice(ids)])
    for k in ids:
        do(["o", k])
    return calls


# ==================================================================================================
# grid-world actors

class ChannelActor(ActorBaseComponent):
    """an actor with a generated Dict action channel that only records what it is given (harness stand-in for
    'any actor with a Dict channel')"""

    def __init__(self, space=None, **kwargs):
        super().__init__(**kwargs)
        self.received = []
        for agent in self.agents.values():
            if self._supported_agent(agent):
                agent.action_space[self.key] = copy.deepcopy(space)

    @property
    def key(self):
        return "chan"

    def _supported_agent(self, agent):
        return isinstance(agent, MovingAgent)

    def process_action(self, agent, action_dict, **kwargs):
        if self._supported_agent(agent):
            self.received.append(copy.deepcopy(action_dict[self.key]))
            return True


MOVERS = {"move": MoveActor, "cross": CrossMoveActor, "drift": DriftMoveActor}
ATTACKERS = {"binary": BinaryAttackActor, "encoding": EncodingBasedAttackActor,
             "restricted": RestrictedSelectiveAttackActor, "selective": SelectiveAttackActor}
AWRAP = {"ravel": RavelActionWrapper, "excl": ExclusiveChannelActionWrapper}


def actor_kinds(rng, a, rows, cols):
    r = rng.random()
    if r < 0.7:
        a["moving"] = True
        a["move_range"] = rng.choice([0, 1, 1, 2, "FULL"])
        if rng.random() < 0.5:
            a["has_orient"] = True
            a["init_orient"] = rng.choice([None, 1, 2, 3, 4])
    if rng.random() < 0.7:
        a["attacking"] = True
        a["attack_range"] = rng.choice([0, 1, 1, 2])
        a["strength"] = rng.choice([[1, 4], [1, 2], [1, 1], [3, 4]])
        a["accuracy"] = rng.choice([[1, 1], [1, 1], [1, 2], [3, 4], [0, 1]])
        a["sim_attacks"] = rng.choice([1, 1, 2, 3])
        if rng.random() < 0.3:
            a["has_ammo"] = True
            a["init_ammo"] = rng.randint(0, 4)


def make_actor(kind, world, extra):
    kw = dict(grid=world.grid, agents=world.agents)
    if kind in MOVERS:
        return MOVERS[kind](**kw)
    if kind in ATTACKERS:
        mapping = {int(e): set(int(x) for x in s) for e, s in extra["mapping"]}
        return ATTACKERS[kind](attack_mapping=mapping, stacked_attacks=bool(extra.get("stacked", False)), **kw)
    if kind == "chan":
        return ChannelActor(space=spc.to_gym(extra["space"]), **kw)
    raise ValueError(kind)


def canon_ret(world, val):
    if val is None:
        return [-1]
    if isinstance(val, (bool, np.bool_)):
        return [int(val)]
    if isinstance(val, tuple) and len(val) == 2:
        return [int(bool(val[0]))] + [world.idx[a.id] for a in list(val[1])]
    return [-2]


def run_actor(desc):
    """one wrapped process_action call and its twin; returns (request, impl string, tags, nontrivial, bad unwrapped)"""
    wd = copy.deepcopy(desc["world"])
    wW, wT = gridw.RealWorld(wd), gridw.RealWorld(copy.deepcopy(wd))
    kind, layers, a, k = desc["actor"], desc["wrap"], desc["agent"], desc["k"]
    actW, actT = make_actor(kind, wW, desc), make_actor(kind, wT, desc)
    chain, tchain = [actW], [actT]
    for i, name in enumerate(reversed(layers)):
        chain.insert(0, AWRAP[name](chain[0]))
        if i < len(layers) - 1:
            tchain.insert(0, AWRAP[name](tchain[0]))       # the twin: everything but the outermost wrapper
    wrapper, under, twin = chain[0], chain[1], tchain[0]
    agW, agT = wW.agent_list[a], wT.agent_list[a]
    sup = bool(actW._supported_agent(agW))
    stat, pre = wW.stat_wire(), wW.dyn_wire()
    key = actW.key
    got = []
    orig = under.process_action

    def shim(agent, action_dict, **kwargs):
        got.append(copy.deepcopy(action_dict.get(key)))
        return orig(agent, action_dict, **kwargs)
    under.process_action = shim
    fs = wrapper.from_space.get(agW.id) if sup else None
    sd = space_desc(fs) if fs is not None else ["d", 1, 0]
    if sd is None:
        return None
    tape = desc.get("tape", [])
    sent = {key: k}
    if desc.get("reuse"):
        # a history: the caller's action dictionary is an object it uses again - it has just been handed to ANOTHER
        # wrapped actor of the same make (over a third world) and now goes to the measured one; a wrapper reads the
        # dictionary it is given, it does not write the decoded action back into it
        try:
            wX = gridw.RealWorld(copy.deepcopy(wd))
            wrX = make_actor(kind, wX, desc)
            for name in reversed(layers):
                wrX = AWRAP[name](wrX)
            with scripted(Tape(tape)):
                guarded(lambda: wrX.process_action(wX.agent_list[a], sent))
        except Exception:  # noqa: BLE001
            pass
    with scripted(Tape(tape)):
        st, val = guarded(lambda: wrapper.process_action(agW, sent))
    if st != "ok":
        impl = ["err", st]
    else:
        # the twin: the unwrapped actor fed the action decoded by the real code
        with scripted(Tape(tape)):
            if sup:
                stT, valT = guarded(lambda: twin.process_action(agT, {key: copy.deepcopy(wrapper.wrap_point(fs, k))}))
            else:
                stT, valT = guarded(lambda: twin.process_action(agT, {key: k}))
        recv = ["p", canon_point(sd, got[0])] if got else ["n"]
        retT = canon_ret(wT, valT) if stT == "ok" else [-3]
        impl = ["ok", recv, canon_ret(wW, val), wW.dyn_wire(), retT, wT.dyn_wire()]
    modelled = kind in MOVERS and len(layers) == 1
    req = ["wactor", "excl" if layers[0] == "excl" else "ravel", kind if modelled else "opaque", sup, stat, pre, a,
           spc.space_wire(sd), k, impl]
    if impl[0] == "ok":
        mine = ["ok", impl[1], impl[2], impl[3]] if modelled else ["ok", impl[1]]
    else:
        mine = impl
    tags = ["wactor:" + kind, "awrap:" + "+".join(layers), "sup:%d" % sup]
    if impl[0] != "ok":
        tags.append("impl:err")
    moved = impl[0] == "ok" and impl[3] != pre
    bad_unwrapped = [type(w).__name__ for w in chain[:-1] if w.unwrapped is not chain[-1]]
    return req, wire.enc(mine), tags, sup and (moved or kind not in MOVERS), bad_unwrapped


# ==================================================================================================
# the exclusive-channel encoding on generated Dict spaces

def gen_excl_space(rng, max_dims=SWEEP):
    for _ in range(200):
        n = rng.randint(1, 4)
        int_keys = rng.random() < 0.3
        kids = [_small_space(rng, False, 40, depth=0 if int_keys else rng.choice([0, 0, 1, 2])) for _ in range(n)]
        if int_keys:
            keys = rng.sample([1, 2, 3, 5, 8, 13], n)          # integer keys (encodings), as the attack actor has
        else:
            keys = rng.sample(spc.VOCAB, n)
        sd = ["dict", [[key, c] for key, c in zip(keys, kids)]]
        if sum(spc.py_card(c) for c in kids) - n + 1 <= max_dims:
            return sd
    return ["dict", [["a", ["d", 2, 0]]]]


def low_point(sd):
    return spc.build_point(sd, lambda l: spc.sample_leaf(None, l, "lo"))


def valid_excl_points(sd):
    """every action that uses at most one channel, enumerated independently of ravel: the all-low point of a channel
    is its zero; (channel, point) for every non-low point of every channel, plus the all-zero action"""
    kids = sd[1]
    lows = {key: low_point(sub) for key, sub in kids}
    yield ["m", [[key, lows[key]] for key, _ in kids]]
    for key, sub in kids:
        lw = json.dumps(spc.pt_wire(sub, lows[key]))
        for p in spc.enum_points(sub):
            if json.dumps(spc.pt_wire(sub, p)) == lw:
                continue
            yield ["m", [[k2, p if k2 == key else lows[k2]] for k2, _ in kids]]


def run_excl(desc):
    sd = desc["space"]
    sp = spc.to_gym(sd)
    W = ExclusiveChannelActionWrapper
    sub = desc["sub"]
    if sub == "dec":
        def go():
            p = W.wrap_point(None, sp, desc["k"] if desc["k"] % 2 == 0 else np.int64(desc["k"]))
            c = canon_point(sd, p)
            re = W.unwrap_point(None, sp, p)
            rc = spc.canon_scalar(re)
            return ["ok", c, spc._in(p, sp), rc if isinstance(rc, int) else BAD]
        impl = spc._guard(go)
        req = ["wexcl", spc.space_wire(sd), ["dec", desc["k"]], impl]
    elif sub == "enc":
        def go():
            c = W.unwrap_point(None, sp, spc.to_py(sd, desc["point"]))
            cc = spc.canon_scalar(c)
            if not isinstance(cc, int) or cc < 0:
                return ["ok", BAD, BAD]
            q = W.wrap_point(None, sp, c)
            return ["ok", cc, canon_point(sd, q)]
        impl = spc._guard(go)
        req = ["wexcl", spc.space_wire(sd), ["enc", spc.pt_wire(sd, desc["point"])], impl]
    else:
        def go():
            n = W.wrap_space(None, sp).n
            return ["ok", int(n)]
        impl = spc._guard(go)
        req = ["wexcl", spc.space_wire(sd), ["dims"], impl]
    if has_bad(impl):
        impl = ["e", "err"] if impl[0] != "ok" else ["ok", BAD]
        req[-1] = ["e", "bad"]
    return req, impl


# ==================================================================================================

class _Collector:
    """runtime-only failures and notes found while the cases are generated; handed to the report in extra_checks"""

    def __init__(self):
        self.failures, self.notes = [], {}

    def runtime_failure(self, what, desc):
        self.failures.append((what, desc))


class WrapProp(core.Prop):
    pid = "C06"
    lean_targets = ["Abmarl.Props.C06"]
    rule = ("side-by-side twins on the real code: one twin pair = the same seeded real simulation built twice (scripted "
            "stub with generated nested action / observation spaces and scripted member observations; "
            "abmarl.examples MultiCorridor), one copy wrapped by RavelDiscreteWrapper / FlattenWrapper / "
            "FlattenActionWrapper alone or stacked with the real SuperAgentWrapper / CommunicationHandshakeWrapper / each "
            "other; an adaptive seeded history (resets, steps for a subset of live agents, observation / reward / done "
            "reads) is played on the wrapped copy, every call reaching the space-converting layer is mirrored on the "
            "twin with the actions decoded by the real unravel / unflatten; the trace (wrapped value, argument the inner "
            "step received, real `in` answer, both inner state dumps) must equal the Lean model's and is judged by "
            "specCommute; wrapped action spaces with <= 512 values are swept completely from a common state; grid "
            "worlds: real Move/CrossMove/DriftMove and the four attack actors (and a recording actor with generated "
            "Dict channels) wrapped by RavelActionWrapper / ExclusiveChannelActionWrapper, every wrapped action value of "
            "channels with <= 512 values, compared with the unwrapped actor fed the decoded action on a twin world "
            "under the same oracle tape; exclusive-channel wrap_point / unwrap_point / wrap_space on generated Dict "
            "spaces for every number below dims and every at-most-one-channel action (enumerated independently of "
            "ravel); `unwrapped` of every wrapper of every stack; distinct by the request line; non-trivial = the "
            "history contains a step that reached the inner simulation / the decoded action is not the zero action")
    assumptions = [
        "aliasing (the deep-copy clause) and object identity (`unwrapped is innermost`) cannot be exhibited by a pure "
        "model: they are checked at run time on the real objects by snapshot comparison",
        "int64 arithmetic of numpy is modelled by unbounded integers under card < 2^63 (K3); generators stay inside "
        "the well-formedness domain of C04 / C05 (no Discrete start, no narrow integer Box)",
        "the calls reaching the wrapper under test are observed through instance-level taps installed by the harness",
        "real simulations the model does not contain (MultiCorridor, SuperAgentWrapper / CommunicationHandshakeWrapper "
        "underneath the layer under test) enter the model through the twin's returned values (predictW = the "
        "right-hand side of the per-call commuting theorem); the scripted stub is modelled completely",
        "every exception of the real code is the single outcome `crash`",
    ]

    def __init__(self):
        self._report = _Collector()

    # ---- twin pairs --------------------------------------------------------------------------------
    def _sar_case(self, desc, rng=None, max_calls=14, report=True):
        """build the pair, play desc['calls'] (or a fresh random history when rng is given), make the Case"""
        try:
            pair = Pair(desc)
        except Exception as ex:  # noqa: BLE001  (the stack cannot be built: not type-correct for this simulation)
            if rng is None:
                raise
            return None, f"{type(ex).__name__}: {ex}"
        if not pair.ok:
            return None, "space outside the model's universe"
        if rng is not None and "calls" not in desc:
            desc = dict(desc)
            desc["calls"] = play(rng, pair, max_calls)
            pair.desc = desc
        else:
            for c in desc["calls"]:
                pair.top(c)
        if not pair.ok:
            return None, "uncanonical call"
        impl = [pair.impl_init(), [e[1:] for e in pair.entries]]
        req = ["wsar", pair.kind, pair.spaces_wire(), pair.inner_wire(), [e[0] for e in pair.entries], impl[0], impl[1]]
        stepped = sum(1 for e in pair.entries if e[0][0] == "s" and e[2][0] == "y")
        tags = ["wsar:" + pair.kind, "stack:" + "+".join(desc["stack"]) + "@%d" % desc["layer"],
                "sim:" + desc["sim"]["type"], "mode:" + ("stub" if pair.stub_mode else "rec")]
        if pair.kwcalls and desc["sim"].get("kw"):
            tags.append("kwcalls:" + ",".join(str(i) for i in pair.kwcalls))
        if any(e[1][0] == "x" for e in pair.entries):
            tags.append("impl:raised")
        if "sweep" in desc:
            tags.append("sweep")
        case = core.Case(desc, wire.enc(req), wire.enc(impl), nontrivial=stepped > 0, tags=tags)
        if report and self._report is not None and not desc.get("ood"):
            for what, extra in pair.runtime_checks():
                self._report.runtime_failure(what, {"desc": desc, "at": extra})
        uw = ["wunwrap", list(desc["stack"]), pair.unwrapped_idx()]
        ucase = core.Case({"op": "wunwrap", "stack": desc["stack"], "sim": desc["sim"], "super": desc.get("super")},
                          wire.enc(uw), wire.enc(uw[2]), key="wunwrap:" + "+".join(desc["stack"]),
                          nontrivial=len(desc["stack"]) > 1, tags=["wunwrap:%d" % len(desc["stack"])])
        return (case, ucase, pair), None

    def _sweeps(self, rng, desc, pair, budget):
        """every wrapped action value of every sufficiently small wrapped action space, each from the common state
        reached by the first calls of the pair's history"""
        if not pair.outermost or budget <= 0:
            return
        prefix = []
        for c in desc["calls"]:
            prefix.append(c)
            if c[0] == "s":
                break
        W = pair.chain[0]
        ids = top_agents(pair)
        for k in ids:
            sp = W.agents[k].action_space
            values = None
            if pair.kind == "ravel":
                n = int(sp.n)
                if n <= SWEEP:
                    values = list(range(n))
            else:
                sd = space_desc(sp)
                if sd is not None and sd[0] == "box" and spc.py_card(sd) <= SWEEP:
                    values = [{"i": list(c), "shape": sd[1]} for c in itertools.product(*spc.leaf_cells(sd))]
            if values is None:
                continue
            if len(values) > budget:
                continue
            budget -= len(values)
            for v in values:
                d = {kk: vv for kk, vv in desc.items() if kk != "calls"}
                d["calls"] = prefix + [["s", [[k, v]]]] + [["o", x] for x in ids] + [["w", k]]
                d["sweep"] = True
                yield d

    # ---- the Prop interface ---------------------------------------------------------------------------
    def case_from_desc(self, desc):
        op = desc.get("op", "wsar")
        if op == "wsar":
            res, why = self._sar_case(desc, report=False)
            if res is None:
                raise ValueError("cannot rebuild the case: " + str(why))
            return res[0]
        if op == "wunwrap":
            d = {"sim": desc["sim"], "stack": desc["stack"], "layer": [i for i, s in enumerate(desc["stack"]) if s in SAR][0],
                 "calls": []}
            if desc.get("super"):
                d["super"] = desc["super"]
            return self._sar_case(d, report=False)[0][1]
        if op == "wactor":
            return self._actor_case(desc)
        if op == "wexcl":
            return self._excl_case(desc)
        raise ValueError(op)

    def _actor_case(self, desc):
        r = run_actor(desc)
        if r is None:
            return None
        req, mine, tags, nontrivial, bad_unwrapped = r
        if bad_unwrapped and self._report is not None:
            self._report.runtime_failure("`unwrapped` is not the innermost actor: " + ",".join(bad_unwrapped),
                                         {"desc": desc})
        return core.Case(desc, wire.enc(req), mine, nontrivial=nontrivial, tags=tags)

    def _excl_case(self, desc):
        req, impl = run_excl(desc)
        tags = ["wexcl:" + desc["sub"], "channels:%d" % len(desc["space"][1])]
        if impl[0] != "ok":
            tags.append("impl:err")
        nontrivial = desc["sub"] != "dims" and len(desc["space"][1]) > 1 and desc.get("k", 1) != 0
        return core.Case(desc, wire.enc(req), wire.enc(req[-1]), nontrivial=nontrivial, tags=tags)

    def interpret(self, reply, case):
        op = case.desc.get("op", "wsar")
        if op == "wsar":
            model, ms, is_ = reply
            if -1 in is_ or -2 in is_:
                raise ValueError("driver did not judge the implementation outcome")
            return core.Verdict(wire.enc(model), ms == [1, 1], is_ == [1, 1])
        model, ms, is_ = reply
        if is_ not in (0, 1):
            raise ValueError("driver did not judge the implementation outcome")
        if ms == -1 and not case.desc.get("ood") and "sup:0" not in case.tags:
            # (an agent the wrapped actor does not support is outside the actor theorem's hypothesis by design)
            raise ValueError("generator produced a case outside the theorems' hypotheses: " + json.dumps(case.desc)[:300])
        return core.Verdict(wire.enc(model), None if ms == -1 else ms == 1, is_ == 1)

    # ---- generation ---------------------------------------------------------------------------------------
    def cases(self, tier, rng):
        quick = tier == "quick"
        n_pairs = 150 if quick else 5000
        sweep_budget = 2500 if quick else 25000
        n_built, skipped = 0, {}
        seen_stacks = set()
        t0 = time.time()
        while n_built < n_pairs:
            desc = gen_desc(rng, STACKS)
            res, why = self._sar_case(desc, rng=rng, max_calls=rng.randint(6, 16))
            if res is None:
                skipped[why[:60]] = skipped.get(why[:60], 0) + 1
                if sum(skipped.values()) > 20 * n_pairs + 200:
                    raise RuntimeError("generator keeps producing unusable stacks: " + json.dumps(skipped))
                continue
            case, ucase, pair = res
            n_built += 1
            yield case
            sk = "+".join(desc["stack"]) + desc["sim"]["type"]
            if sk not in seen_stacks or rng.random() < 0.1:
                seen_stacks.add(sk)
                yield ucase
            used = 0
            for d in self._sweeps(rng, case.desc, pair, min(sweep_budget, 600)):
                r2, _ = self._sar_case(d, report=True)
                if r2 is not None:
                    used += 1
                    yield r2[0]
            sweep_budget -= used
        t1 = time.time()
        self._report.notes["twin_pairs"] = n_built
        self._report.notes["skipped_stacks"] = skipped
        yield from self._corridor_sweep(rng)
        t2 = time.time()
        yield from self._actor_cases(rng, 120 if quick else 3000, 2500 if quick else 60000)
        t3 = time.time()
        yield from self._excl_cases(rng, 60 if quick else 1500)
        yield from self._ood_cases(rng)
        self._report.notes["phase_seconds_incl_driver"] = {
            "twin pairs + sweeps": round(t1 - t0, 1), "corridor sweep": round(t2 - t1, 1),
            "actors": round(t3 - t2, 1), "exclusive + ood": round(time.time() - t3, 1)}

    def _corridor_sweep(self, rng):
        """MultiCorridor: every action value of every agent from several common states, for each wrapper"""
        for stack in (["ravel"], ["flatten"], ["flattenAction"]):
            for rep in range(2):
                sim = {"type": "corridor", "end": 5 + rep, "n": 3}
                tape = [rng.randrange(1000) for _ in range(40)]
                for a in range(3):
                    for v in range(3):
                        act = v if stack == ["ravel"] else {"i": [v]}
                        calls = [["r"]] + [["o", f"agent{i}"] for i in range(3)] + \
                                [["s", [[f"agent{(a + 1) % 3}", 1 if stack == ["ravel"] else {"i": [1]}]]],
                                 ["s", [[f"agent{a}", act]]]] + \
                                [["o", f"agent{i}"] for i in range(3)] + [["w", f"agent{a}"], ["d", f"agent{a}"], ["ad"]]
                        d = {"sim": sim, "stack": stack, "layer": 0, "tape": tape, "calls": calls, "sweep": True}
                        res, why = self._sar_case(d)
                        if res is not None:
                            yield res[0]

    def _actor_cases(self, rng, n_worlds, budget):
        kinds = list(MOVERS) + list(ATTACKERS) + ["chan"]
        for wi in range(n_worlds):
            kind = kinds[wi % len(kinds)]
            world = gridw.gen_world(rng, max_side=4, max_agents=5, kinds=actor_kinds, dead_prob=0.1)
            if rng.random() < 0.3:
                # twins: two (or three) agents of exactly the same kind, sharing one action-space container
                k = rng.randrange(len(world["agents"]))
                for _ in range(rng.randint(1, 2)):
                    if len(world["agents"]) < 6:
                        world["agents"].append(dict(world["agents"][k], init_pos=None))
                        if world.get("state") is not None:
                            occ = {tuple(s["pos"]) for s in world["state"] if s["health"][0] > 0}
                            free = [(r, c) for r in range(world["rows"]) for c in range(world["cols"]) if (r, c) not in occ]
                            if free and world["state"][k]["health"][0] > 0:
                                world["state"].append(dict(world["state"][k], pos=list(rng.choice(free))))
                            else:
                                world["state"].append(dict(world["state"][k], health=[0, 1]))
                world["shared_aspace"] = True
            encs = sorted({a["enc"] for a in world["agents"]})
            desc = {"op": "wactor", "world": world, "actor": kind, "tape": [rng.randrange(1000) for _ in range(60)]}
            if kind in ATTACKERS:
                desc["mapping"] = [[e, sorted(rng.sample(encs, rng.randint(1, len(encs))))] for e in encs]
                desc["stacked"] = rng.random() < 0.3
            wraps = [["ravel"]]
            if kind == "encoding":
                wraps = [["excl"], ["excl"], ["ravel"]]
            if kind == "chan":
                desc["space"] = gen_excl_space(rng, 200)
                wraps = [["excl"], ["excl"], ["ravel"], ["ravel", "excl"]]
            if kind in ("cross", "binary") and rng.random() < 0.3:
                wraps = [["ravel", "ravel"]]
            desc["wrap"] = rng.choice(wraps)
            # the size of every agent's wrapped channel (real objects, built once to read it)
            try:
                probe_w = gridw.RealWorld(copy.deepcopy(world))
                actor = make_actor(kind, probe_w, desc)
                wr = actor
                for name in reversed(desc["wrap"]):
                    wr = AWRAP[name](wr)
            except Exception:  # noqa: BLE001  (e.g. an attack mapping the world cannot satisfy)
                continue
            for a, ag in enumerate(probe_w.agent_list):
                if not ag.active:
                    continue
                if not actor._supported_agent(ag):
                    if rng.random() < 0.5:
                        c = self._actor_case(dict(desc, agent=a, k=0))
                        if c is not None:
                            yield c
                    continue
                fs = wr.from_space[ag.id]
                sdf = space_desc(fs)
                if sdf is None or spc.py_card(sdf) >= 2 ** 63:
                    continue
                n = int(ag.action_space[actor.key].n)
                if n <= SWEEP and n <= budget:
                    ks = range(n)
                    budget -= n
                else:
                    ks = sorted(x for x in ({0, 1, n - 1} | {rng.randrange(n) for _ in range(6)}) if 0 <= x < n)
                for k in ks:
                    c = self._actor_case(dict(desc, agent=a, k=int(k), reuse=(int(k) + a) % 3 == 0))
                    if c is not None:
                        if c.desc.get("reuse"):
                            c.tags.append("action-dict-reused")
                        yield c

    def _excl_cases(self, rng, n_spaces):
        fixed = [["dict", [["a", ["d", 2, 0]]]],
                 ["dict", [["b", ["d", 1, 0]], ["a", ["d", 3, 0]], ["c", ["d", 1, 0]]]],
                 ["dict", [[1, ["d", 2, 0]], [2, ["d", 2, 0]], [3, ["d", 2, 0]]]],
                 ["dict", [["z", ["md", [2, 3]]], ["a", ["dict", [["y", ["mb", 2]], ["x", ["d", 2, 0]]]]], ["m", ["d", 1, 0]]]]]
        for i in range(n_spaces + len(fixed)):
            sd = fixed[i] if i < len(fixed) else gen_excl_space(rng)
            dims = sum(spc.py_card(c) for _, c in sd[1]) - len(sd[1]) + 1
            yield self._excl_case({"op": "wexcl", "sub": "dims", "space": sd})
            decoded = set()
            for k in range(dims):
                c = self._excl_case({"op": "wexcl", "sub": "dec", "space": sd, "k": k})
                decoded.add(c.impl)
                yield c
            valid = list(valid_excl_points(sd))
            for p in valid:
                yield self._excl_case({"op": "wexcl", "sub": "enc", "space": sd, "point": p})
            # runtime cross-check on the real code alone: the decoded actions are exactly the independently
            # enumerated at-most-one-channel actions
            want = {json.dumps(spc.pt_wire(sd, p)) for p in valid}
            got = set()
            for k in range(dims):
                try:
                    got.add(json.dumps(canon_point(sd, ExclusiveChannelActionWrapper.wrap_point(None, spc.to_gym(sd), k))))
                except Exception:  # noqa: BLE001
                    got.add("raised")
            if (want != got or len(valid) != dims) and self._report is not None:
                self._report.runtime_failure(
                    "the exclusive-channel wrap_point over range(dims) does not enumerate exactly the actions that use "
                    "at most one channel", {"space": sd, "dims": dims, "valid": len(valid),
                                            "missing": sorted(want - got)[:3], "extra": sorted(got - want)[:3]})
            # a few actions using several channels (outside the bijection; model == implementation all the same)
            if len(sd[1]) > 1:
                for _ in range(3):
                    yield self._excl_case({"op": "wexcl", "sub": "enc", "space": sd, "point": spc.random_point(rng, sd),
                                           "ood": "multi-channel"})

    def _ood_cases(self, rng):
        """K6: keyword arguments of get_obs / get_reward do not reach the wrapped simulation"""
        for d in list(k6_descs()) + list(undecodable_descs()):
            res, why = self._sar_case(d, report=False)
            if res is not None:
                res[0].tags.append("ood:" + d["ood"])
                yield res[0]

    def extra_checks(self, tier, rng, report):
        seen = set()
        for what, desc in self._report.failures:
            kind = what.split(":")[0]
            if kind not in seen:               # one replay file (and one VIOLATION line) per kind of failure
                seen.add(kind)
                report.runtime_failure(what, desc)
        report.notes.update(self._report.notes)
        report.notes["runtime_checks"] = ("deep-copy snapshots (before wrapping / after wrapping / after stepping) and "
                                          "`unwrapped is innermost` on every twin pair; exclusive-channel enumeration "
                                          "against an independent enumeration; failures: %d" % len(self._report.failures))

    def finding_matchers(self):
        def k6(case, v):
            """only the entries whose call carried a keyword argument disagree, on a keyword-sensitive simulation, and
            there the wrapper returned the encoding of the observation / the reward obtained WITHOUT the keyword"""
            d = case.desc
            if d.get("op", "wsar") != "wsar" or not d["sim"].get("kw") or d.get("ood") != "K6":
                return False
            kw = [t for t in case.tags if t.startswith("kwcalls:")]
            if not kw:
                return False
            kwcalls = {int(x) for x in kw[0][8:].split(",")}
            impl, model = wire.dec(case.impl), wire.dec(v.model)
            if impl[0] != model[0] or len(impl[1]) != len(model[1]):
                return False
            diff = {i for i, (a, b) in enumerate(zip(impl[1], model[1])) if a != b}
            if not diff or not diff <= kwcalls:
                return False
            # on those entries: same kind of value, only the value differs, states still equal
            for i in diff:
                a, b = impl[1][i], model[1][i]
                if a[0][0] not in ("o", "w") or b[0][0] != a[0][0] or a[1:] != b[1:]:
                    return False
            return True
        return {"K6": k6}

    def shrink_candidates(self, desc):
        if desc.get("op", "wsar") != "wsar":
            return
        calls = desc["calls"]
        for k in range(len(calls) - 1, 0, -1):
            yield dict(desc, calls=calls[:k])
        for k in range(1, len(calls)):
            yield dict(desc, calls=calls[:k] + calls[k + 1:])


def k6_descs():
    script = {"n": 2, "learning": [True, True], "doneAt": [9, 9], "finishAt": 9, "noms": []}
    sp = [["d", 2, 0], ["md", [3, 3]]]
    obs = [["a", [1, 0]], ["a", [1, 2]], ["a", [0, 1]]]
    sim = {"type": "stub", "script": script, "spaces": [sp, sp], "obs": [obs, obs], "kw": True}
    ids = ["z0", "w1_"]
    # direct: get_obs(agent, shift=1) / get_reward(agent, bonus=5) on the ravel- and flatten-wrapped stub
    for kind in ("ravel", "flatten"):
        act = 1 if kind == "ravel" else {"i": [1]}
        yield {"sim": sim, "stack": [kind], "layer": 0, "ood": "K6",
               "calls": [["r"], ["o", ids[0]], ["o", ids[0], {"shift": 1}], ["s", [[ids[0], act]]],
                         ["w", ids[0], {"bonus": 5}], ["o", ids[1], {"shift": 2}]]}
    # the documented stack: CommunicationHandshakeWrapper around RavelDiscreteWrapper; a0 sends, a1 receives
    send = {"d": [["action", 1], ["send", {"d": [[ids[1], 1]]}], ["receive", {"d": [[ids[1], 0]]}]]}
    recv = {"d": [["action", 0], ["send", {"d": [[ids[0], 0]]}], ["receive", {"d": [[ids[0], 1]]}]]}
    yield {"sim": sim, "stack": ["comm", "ravel"], "layer": 1, "ood": "K6",
           "calls": [["r"], ["s", [[ids[0], send]]], ["s", [[ids[1], recv]]], ["o", ids[1]], ["o", ids[0]]]}


def undecodable_descs():
    """actions outside the wrapped action space: a number >= n of a nested space (numpy refuses it), an action for an
    entity that is no learning agent -- the wrapper must raise before the wrapped simulation is touched (also when an
    earlier action of the same dictionary was decodable); a number >= n of a plain Discrete space is passed through
    unchanged (as `unravel` does).  (Flat arrays of a wrong length are not sent: the wire form of a point carries the
    shape of its space.)"""
    script = {"n": 3, "learning": [True, False, True], "doneAt": [9, 9, 9], "finishAt": 9, "noms": []}
    act0 = ["tup", [["d", 3, 0], ["mb", 1]]]
    ob0 = ["dict", [["b", ["d", 2, 0]], ["a", ["box", [2], [-1, 0], [1, 1], 1]]]]
    sp = [[act0, ob0], None, [["d", 4, 0], ["md", [2, 2]]]]
    obs = [[["m", [["a", ["a", [-1, 1]]], ["b", ["s", 1]]]], ["m", [["b", ["s", 0]], ["a", ["a", [1, 0]]]]]], [],
           [["a", [1, 1]], ["a", [0, 1]]]]
    sim = {"type": "stub", "script": script, "spaces": sp, "obs": obs}
    ids = ["z0", "w1_", "x2__"]
    yield {"sim": sim, "stack": ["ravel"], "layer": 0, "ood": "undecodable",
           "calls": [["r"], ["o", ids[0]], ["s", [[ids[0], 5], [ids[2], 3]]], ["s", [[ids[0], 6]]], ["s", [[ids[2], 9]]],
                     ["s", [[ids[2], 1], [ids[0], 77]]], ["s", [[ids[1], 0]]], ["o", ids[2]], ["w", ids[0]], ["w", ids[2]]]}
    yield {"sim": sim, "stack": ["flatten"], "layer": 0, "ood": "undecodable",
           "calls": [["r"], ["s", [[ids[0], {"i": [2, 1]}]]], ["s", [[ids[1], {"i": [0]}]]], ["o", ids[0]], ["w", ids[0]],
                     ["s", [[ids[2], {"i": [3]}], [ids[1], {"i": [0]}]]], ["w", ids[2]]]}
    yield {"sim": sim, "stack": ["flattenAction"], "layer": 0, "ood": "undecodable",
           "calls": [["r"], ["s", [[ids[2], {"i": [3]}], [ids[1], {"i": [0]}]]], ["o", ids[2]], ["w", ids[2]],
                     ["s", [[ids[2], {"i": [3]}]]], ["w", ids[2]]]}
