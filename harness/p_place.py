"""C13 — placement at reset and the maze generator: per-call refinement of the real
PositionState / TargetBarriersFreePlacementState / MazePlacementState `reset()` and of
`generate_maze()` under the scripted oracle tape, against the Lean model (`gplace` / `gmaze`).

A case description is
  {"op": "place", "world": <gridw description, optional "state" = dirty prior world>,
   "kind": "position"|"target"|"maze",
   "opts": {"no", "rand", "cluster", "scatter", "target", "by_id", "barrier", "free"},
   "tapes": [[..], ..],      one oracle tape per reset, the resets run in a row on ONE state object
   "which": k}               the reset that is judged (resets 0..k-1 only produce its prior world)
or {"op": "maze", "rows", "cols", "start": [r, c], "tape": [..]}.
"""
import copy
import itertools
import json
import signal

import compat  # noqa: F401
import numpy as np

import core
import gridw
import poke
import oracle
import wire

import abmarl.sim.gridworld.utils as gu
from abmarl.sim.gridworld.state import (
    PositionState, TargetBarriersFreePlacementState, MazePlacementState
)

KINDS = ["position", "target", "maze"]
PARTS = ["spec", "static", "vitals", "posInv", "fixedOnInit", "aloneFinal", "maze", "replay"]


class OrderedSet:
    """insertion-ordered de-duplicating stand-in for `set` inside gridworld.utils (DESIGN.md §3):
    `generate_maze` only builds it from a list and iterates it (`list(set(xs))`)."""

    def __init__(self, iterable=()):
        self._d = {}
        for x in iterable:
            self._d.setdefault(x, None)

    def __iter__(self):
        return iter(self._d)

    def __len__(self):
        return len(self._d)

    def __contains__(self, x):
        return x in self._d


class _Hang(Exception):
    pass


def _alarm(signum, frame):
    raise _Hang()


def guarded(fn, seconds=5.0):
    """run fn() under a watchdog; ('ok', value) | (error kind of the model's enum, text)"""
    old = signal.signal(signal.SIGALRM, _alarm)
    signal.setitimer(signal.ITIMER_REAL, seconds)
    try:
        return "ok", fn()
    except _Hang:
        return "hang", None
    except AssertionError as e:
        return "assertion", str(e)
    except RuntimeError as e:
        # the placement states raise RuntimeError for exactly one reason (no cell left for an agent); the wording
        # of the message is not part of the contract
        return "noCell", str(e)
    except KeyError as e:
        return "keyError", str(e)
    except IndexError as e:
        return "badIndex", str(e)
    except Exception as e:  # noqa: BLE001
        return "other", f"{type(e).__name__}: {e}"
    finally:
        signal.setitimer(signal.ITIMER_REAL, 0)
        signal.signal(signal.SIGALRM, old)


class _MazePatch:
    """while active: `set` inside gridworld.utils is the ordered set, and every call of
    `generate_maze` is recorded (arguments, tape at the call, result)"""

    def __init__(self, tape, log):
        self.tape, self.log = tape, log

    def __enter__(self):
        self.had_set = "set" in gu.__dict__
        self.old_set = gu.__dict__.get("set")
        self.real = gu.generate_maze
        gu.set = OrderedSet
        real, tape, log = self.real, self.tape, self.log

        def recording(rows, cols, start=None):
            rest = list(tape.values[tape.pos:])
            entry = [int(rows), int(cols), [int(start[0]), int(start[1])], rest, ["err", "other"]]
            log.append(entry)
            try:
                val = real(rows, cols, start)
            except AssertionError:
                entry[4] = ["err", "assertion"]
                raise
            except IndexError:
                entry[4] = ["err", "badIndex"]
                raise
            entry[4] = maze_out("ok", val)
            return val
        gu.generate_maze = recording
        return self

    def __exit__(self, *exc):
        gu.generate_maze = self.real
        if self.had_set:
            gu.set = self.old_set
        else:
            del gu.set
        return False


def maze_out(st, val):
    if st == "ok":
        return ["ok", [int(x) for x in np.asarray(val).reshape(-1)]]
    return ["err", st]


def run_maze(rows, cols, start, tape):
    """the real generate_maze under the tape; returns the outcome wire"""
    tp = oracle.Tape(tape)
    log = []
    with oracle.scripted(tp), _MazePatch(tp, log):
        st, _ = guarded(lambda: gu.generate_maze(rows, cols, np.array(start)))
    if st == "hang":
        return ["err", "hang"]
    return log[0][4]


def opts_wire(kind, o):
    return [kind, bool(o["no"]), bool(o["rand"]), bool(o["cluster"]), bool(o["scatter"]), int(o["target"]),
            sorted(int(e) for e in o["barrier"]), sorted(int(e) for e in o["free"])]


class PlaceSession:
    """a real placement state over a real grid; resets run one after the other on the same object"""

    def __init__(self, world, kind, o):
        self.w = gridw.RealWorld(world)
        self.kind, self.o = kind, o
        kw = dict(grid=self.w.grid, agents=self.w.agents, no_overlap_at_reset=bool(o["no"]),
                  randomize_placement_order=bool(o["rand"]))
        if kind == "position":
            self.state = PositionState(**kw)
        else:
            tgt = self.w.agent_list[o["target"]]
            cls = TargetBarriersFreePlacementState if kind == "target" else MazePlacementState
            self.state = cls(target_agent=tgt.id if o.get("by_id") else tgt,
                             barrier_encodings=set(o["barrier"]), free_encodings=set(o["free"]),
                             cluster_barriers=bool(o["cluster"]), scatter_free_agents=bool(o["scatter"]), **kw)
        self.stat = self.w.stat_wire()
        poke.rejected(self.state, [world, kind, o])
        poke.rejected(self.w.grid, [kind, o, world], only={"overlapping"})

    def set_target_ipos(self, pos):
        """re-assign the target agent's initial position through the public setter (between resets)"""
        tgt = self.w.agent_list[self.o["target"]]
        cur = tgt.initial_position
        self._ipos_calls = getattr(self, "_ipos_calls", 0) + 1
        if pos is not None and isinstance(cur, np.ndarray) and cur.shape == (2,) and self._ipos_calls % 2 == 0:
            # every other time the configured array is EDITED IN PLACE (`agent.initial_position[:] = ...`, `+= delta`):
            # the same object with other numbers; what a component derived from the old numbers must not survive
            cur[:] = pos
        else:
            tgt.initial_position = None if pos is None else np.array(pos)
        self.stat = self.w.stat_wire()

    def set_flags(self, o):
        """switch the four options on the live state object through its public setters"""
        self.state.no_overlap_at_reset = bool(o["no"])
        self.state.randomize_placement_order = bool(o["rand"])
        if self.kind != "position":
            self.state.cluster_barriers = bool(o["cluster"])
            self.state.scatter_free_agents = bool(o["scatter"])
        self.o = o
        self._pokes = getattr(self, "_pokes", 0) + 1
        poke.rejected(self.state, [o, self._pokes, self.kind])

    def reset(self, tape):
        """returns (pre_dyn, outcome_wire, recorded generate_maze calls)"""
        pre = self.w.dyn_wire()
        tp = oracle.Tape(tape)
        mazes = []
        with oracle.scripted(tp), _MazePatch(tp, mazes):
            st, val = guarded(self.state.reset)
        post = self.w.dyn_wire()
        out = ["ok", post] if st == "ok" else ["err", st, post]
        return pre, out, mazes


# ----------------------------------------------------------------------------------------------
# generators

def sym_has(sym, a, b):
    return a in sym and b in sym[a]


def py_wf(world, kind, o):
    """mirror of wfPlacement's clause for finding C13-K1 (the rest holds by construction)"""
    if kind == "position" or not o["no"]:
        return True
    ags = world["agents"]
    if ags[o["target"]].get("init_pos") is not None:
        return True
    sym = gridw.closed(world["overlap"])
    te = ags[o["target"]]["enc"]
    return not any(i != o["target"] and a.get("init_pos") is not None and sym_has(sym, a["enc"], te)
                   for i, a in enumerate(ags))


def dirty_state(rng, world):
    rows, cols = world["rows"], world["cols"]
    sym = gridw.closed(world["overlap"])
    occ, state = {}, []
    for a in world["agents"]:
        health = rng.choice([[1, 1], [1, 2], [3, 4], [1, 1024]])
        if rng.random() < 0.25:
            health = [0, 1]
        pos = None
        if health[0] > 0:
            for _ in range(20):
                p = (rng.randrange(rows), rng.randrange(cols))
                if gridw.may_join(sym, a["enc"], occ.get(p, [])):
                    pos = p
                    break
            if pos is None:
                health = [0, 1]
        if pos is None:
            pos = (rng.randrange(rows), rng.randrange(cols))
        else:
            occ.setdefault(pos, []).append(a["enc"])
        state.append({"pos": list(pos), "health": health, "ammo": 0, "orient": 1})
    return state


def gen_tape(rng, n, rows, cols, short=False):
    ln = 2 * n + 2 + (rows + 2) * (cols + 2) + 4
    if short:
        ln = rng.randint(0, n + 2)
    return [rng.randrange(1000) for _ in range(ln)]


def gen_case(rng, max_side=6, combo=None):
    """a random well-formed reset description (without "which")"""
    big = rng.random() < 0.05          # what the small scopes never reach: 10+ rows / columns / agents / encodings
    if big:
        rows, cols = rng.randint(9, 13), rng.randint(7, 12)
    elif rng.random() < 0.35:
        rows, cols = rng.randint(1, 3), rng.randint(1, 3)
    else:
        rows, cols = rng.randint(1, max_side), rng.randint(1, max_side)
    cap = rows * cols
    encs = rng.choice([[1], [1, 2], [1, 2], [1, 2, 3], [1, 2, 3], [2, 3], [1, 3]])
    if big:
        encs = list(range(1, rng.randint(4, 12)))
    overlap = gridw.gen_overlap(rng, encs)
    r = rng.random()
    if big:
        n = rng.randint(10, 24)
    elif r < 0.45:
        n = rng.randint(1, min(cap + 2, 5))
    elif r < 0.75:
        n = rng.randint(1, min(cap + 2, 12))
    else:
        n = rng.randint(max(1, cap - 2), cap + 2)
    pfix = rng.choice([0.0, 0.0, 0.15, 0.4, 1.0])
    agents = []
    for i in range(n):
        a = {"enc": rng.choice(encs)}
        if rng.random() < pfix:
            if agents and rng.random() < 0.2:
                prev = [b["init_pos"] for b in agents if b.get("init_pos") is not None]
                a["init_pos"] = list(rng.choice(prev)) if prev else [rng.randrange(rows), rng.randrange(cols)]
            else:
                a["init_pos"] = [rng.randrange(rows), rng.randrange(cols)]
        agents.append(a)
    world = {"rows": rows, "cols": cols, "overlap": overlap, "agents": agents}
    kind = rng.choice(KINDS)
    if combo is None:
        combo = rng.randrange(16)
    o = {"no": bool(combo & 1), "rand": bool(combo & 2), "cluster": bool(combo & 4), "scatter": bool(combo & 8),
         "target": 0, "by_id": False, "barrier": [], "free": []}
    if kind != "position":
        t = rng.randrange(n)
        o["target"] = t
        o["by_id"] = rng.random() < 0.5
        tr = rng.random()
        if tr < 0.45:
            agents[t]["init_pos"] = [rng.randrange(rows), rng.randrange(cols)]
        elif tr < 0.9:
            agents[t].pop("init_pos", None)
        if agents[t].get("init_pos") is not None and n > 1 and rng.random() < 0.25:
            # a fixed position colliding with the target
            j = rng.choice([x for x in range(n) if x != t])
            agents[j]["init_pos"] = list(agents[t]["init_pos"])
        present = sorted({a["enc"] for a in agents})
        for e in present:
            if rng.random() < 0.04:
                continue                       # not covered: reset must raise the assertion
            (o["barrier"] if rng.random() < 0.5 else o["free"]).append(e)
    if rng.random() < 0.3:
        world["state"] = dirty_state(rng, world)
    nres = rng.choice([1, 2, 2, 3])
    tapes = [gen_tape(rng, n, rows, cols, short=rng.random() < 0.05) for _ in range(nres)]
    return {"op": "place", "world": world, "kind": kind, "opts": o, "tapes": tapes}


SMALL_WORLDS = [
    # (rows, cols, overlap, agents)
    (1, 1, [], [{"enc": 1}]),
    (1, 1, [[1, [1]]], [{"enc": 1}, {"enc": 1}]),
    (1, 2, [], [{"enc": 1}, {"enc": 2}, {"enc": 1}]),
    (1, 2, [[1, [2]]], [{"enc": 1, "init_pos": [0, 1]}, {"enc": 2}, {"enc": 1}]),
    (2, 2, [], [{"enc": 1}, {"enc": 2}, {"enc": 2}]),
    (2, 2, [[2, [2]]], [{"enc": 2, "init_pos": [1, 0]}, {"enc": 1}, {"enc": 2}]),
    (2, 2, [[1, [1, 2]]], [{"enc": 1}, {"enc": 2, "init_pos": [0, 0]}, {"enc": 1, "init_pos": [0, 0]}]),
    (2, 3, [[1, [2]]], [{"enc": 1, "init_pos": [0, 1]}, {"enc": 2}, {"enc": 1}]),
    (3, 3, [], [{"enc": 1}, {"enc": 2}, {"enc": 2}, {"enc": 1}]),
]


def small_cases(quick):
    """exhaustive: small worlds x 3 kinds x 16 option combinations x all tapes over a small alphabet"""
    worlds = SMALL_WORLDS[:7] if quick else SMALL_WORLDS
    alphabet = (0, 1, 3) if quick else (0, 1, 2, 3)
    ln = 3 if quick else 4
    for rows, cols, ov, ags in worlds:
        for kind in KINDS:
            for combo in range(16):
                if kind == "position" and combo >= 4:
                    continue
                encs = sorted({a["enc"] for a in ags})
                o = {"no": bool(combo & 1), "rand": bool(combo & 2), "cluster": bool(combo & 4),
                     "scatter": bool(combo & 8), "target": 0, "by_id": bool(combo & 1),
                     "barrier": encs[1:] if len(encs) > 1 else [], "free": encs[:1]}
                if kind != "position" and len(encs) == 1 and combo & 4:
                    o["barrier"], o["free"] = encs, []
                world = {"rows": rows, "cols": cols, "overlap": ov, "agents": copy.deepcopy(ags)}
                for tp in itertools.product(alphabet, repeat=ln):
                    # the drawn prefix is repeated so that later draws vary as well
                    tape = list(tp) * 6
                    yield {"op": "place", "world": world, "kind": kind, "opts": o, "tapes": [tape, tape[1:]],
                           "stream": "small"}


class PlaceProp(core.Prop):
    pid = "C13"
    lean_targets = ["Abmarl.Props.C13"]
    rule = ("every real reset() of PositionState / TargetBarriersFreePlacementState / MazePlacementState under a "
            "scripted oracle tape is one case (pre-world, options, tape, outcome incl. the grid an exception leaves "
            "behind); every real generate_maze() call (direct, and intercepted inside MazePlacementState.reset) is one "
            "case. Exhaustive part: small worlds (1x1..3x3, <=4 agents) x 3 states x 16 option combinations x all "
            "tapes over a small alphabet, two resets in a row; generate_maze for every start of every grid up to 6x6 "
            "(quick) / 10x10 (thorough). Random part: grids 1x1..6x6, 1..capacity+2 agents, overlap tables incl. "
            "self-overlap and one-sided, mixed fixed/free positions incl. clashes and collisions with the target, "
            "target with/without initial position (by object / by id), all 16 option combinations, uncovered "
            "encodings, 1-3 resets on the same state object, dirty prior worlds (moved/dead agents), short tapes. "
            "distinct by (static world, prior world, options, tape); non-trivial = some agent is placed freely or "
            "the reset fails (maze: more than one cell)")
    rule += ("; " + "histories on one state object: options switched and the target's initial position re-assigned through the setters between resets; a share of BIG worlds (9..13 rows, 10..24 agents, up to 11 encodings) and grids with two-digit coordinates")
    assumptions = [
        "np.linalg.norm as sort key is modelled by the squared integer distance (same order)",
        "list(set(..)) in generate_maze iterates in insertion order (ordered set injected into gridworld.utils)",
        "numpy.random / random.shuffle are the scripted oracle tape; theorems quantify over all tapes",
        "inputs are well-formed (wfPlacement): initial positions inside the grid, positive encodings for "
        "PositionState, barrier/free encodings disjoint; the excluded point of the no-overlap clause is finding C13-K1",
    ]

    # ---- building cases ---------------------------------------------------------------------
    def _place_case(self, desc, sess, pre, out, tape, which):
        kind, o = desc["kind"], desc["opts"]
        if desc.get("opt_seq"):
            o = desc["opt_seq"][which]
        ow = opts_wire(kind, o)
        line = wire.enc(["gplace", sess.stat, pre, ow, list(tape), out])
        d = dict(desc)
        d["which"] = which
        if desc.get("ipos_seq"):
            # what follows looks at the world as it is for THIS reset
            w2 = copy.deepcopy(desc["world"])
            ip = desc["ipos_seq"][which]
            if ip is None:
                w2["agents"][o["target"]].pop("init_pos", None)
            else:
                w2["agents"][o["target"]]["init_pos"] = list(ip)
            desc = dict(desc, world=w2)
        tags = [kind, "stream:" + desc.get("stream", "random"), "reset#%d" % which,
                "ok" if out[0] == "ok" else "err:" + out[1],
                "opts:%d%d%d%d" % (o["no"], o["rand"], o["cluster"], o["scatter"])]
        ags = desc["world"]["agents"]
        n = len(ags)
        if n > desc["world"]["rows"] * desc["world"]["cols"]:
            tags.append("over-capacity")
        if desc["world"].get("state") is not None and which == 0:
            tags.append("dirty-prior")
        free = [i for i, a in enumerate(ags)
                if a.get("init_pos") is None and not (kind != "position" and i == o["target"])]
        if desc.get("opt_seq") and which > 0 and desc["opt_seq"][which] != desc["opt_seq"][which - 1]:
            tags.append("options-switched-on-live-state")
        if not py_wf(desc["world"], kind, o):
            tags.append("ood:K1")
        if out[0] == "ok" and self._k1_shape(dict(desc, opts=o), out[1]):
            tags.append("k1-shape")
        nontrivial = bool(free) or out[0] != "ok"
        return core.Case(d, line, wire.enc(out), key=json.dumps([sess.stat, pre, ow, list(tape)]),
                         nontrivial=nontrivial, tags=tags)

    @staticmethod
    def _k1_shape(desc, post):
        """no-overlap on, target placed at random, and an agent with an initial position stands on the target's cell"""
        kind, o = desc["kind"], desc["opts"]
        ags = desc["world"]["agents"]
        if kind == "position" or not o["no"] or ags[o["target"]].get("init_pos") is not None:
            return False
        cells, sts = post
        tp = sts[o["target"]][0]
        cell = cells[tp[0] * desc["world"]["cols"] + tp[1]]
        return o["target"] in cell and any(b != o["target"] and ags[b].get("init_pos") == tp for b in cell)

    def _maze_case(self, rows, cols, start, tape, out, origin="direct"):
        line = wire.enc(["gmaze", rows, cols, list(start), list(tape), out])
        d = {"op": "maze", "rows": rows, "cols": cols, "start": list(start), "tape": list(tape)}
        return core.Case(d, line, wire.enc(out), key=json.dumps(["maze", rows, cols, list(start), list(tape)]),
                         nontrivial=rows * cols > 1, tags=["generate_maze", "maze:" + origin,
                                                            "maze-ok" if out[0] == "ok" else "maze-err:" + out[1]])

    def _run_desc(self, desc, upto=None):
        """run the resets of a description in a row; yields (which, sess, pre, out, tape, mazes)"""
        sess = PlaceSession(copy.deepcopy(desc["world"]), desc["kind"], desc["opts"])
        for k, tape in enumerate(desc["tapes"]):
            if upto is not None and k > upto:
                break
            if desc.get("opt_seq"):
                sess.set_flags(desc["opt_seq"][k])          # options switched between resets of one object
            if desc.get("ipos_seq"):
                sess.set_target_ipos(desc["ipos_seq"][k])   # the target's initial position re-assigned
            pre, out, mazes = sess.reset(tape)
            yield k, sess, pre, out, tape, mazes

    def case_from_desc(self, d):
        if d.get("op") == "maze":
            out = run_maze(d["rows"], d["cols"], d["start"], d["tape"])
            return self._maze_case(d["rows"], d["cols"], d["start"], d["tape"], out)
        which = d.get("which", len(d["tapes"]) - 1)
        base = {k: v for k, v in d.items() if k != "which"}
        last = None
        for k, sess, pre, out, tape, mazes in self._run_desc(base, upto=which):
            last = self._place_case(base, sess, pre, out, tape, k)
        return last

    def cases(self, tier, rng):
        quick = tier == "quick"
        # 1. exhaustive small scopes
        for desc in small_cases(quick):
            for k, sess, pre, out, tape, mazes in self._run_desc(desc):
                yield self._place_case(desc, sess, pre, out, tape, k)
        # 2. generate_maze directly: every start of every grid
        side = 6 if quick else 10
        for rows in range(1, side + 1):
            for cols in range(1, side + 1):
                for r0 in range(rows):
                    for c0 in range(cols):
                        for rep in range(2 if quick else 3):
                            tape = [rng.randrange(1000) for _ in range((rows + 2) * (cols + 2) + 2)]
                            if rep == 1:
                                tape = tape[:rng.randint(0, 6)]       # short tape: the rest reads as 0
                            yield self._maze_case(rows, cols, [r0, c0], tape, run_maze(rows, cols, [r0, c0], tape))
        # 2'. what the small scopes never reach: two-digit coordinates; the target's initial position is re-assigned
        #     between resets of one state object to cells whose coordinates read alike ((11, 1) and (1, 11))
        for _ in range(6 if quick else 100):
            rows, cols = rng.randint(12, 14), rng.randint(12, 14)
            z = rng.randint(0, min(9, cols - 11))
            p2, p1 = [11, z], [1, 10 + z]
            n = rng.randint(3, 8)
            agents = [{"enc": rng.choice([1, 2, 3])} for _ in range(n)]
            kind = rng.choice(["target", "maze"])
            combo = rng.choice([4, 8, 12, 5, 9, 13])
            o = {"no": bool(combo & 1), "rand": False, "cluster": bool(combo & 4), "scatter": bool(combo & 8),
                 "target": 0, "by_id": False, "barrier": [], "free": []}
            for e in sorted({a["enc"] for a in agents}):
                (o["barrier"] if rng.random() < 0.5 else o["free"]).append(e)
            agents[0]["init_pos"] = p2
            seq = [p2, p1, p2, rng.choice([p1, None])]
            desc = {"op": "place", "world": {"rows": rows, "cols": cols, "overlap": gridw.gen_overlap(rng, [1, 2, 3]),
                                             "agents": agents},
                    "kind": kind, "opts": o, "ipos_seq": seq, "stream": "two-digit",
                    "tapes": [gen_tape(rng, n, rows, cols) for _ in seq]}
            for k, sess, pre, out, tape, mazes in self._run_desc(desc):
                yield self._place_case(desc, sess, pre, out, tape, k)

        # 3. seeded random resets
        target = 2000 if quick else 60000
        done = 0
        combo = 0
        while done < target:
            desc = gen_case(rng, combo=combo % 16)
            combo += 1
            if rng.random() < 0.4:
                # the options are switched through the setters between resets of the same state object
                if len(desc["tapes"]) < 2:
                    desc["tapes"] = desc["tapes"] + [[rng.randrange(1000) for _ in range(len(desc["tapes"][0]))]]
                seq = [dict(desc["opts"])]
                for _ in desc["tapes"][1:]:
                    o2 = dict(seq[-1])
                    for f in rng.sample(["no", "rand", "cluster", "scatter"], rng.randint(1, 2)):
                        o2[f] = not o2[f]
                    seq.append(o2)
                desc["opt_seq"] = seq
            if any(not py_wf(desc["world"], desc["kind"], o) for o in desc.get("opt_seq", [desc["opts"]])) \
                    and rng.random() < 0.8:
                continue                       # keep the out-of-domain share (finding C13-K1) small
            for k, sess, pre, out, tape, mazes in self._run_desc(desc):
                yield self._place_case(desc, sess, pre, out, tape, k)
                done += 1
                for (mr, mc, ms, mt, mo) in mazes:
                    yield self._maze_case(mr, mc, ms, mt, mo, origin="in-reset")

    # ---- verdicts ---------------------------------------------------------------------------
    def interpret(self, reply, case):
        model, ms, is_ = reply
        if case.desc.get("op") == "maze":
            if is_[0] not in (0, 1):
                raise ValueError("driver could not parse the implementation's maze")
            return core.Verdict(wire.enc(model), ms[0] == 1, is_[0] == 1)
        if is_[0] not in (0, 1):
            raise ValueError("driver could not parse the implementation outcome")
        wf = ms[1] == 1
        if wf == ("ood:K1" in case.tags):
            raise ValueError("harness and driver disagree about well-formedness of the input")
        detail = dict(zip(PARTS, is_))
        # outside the hypothesis of the theorems the model's outcome is not required to satisfy the spec
        return core.Verdict(wire.enc(model), (ms[0] == 1) if wf else None, is_[0] == 1, detail)

    def finding_matchers(self):
        def k1(case, v):
            d = v.detail or {}
            return ("k1-shape" in case.tags and "ood:K1" in case.tags and v.impl_spec is False
                    and d.get("aloneFinal") == 0
                    and all(d.get(p) == 1 for p in PARTS[1:] if p != "aloneFinal"))
        return {"C13-K1": k1}

    def shrink_candidates(self, d):
        if d.get("op") == "maze":
            if len(d["tape"]) > 0:
                yield {**d, "tape": d["tape"][:len(d["tape"]) // 2]}
            return
        which = d.get("which", len(d["tapes"]) - 1)
        # fewer resets
        if which > 0:
            yield {**d, "tapes": d["tapes"][which:], "which": 0}
        # drop the dirty prior world
        if d["world"].get("state") is not None and which == 0:
            w = {k: v for k, v in d["world"].items() if k != "state"}
            yield {**d, "world": w}
        # drop one agent (not the target)
        ags = d["world"]["agents"]
        for i in reversed(range(len(ags))):
            if len(ags) <= 1 or (d["kind"] != "position" and i == d["opts"]["target"]):
                continue
            w = copy.deepcopy(d["world"])
            del w["agents"][i]
            if w.get("state") is not None:
                del w["state"][i]
            o = dict(d["opts"])
            if o["target"] > i:
                o["target"] -= 1
            present = {a["enc"] for a in w["agents"]}
            o["barrier"] = [e for e in o["barrier"] if e in present]
            o["free"] = [e for e in o["free"] if e in present]
            yield {**d, "world": w, "opts": o}
        # shorter / smaller tapes
        t = d["tapes"][which]
        if len(t) > 0:
            tapes = list(d["tapes"])
            tapes[which] = t[:len(t) // 2]
            yield {**d, "tapes": tapes}
        if any(v > 9 for v in t):
            tapes = list(d["tapes"])
            tapes[which] = [v % 10 for v in t]
            yield {**d, "tapes": tapes}
