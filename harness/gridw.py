"""Real grid worlds built from a JSON description, and their canonical dump (wire form of
lean/Abmarl/Model/GridWire.lean).

desc = {"rows", "cols", "overlap": [[enc, [encs]]...]  (raw table handed to Grid, may be one-sided),
        "agents": [ {enc, blocking, init_pos, init_health, moving, move_range, attacking,
                     attack_range, strength, accuracy, sim_attacks, has_ammo, init_ammo,
                     has_orient, init_orient, observing, view_range} ... ],
        "state":  [ {pos, health, ammo, orient} ... ] }         (optional: set directly)
Rationals are [num, den] with a power-of-two denominator (exact as floats).
"""
from fractions import Fraction

import compat  # noqa: F401
import numpy as np

from abmarl.sim.gridworld.grid import Grid
from abmarl.sim.gridworld.agent import (
    GridWorldAgent, GridObservingAgent, MovingAgent, AttackingAgent, AmmoAgent, OrientationAgent
)

_CLASS_CACHE = {}


def agent_class(moving, attacking, has_ammo, has_orient, observing):
    key = (moving, attacking, has_ammo, has_orient, observing)
    if key not in _CLASS_CACHE:
        bases = []
        if observing:
            bases.append(GridObservingAgent)
        if moving:
            bases.append(MovingAgent)
        if attacking:
            bases.append(AttackingAgent)
        if has_ammo:
            bases.append(AmmoAgent)
        if has_orient:
            bases.append(OrientationAgent)
        if not bases:
            bases.append(GridWorldAgent)
        _CLASS_CACHE[key] = type("VAgent_" + "".join(str(int(b)) for b in key), tuple(bases), {})
    return _CLASS_CACHE[key]


def fl(q):
    """[num, den] -> float (exact for dyadic) ; None -> None"""
    if q is None:
        return None
    return q[0] / q[1]


def fr(x):
    """number -> [num, den] exactly"""
    f = Fraction(x)
    return [f.numerator, f.denominator]


AG_DEFAULT = dict(enc=1, blocking=False, init_pos=None, init_health=None, moving=False, move_range=0,
                  attacking=False, attack_range=0, strength=[0, 1], accuracy=[1, 1], sim_attacks=1,
                  has_ammo=False, init_ammo=0, has_orient=False, init_orient=None, observing=False,
                  view_range=0)


def aid(i):
    """id of the i-th agent of a generated world; deliberately not in lexicographic order (see stub_sim.py)"""
    return f"{'zwxbyvcuat'[int(i) % 10]}{int(i)}"


def aidx(agent_id):
    return int(agent_id[1:])


def make_agent(i, a):
    a = {**AG_DEFAULT, **a}
    cls = agent_class(a["moving"], a["attacking"], a["has_ammo"], a["has_orient"], a["observing"])
    # ids deliberately not in lexicographic order (see stub_sim.py)
    # (a NEW int object per agent: equal encodings above 256 are then not the same object, as when computed per agent)
    kw = dict(id=aid(i), encoding=int(str(a["enc"])), blocking=a["blocking"])
    if a["init_pos"] is not None:
        kw["initial_position"] = np.array(a["init_pos"])
    if a["init_health"] is not None:
        kw["initial_health"] = fl(a["init_health"])
    if a["moving"]:
        kw["move_range"] = a["move_range"]
    if a["attacking"]:
        kw.update(attack_range=a["attack_range"], attack_strength=fl(a["strength"]),
                  attack_accuracy=fl(a["accuracy"]), simultaneous_attacks=a["sim_attacks"])
    if a["has_ammo"]:
        kw["initial_ammo"] = a["init_ammo"]
    if a["has_orient"]:
        kw["initial_orientation"] = a["init_orient"]
    if a["observing"]:
        kw["view_range"] = a["view_range"]
    return cls(**kw)


class RealWorld:
    """a real Grid with real agents; components are attached by the property modules"""

    def __init__(self, desc):
        self.desc = desc
        # (equal rows of a table share ONE set object, as when a caller writes `team = {1, 2}; {1: team, 2: team}`: the
        # grid keeps rows of its own, finding K19b)
        _rows = {}
        ov = {int(e): _rows.setdefault(frozenset(int(x) for x in s), set(int(x) for x in s)) for e, s in desc["overlap"]}
        if desc.get("overlap0") is not None:
            # a history: the grid was built with another table, which was then replaced through the public
            # `overlapping` setter (whatever the grid derived from the first table must not survive)
            ov0 = {int(e): set(int(x) for x in s) for e, s in desc["overlap0"]}
            self.grid = Grid(desc["rows"], desc["cols"], overlapping=ov0 if ov0 else None)
            self.grid.overlapping = ov if ov else None
        else:
            self.grid = Grid(desc["rows"], desc["cols"], overlapping=ov if ov else None)
        # a history (`enc0`): the agents are CONSTRUCTED with other encodings (a permutation of the final ones among
        # the agents, so the set of encodings in the simulation is the same) and get their final encodings through
        # the public `encoding` setter once the property module has built its components (`finish`): a component
        # reads an agent's current encoding, not one it saw at construction.  The state is loaded after that.
        if desc.get("bad_table"):
            # a history: an assignment to `overlapping` that the setter REJECTS (a table with one malformed row), made
            # on the live grid and caught by the caller; the table in force is the one from before
            try:
                self.grid.overlapping = bad_table(ov)
                raise RuntimeError("harness: the malformed overlap table was accepted")
            except (AssertionError, TypeError, ValueError, KeyError, AttributeError):
                pass
        # another history (`late`: k): the last k agents (plain ones: they neither move, attack nor observe, and their
        # encodings occur among the others) are put into the agents dictionary - the one object the simulation and all
        # its components share - only after the components were built: a component sees the agents that are in the
        # dictionary now, not a copy taken at construction.
        enc0 = desc.get("enc0")
        late = int(desc.get("late") or 0)
        self.agent_list = [make_agent(i, dict(a, enc=enc0[i]) if enc0 else a) for i, a in enumerate(desc["agents"])]
        if desc.get("shared_aspace"):
            # (round 6) agents of one kind built with ONE action-space container (`spaces = {}` handed to each of them):
            # legal, and every component writes the same channel space for each of them; a component that reads an
            # agent's channel after it has processed another agent of the group reads what it wrote itself
            import json as _json
            groups = {}
            for a, spec in zip(self.agent_list, desc["agents"]):
                if hasattr(a, "action_space") and isinstance(a.action_space, dict):
                    key = type(a).__name__ + _json.dumps(
                        {k: v for k, v in spec.items() if k not in ("init_pos", "init_health", "init_ammo", "init_orient")},
                        sort_keys=True, default=str)
                    first = groups.setdefault(key, a)
                    if first is not a:
                        a.action_space = first.action_space
        self.agents = {a.id: a for a in self.agent_list[:len(self.agent_list) - late]}
        self.idx = {a.id: i for i, a in enumerate(self.agent_list)}
        self.grid.reset()
        self._unfinished = bool(enc0) or late > 0
        if desc.get("state") is not None and not self._unfinished:
            self.set_state(desc["state"])

    def finish(self):
        """see `enc0` above; a no-op otherwise"""
        if self._unfinished:
            self._unfinished = False
            if self.desc.get("enc0"):
                for a, spec in zip(self.agent_list, self.desc["agents"]):
                    a.encoding = int(str(spec["enc"]))
            for a in self.agent_list:
                if a.id not in self.agents:
                    self.agents[a.id] = a
            if self.desc.get("state") is not None:
                self.set_state(self.desc["state"])

    def set_state(self, state):
        """put the agents where the description says (bypassing the placement components)"""
        self.grid.reset()
        for a, s in zip(self.agent_list, state):
            a.health = fl(s["health"])
            if isinstance(a, AmmoAgent):
                a.ammo = s["ammo"]
            if isinstance(a, OrientationAgent):
                a.orientation = s["orient"]
            a.position = np.array(s["pos"])
        for a, s in zip(self.agent_list, state):
            if a.active:
                ok = self.grid.place(a, tuple(s["pos"]))
                if not ok:
                    STATS["illegal"] += 1
                    raise ValueError("illegal world description: cannot place " + a.id)

    # ---- canonical dumps -------------------------------------------------------------------
    def stat_wire(self):
        ov = [[int(e), sorted(int(x) for x in s)] for e, s in sorted(self.grid.overlapping.items())]
        cfgs = []
        # the range a property speaks about is the CONFIGURED one ("FULL" = max(rows, cols) - 1 of the grid the component
        # was built over), not whatever a constructor wrote into the agent: a wrong resolution must show as a
        # disagreement, not be copied into the model's input
        desc = getattr(self, "desc", None) or {}        # (worlds wrapped around an existing simulation have none)
        g0 = desc.get("grid0")
        full = (max(int(g0[0]), int(g0[1])) if g0 else max(self.grid.rows, self.grid.cols)) - 1
        conf = desc.get("agents") or []
        for i, a in enumerate(self.agent_list):
            c = conf[i] if i < len(conf) else {}
            fm, fa, fv = (c.get("move_range") == "FULL", c.get("attack_range") == "FULL", c.get("view_range") == "FULL")
            ip = [] if a.initial_position is None else [[int(a.initial_position[0]), int(a.initial_position[1])]]
            ih = [] if a.initial_health is None else [fr(a.initial_health)]
            mv = isinstance(a, MovingAgent)
            at = isinstance(a, AttackingAgent)
            am = isinstance(a, AmmoAgent)
            orr = isinstance(a, OrientationAgent)
            ob = isinstance(a, GridObservingAgent)
            io = [] if (not orr or a.initial_orientation is None) else [int(a.initial_orientation)]
            cfgs.append([int(a.encoding), bool(a.blocking), ip, ih,
                         mv, (full if fm else _rng(a.move_range, self)) if mv else 0,
                         at, (full if fa else _rng(a.attack_range, self)) if at else 0,
                         fr(a.attack_strength) if at else [0, 1], fr(a.attack_accuracy) if at else [1, 1],
                         int(a.simultaneous_attacks) if at else 0,
                         am, int(a.initial_ammo) if am else 0,
                         orr, io, ob, (full if fv else _rng(a.view_range, self)) if ob else 0])
        return [self.grid.rows, self.grid.cols, ov, cfgs]

    def dyn_wire(self):
        cells = []
        for r in range(self.grid.rows):
            for c in range(self.grid.cols):
                cell = self.grid[r, c]
                cells.append([self.idx[k] for k in cell] if cell else [])
        sts = []
        for a in self.agent_list:
            # public properties only (before the first reset they are not set yet: the defaults of the dump)
            pos = getattr(a, "position", None)
            p = [int(pos[0]), int(pos[1])] if pos is not None else [0, 0]
            h = getattr(a, "health", 1)
            sts.append([p, fr(h), bool(a.active),
                        int(getattr(a, "ammo", 0)) if isinstance(a, AmmoAgent) else 0,
                        int(getattr(a, "orientation", 0) or 0) if isinstance(a, OrientationAgent) else 0])
        return [cells, sts]


def _rng(v, world):
    if v == "FULL":
        return max(world.grid.rows, world.grid.cols) - 1
    return int(v)


# ----------------------------------------------------------------------------------------------
# generators of legal worlds

_FRAGILE = {}
STATS = {"illegal": 0}      # world descriptions the real grid refused to hold (legal by construction: expected 0)
if __import__("os").environ.get("VERIF_DEBUG_STATS"):
    __import__("atexit").register(lambda: print("GRIDW STATS", STATS))


def fragile_ties(rmax=40):
    """[(dr, dc, r, c)]: a blocking agent at offset (dr, dc) from the viewer (dc >= 1, dr >= 0) and a cell (r, c) beyond it
    that lies exactly ON one of the two rays bounding its shadow - r == a c / b with a = 2 dr +- 1, b = 2 dc +- 1 - and
    is therefore visible (the comparison is strict).  Kept are the ties at which SOME floating-point evaluation order
    of a c / b (a (c / b), (a / b) c, a c (1 / b), c / (b / a)) misses the exact integer, so that a re-arranged formula
    hides or shows the cell; (a c) / b, the order the code uses, is exact at every tie.  The first ones need range 9."""
    if rmax not in _FRAGILE:
        out = []
        for dc in range(1, rmax + 1):
            for dr in range(0, rmax + 1):
                for s1 in (1, -1):
                    for s2 in (1, -1):
                        a, b = 2 * dr + s1, 2 * dc + s2
                        if a <= 0 or b <= 0:
                            continue
                        for t in range(dc + 1, rmax + 1):
                            if (a * t) % b == 0 and dr <= a * t // b <= rmax:
                                r = a * t // b
                                if any(x != r for x in (a * (t / b), (a / b) * t, a * t * (1 / b), t / (b / a))):
                                    out.append((dr, dc, r, t))
        _FRAGILE[rmax] = sorted(set(out))
    return _FRAGILE[rmax]


def bad_table(ov):
    """a table the `overlapping` setter rejects because of its LAST row (a list where a set belongs); the rows before it
    are well-formed and say something else than `ov` (everything may overlap with everything)"""
    encs = sorted(ov) if ov else [1]
    everything = set(encs) | {max(encs) + 1}
    t = {e: set(everything) for e in encs[:-1]}
    t[encs[-1]] = [encs[0]]
    return t


def maybe_late(rng, desc, p=0.08):
    """with probability p: the history `late` (see RealWorld).  Re-orders the agents (the late ones last): call it
    before anything that refers to agents by index is generated"""
    if rng.random() >= p or desc.get("enc0"):
        return desc
    ags = desc["agents"]
    n = len(ags)
    cand = [i for i, a in enumerate(ags) if not any(a.get(k) for k in ("moving", "attacking", "observing", "has_ammo",
                                                                       "has_orient"))]
    rng.shuffle(cand)
    late = []
    for i in cand[:2]:
        if ags[i]["enc"] in {a["enc"] for j, a in enumerate(ags) if j != i and j not in late}:
            late.append(i)
    if not late or len(late) == n:
        return desc
    order = [i for i in range(n) if i not in late] + late
    desc["agents"] = [ags[i] for i in order]
    if desc.get("state") is not None:
        desc["state"] = [desc["state"][i] for i in order]
    desc["late"] = len(late)
    if "main" in desc:                       # (p_attack: the index of the main attacker)
        desc["main"] = order.index(desc["main"])
    return desc


def maybe_enc0(rng, desc, p=0.1):
    """with probability p: the history `enc0` (see RealWorld) - the agents are constructed with a permutation of
    their encodings and get the final ones through the public setter after the components were built"""
    encs = [a["enc"] for a in desc["agents"]]
    if len(set(encs)) > 1 and rng.random() < p:
        early = len(encs) - int(desc.get("late") or 0)     # (late joiners keep theirs: the early agents alone must
        head = encs[:early]                                #  show every encoding at construction)
        rng.shuffle(head)
        enc0 = head + encs[early:]
        if enc0 != encs:
            desc["enc0"] = enc0
    return desc


def gen_overlap(rng, encs):
    """random raw overlap table over the encodings, possibly one-sided / int-valued-like"""
    table = {}
    mode = rng.random()
    if mode < 0.2:
        return []
    for e in encs:
        if rng.random() < 0.6:
            s = [x for x in encs if rng.random() < 0.5]
            if s:
                table[e] = s
    return [[e, s] for e, s in table.items()]


def closed(overlap):
    """symmetric closure as Grid computes it (only used to *generate* legal states)"""
    t = {e: set(s) for e, s in overlap}
    sym = {e: set(s) for e, s in t.items()}
    for e, s in t.items():
        for x in s:
            sym.setdefault(x, set()).add(e)
    return sym


def may_join(sym, e, occ_encs):
    if not occ_encs:
        return True
    if e not in sym:
        return False
    return all(o in sym[e] for o in occ_encs)


def gen_world(rng, max_side=5, max_agents=7, kinds=None, dead_prob=0.15, big=None):
    """a random legal world description (state set directly).  About one world in sixteen is BIG: up to 14 rows
    and columns, up to 15 agents (two-digit indices), up to 12 encodings -- what the small scopes never reach"""
    if big is None:
        big = rng.random() < 0.0625
    if big:
        max_side, max_agents = max(max_side, 18), max(max_agents, 15)
    rows, cols = rng.randint(1, max_side), rng.randint(1, max_side)
    if big:
        rows, cols = max(rows, rng.randint(8, max_side)), max(cols, rng.randint(1, max_side))
    if rng.random() < 0.15:
        rows = 1
    if rng.random() < 0.15:
        cols = 1
    nenc = rng.randint(1, 12) if big else rng.randint(1, 3)
    encs = list(range(1, nenc + 1))
    overlap = gen_overlap(rng, encs)
    sym = closed(overlap)
    n = rng.randint(9, max_agents) if big else rng.randint(1, max_agents)
    agents, state = [], []
    occ = {}
    for i in range(n):
        a = dict(AG_DEFAULT)
        a["enc"] = rng.choice(encs)
        a["blocking"] = rng.random() < 0.2
        if kinds:
            kinds(rng, a, rows, cols)
        health = rng.choice([[1, 1], [1, 2], [1, 4], [3, 4], [1, 1024], [5, 8]])
        if rng.random() < dead_prob:
            health = [0, 1]
        pos = None
        if health[0] > 0:
            for _ in range(30):
                p = (rng.randrange(rows), rng.randrange(cols))
                if may_join(sym, a["enc"], occ.get(p, [])) or not occ.get(p):
                    pos = p
                    break
            if pos is None:
                health = [0, 1]
        if pos is None:
            pos = (rng.randrange(rows), rng.randrange(cols))
        else:
            occ.setdefault(pos, []).append(a["enc"])
        agents.append(a)
        state.append({"pos": list(pos), "health": health, "ammo": rng.randint(0, 4),
                      "orient": rng.randint(1, 4)})
    desc = {"rows": rows, "cols": cols, "overlap": overlap, "agents": agents, "state": state}
    if rng.random() < 0.2:
        desc["overlap0"] = gen_overlap(rng, encs)       # the table the grid was first built with (see RealWorld)
    if rng.random() < 0.15:
        desc["bad_table"] = True                        # a rejected assignment on the live grid (see RealWorld)
    return desc


# ----------------------------------------------------------------------------------------------
# added for C09 (observers): placement in a chosen order

def set_state_in_order(world, state, order=None):
    """Like RealWorld.set_state, but the active agents are put on the grid in `order` (a list of
    agent indices; default = listing order), so that the insertion order inside a cell can differ
    from the listing order of the agents dictionary.  Inactive agents keep the position of the
    description (the cell they died on) without being on the grid."""
    world.grid.reset()
    for a, s in zip(world.agent_list, state):
        a.health = fl(s["health"])
        if isinstance(a, AmmoAgent):
            a.ammo = s["ammo"]
        if isinstance(a, OrientationAgent):
            a.orientation = s["orient"]
        a.position = np.array(s["pos"])
    for i in (order if order is not None else range(len(world.agent_list))):
        a, s = world.agent_list[i], state[i]
        if a.active:
            if not world.grid.place(a, tuple(s["pos"])):
                STATS["illegal"] += 1
                raise ValueError("illegal world description: cannot place " + a.id)
