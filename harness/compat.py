"""Import-time compatibility for running Abmarl's *current working tree* in this sandbox.

* puts the repository (env ABMARL_REPO, default /repo) first on sys.path -- nothing is
  installed or cached, every run imports the sources as they are now;
* gymnasium 1.3.0 removed `gymnasium.spaces.box.get_inf`, which abmarl.sim.wrappers imports;
  the old five-line helper is re-installed (DESIGN.md §3.2, part of the trusted base).
"""
import os
import sys

REPO = os.environ.get("ABMARL_REPO", "/repo")
if REPO not in sys.path:
    sys.path.insert(0, REPO)
os.environ.setdefault("ABMARL_VERIF", "1")

import numpy as np  # noqa: E402
import gymnasium.spaces.box as _box  # noqa: E402

if not hasattr(_box, "get_inf"):
    def get_inf(dtype, sign):
        """Returns an infinite that doesn't break things (gymnasium <= 0.29)."""
        if np.dtype(dtype).kind == "f":
            if sign == "+":
                return np.inf
            elif sign == "-":
                return -np.inf
            else:
                raise TypeError(f"Unknown sign {sign}, use either '+' or '-'")
        elif np.dtype(dtype).kind == "i":
            if sign == "+":
                return np.iinfo(dtype).max - 2
            elif sign == "-":
                return np.iinfo(dtype).min + 2
            else:
                raise TypeError(f"Unknown sign {sign}, use either '+' or '-'")
        else:
            raise ValueError(f"Unknown dtype {dtype} for infinite bounds")
    _box.get_inf = get_inf
