"""MultiCorridor (abmarl/examples/sim/multi_corridor.py) against the model of its own reset / step / getters
(lean/Abmarl/Model/Corridor.lean).  Not a property of its own and not a stream of its own: its cases ride in the
streams of harness/p_examples.py (`example-modelled`, `example-mgr`, the twins `layer example`) with
`which == "corridor"`; p_examples dispatches here.

desc (direct calls) = {"stream", "which": "corridor", "p": {"end", "n"}, "ops": [...], "twin"?, "scribble"?}
  ops = ["reset", tape] | ["step", [[agent, action, form]...]] | ["obs", a] | ["rew", a] | ["done", a] | ["alldone"]
  (agent = index; an index >= n is sent as the unknown id 'agent<index>'; action = ANY integer; form = representation
  of the action value: python int, np.int64, 0-d array, np.int8)
trace entry = [res, dump]; the dump (positions, corridor cells, reward dict; [] while the attributes do not exist) is
read after EVERY call, also one that raised: the model says exactly which state a raising step leaves.
"""
import contextlib

import compat  # noqa: F401
import numpy as np

import core
import mgr
import oracle
import wire
from p_attack import fenc

from abmarl.managers import AllStepManager, TurnBasedManager

BAD = 999999937


def _int(x):
    """an integer value of the real object (python int or numpy integer), else the sentinel"""
    if isinstance(x, (bool, np.bool_)):
        return BAD
    if isinstance(x, (int, np.integer)):
        return int(x)
    return BAD


def py_action(v, form):
    form %= 4
    if form == 0:
        return int(v)
    if form == 1:
        return np.int64(v)
    if form == 2:
        return np.array(v)
    return np.int8(v) if -128 <= v < 128 else int(v)


class CorSession:
    which = "corridor"

    def __init__(self, p, scribble=False):
        from abmarl.examples.sim.multi_corridor import MultiCorridor
        self.p = p
        self.scribble = scribble
        self.sim = MultiCorridor(end=p["end"], num_agents=p["n"])
        self.al = list(self.sim.agents.values())
        self.ids = [a.id for a in self.al]
        self.idx = {k: i for i, k in enumerate(self.ids)}
        self.n = len(self.al)
        self.end = p["end"]
        self.actors = list(range(self.n))
        self.learning = [True] * self.n
        self.ledger_attr = "reward"

    def cfg_wire(self):
        return ["corridor", int(self.p["end"]), int(self.p["n"])]

    def aid(self, a):
        return self.ids[a] if a < self.n else "agent%d" % a

    # ---- reading the object without side effects
    def dump(self):
        sim = self.sim
        if not hasattr(sim, "corridor") and not hasattr(sim, "reward"):
            return []
        pos = [_int(getattr(a, "position", None)) for a in self.al]
        cor = []
        for c in getattr(sim, "corridor", []):
            cor.append(-1 if c is None else self.idx.get(getattr(c, "id", None), BAD))
        rd = getattr(sim, "reward", {})
        rew = [_int(rd[k]) for k in self.ids if k in rd]
        if list(rd.keys()) != self.ids:
            rew.append(BAD)                       # an entry missing / a foreign entry / another order
        return [pos, cor, rew]

    def done_now(self, a):
        return int(self.al[a].position) == self.end - 1

    def obs_wire(self, a, o):
        """[p, left, right, member]; a malformed observation is sent as a non-member"""
        try:
            member = bool(o in self.al[a].observation_space) if a < self.n else False
            ok = isinstance(o, dict) and set(o) == {"position", "left", "right"}
            vals = []
            for k in ("position", "left", "right"):
                v = o[k]
                ok = ok and isinstance(v, np.ndarray) and v.shape == (1,) and np.issubdtype(v.dtype, np.integer)
                vals.append(int(v[0]))
            ok = ok and vals[1] in (0, 1) and vals[2] in (0, 1) and vals[0] >= 0
            if not ok:
                return [0, 0, 0, 0]
            return [vals[0], vals[1], vals[2], int(member)]
        except Exception:  # noqa: BLE001
            return [0, 0, 0, 0]

    def op_wire(self, op):
        if op[0] == "reset":
            return ["reset", list(op[1])]
        if op[0] == "step":
            return ["step", [[int(a), int(v)] for a, v, _ in op[1]]]
        if op[0] in ("obs", "rew", "done"):
            return [op[0], int(op[1])]
        return ["alldone"]

    def do(self, op):
        from p_place import guarded
        sim = self.sim
        kind = op[0]
        res = None
        if kind == "reset":
            with oracle.scripted(oracle.Tape(op[1])):
                st, val = guarded(sim.reset)
            res = ["unit"]
        elif kind == "step":
            ad = {self.aid(a): py_action(v, f) for a, v, f in op[1]}
            st, val = guarded(lambda: sim.step(ad))
            res = ["unit"]
            if self.scribble:
                ad.clear()                         # the caller re-uses its dict
        elif kind == "obs":
            st, val = guarded(lambda: sim.get_obs(self.aid(op[1])))
            if st == "ok":
                res = ["obs"] + self.obs_wire(op[1], val)
                if self.scribble and isinstance(val, dict):
                    for v in val.values():
                        if isinstance(v, np.ndarray) and v.flags.writeable:
                            v[...] = 77          # the caller overwrites what it was handed (in place)
                    val.clear()
        elif kind == "rew":
            st, val = guarded(lambda: sim.get_reward(self.aid(op[1])))
            if st == "ok":
                res = ["int", _int(val)]
        elif kind == "done":
            st, val = guarded(lambda: sim.get_done(self.aid(op[1])))
            if st == "ok":
                res = ["bool", bool(val)] if isinstance(val, (bool, np.bool_)) else ["int", BAD]
        else:
            st, val = guarded(sim.get_all_done)
            if st == "ok":
                res = ["bool", bool(val)] if isinstance(val, (bool, np.bool_)) else ["int", BAD]
        if st != "ok":
            res = ["err", st]
        return [res, self.dump()]


def run_ops(sess, ops):
    return [sess.do(op) for op in ops]


def gen_params(rng, big=False):
    if big:
        end = rng.randint(30, 44)
        return {"end": end, "n": rng.randint(11, min(end - 1, 24))}
    r = rng.random()
    if r < 0.04:                                    # no placement: reset raises (and leaves the object alone)
        end = rng.randint(1, 4)
        return {"end": end, "n": rng.randint(max(end, 1), end + 2)}
    if r < 0.06:
        return {"end": rng.randint(2, 5), "n": 0}
    end = rng.randint(2, 9)
    if rng.random() < 0.35:
        return {"end": end, "n": end - 1}           # full corridor: bumps everywhere
    return {"end": end, "n": rng.randint(1, end - 1)}


def reset_tape(rng, n):
    if rng.random() < 0.1:
        return [rng.randrange(4096) for _ in range(rng.randint(0, n))]      # exhausted: the rest are zeros
    return [rng.randrange(4096) for _ in range(n + 2)]


def sample_action(rng, sloppy):
    r = rng.random()
    if sloppy and r < 0.08:
        return rng.choice([3, -1, 7, -2])           # outside Discrete(3): no branch matches
    if r < 0.55:
        return 2
    if r < 0.75:
        return 0
    if r < 0.9:
        return 1
    return rng.randrange(3)


def gen_history(rng, sess, n_ops, episodes, protocol=False):
    """play a random history on the real object (adaptive: who is done is read from the object).  `protocol`: only
    items for agents that are not done (what the managers hand on)."""
    ops, entries = [], []
    n = sess.n

    def push(op):
        e = sess.do(op)
        ops.append(op)
        entries.append(e)
        return e

    started = False
    if rng.random() < 0.06 and not protocol:
        # calls before the first reset (AttributeError / KeyError, or nothing happens)
        for _ in range(rng.randint(1, 3)):
            push(rng.choice([["step", []], ["step", [[rng.randrange(n + 1), rng.choice([0, 1, 2, 3]), 0]]],
                             ["obs", rng.randrange(n + 1)], ["rew", rng.randrange(n + 1)], ["alldone"],
                             ["done", rng.randrange(n + 1)]]))
    ep = 0
    while len(ops) < n_ops:
        r = rng.random()
        if not started or (r < 0.03 and ep < episodes):
            e = push(["reset", reset_tape(rng, n)])
            ep += 1
            started = e[0][0] != "err"
            if not started:
                # no placement for this configuration: a few more calls, then the end
                for _ in range(rng.randint(0, 3)):
                    push(rng.choice([["reset", reset_tape(rng, n)], ["alldone"], ["step", []], ["obs", 0]]))
                break
            continue
        if n and all(sess.done_now(a) for a in range(n)) and ep < episodes and rng.random() < 0.7:
            started = False
            continue
        if r < 0.6:
            live = [a for a in range(n) if not sess.done_now(a)]
            who = [a for a in live if rng.random() < 0.8] if rng.random() < 0.5 else list(live)
            if not protocol:
                done = [a for a in range(n) if sess.done_now(a)]
                if done and rng.random() < 0.15:
                    who.append(rng.choice(done))           # LEFT revives it, RIGHT raises IndexError, STAY costs 1
                if rng.random() < 0.03:
                    who.append(n + rng.randrange(2))       # unknown id: KeyError, the items before it are applied
            rng.shuffle(who)                               # insertion order of the action dict = loop order of step
            acts = [[a, sample_action(rng, not protocol), rng.randrange(4)] for a in who]
            push(["step", acts])
        elif r < 0.75:
            push(["obs", rng.randrange(n) if n and rng.random() < 0.95 else n + rng.randrange(2)])
        elif r < 0.87:
            push(["rew", rng.randrange(n) if n and rng.random() < 0.95 else n + rng.randrange(2)])
        elif r < 0.95:
            push(["done", rng.randrange(n) if n and rng.random() < 0.95 else n + rng.randrange(2)])
        else:
            push(["alldone"])
    return ops, entries


class CorCase(core.Case):
    __slots__ = ("stream",)


def make_case(desc, sess, ops, entries):
    opw = [sess.op_wire(op) for op in ops[:len(entries)]]
    head = "(gexample " + fenc(sess.cfg_wire()) + " () () " + fenc(opw)
    outs = fenc(entries)
    tags = ["stream:" + desc["stream"], "example:corridor"]
    if desc.get("scribble"):
        tags.append("ex-caller-overwrites-returned-values")
    nres = sum(1 for op in ops if op[0] == "reset")
    tags.append("ex-episodes:%d" % min(nres, 4))
    nsteps = sum(1 for op in ops if op[0] == "step")
    if sess.end >= 30 and sess.n >= 11:
        tags.append("cor-big:30+cells-11+agents")
    if nsteps >= 150:
        tags.append("cor-long:150+steps")
    changed = False
    prev = None
    for op, e in zip(ops, entries):
        tags.append("ex-op:" + op[0])
        if e[0][0] == "err":
            tags.append("ex-err:%s:%s" % (op[0], e[0][1]))
        if op[0] == "step" and prev and e[1]:
            if e[1][0] != prev[0]:
                changed = True
            if any(x <= -7 for x in (q - p for p, q in zip(prev[2], e[1][2]))):
                tags.append("cor-bumped-more-than-once-in-a-step")
            if any(q - p in (-2, -3, -4) for p, q in zip(prev[2], e[1][2])):
                tags.append("cor-offended-agent-charged")
            if any(p == sess.end - 1 and q != p for p, q in zip(prev[0], e[1][0])):
                tags.append("cor-done-agent-walked-back")
            if any(q == sess.end - 1 and q != p for p, q in zip(prev[0], e[1][0])):
                tags.append("cor-agent-finished")
            if any(v not in (0, 1, 2) for _, v, _ in op[1]):
                tags.append("cor-action-outside-space")
        if op[0] == "rew" and e[0][0] == "int" and e[0][1] != 0:
            tags.append("ex-nonzero-reward-read")
        if op[0] == "alldone" and e[0] == ["bool", True]:
            tags.append("cor-all-done")
        prev = e[1]
    c = CorCase(desc, head + " " + outs + ")", outs, key=core._hash(head), nontrivial=changed, tags=sorted(set(tags)))
    c.stream = desc["stream"]
    return c


def case_from_desc(d):
    sess = CorSession(d["p"], scribble=bool(d.get("scribble")))
    other = CorSession(d["p"]) if d.get("twin") else None
    entries = []
    for k, op in enumerate(d["ops"]):
        if other is not None and k % 3 == 1:
            other.do(d["ops"][0] if k < 3 else op)       # a second object is played in between
        entries.append(sess.do(op))
    return make_case(d, sess, d["ops"], entries)


def gen_cases(rng, stream, count, quick=True):
    """`count` cases; the first is always a BIG one (30+ cells, 11+ agents, 150+ steps), about 3% of the rest too"""
    for i in range(count):
        big = i == 0 or rng.random() < (0.02 if quick else 0.03)
        p = gen_params(rng, big=big)
        scribble = rng.random() < 0.15
        sess = CorSession(p, scribble=scribble)
        if big:
            ops, entries = gen_history(rng, sess, rng.randint(300, 380), rng.randint(1, 3), protocol=rng.random() < 0.5)
        else:
            ops, entries = gen_history(rng, sess, rng.randint(6, 40), rng.randint(1, 3), protocol=rng.random() < 0.3)
        d = {"stream": stream, "which": "corridor", "p": p, "ops": ops}
        if scribble:
            d["scribble"] = True
        if rng.random() < 0.25 and not big:
            d["twin"] = True
            yield case_from_desc(d)
        else:
            yield make_case(d, sess, ops, entries)


def interpret(reply, case):
    model, ms, is_, pre = reply
    if is_ not in (0, 1):
        raise ValueError("driver could not parse the implementation's trace")
    detail = {"pre": pre, "spec_on_impl": is_, "spec_on_model": ms}
    ms_ = fenc(model)
    if ms_ != case.impl:
        impl = wire.dec(case.impl)
        k = next((i for i, (x, y) in enumerate(zip(model, impl)) if x != y), min(len(model), len(impl)))
        detail["first_differing_call"] = k
        detail["op_at_that_call"] = case.desc["ops"][k] if k < len(case.desc["ops"]) else None
        if k < len(model) and k < len(impl):
            for name, j in (("result", 0), ("state", 1)):
                if model[k][j] != impl[k][j]:
                    detail["differs_in"] = name
                    detail["model_" + name] = fenc(model[k][j])[:600]
                    detail["impl_" + name] = fenc(impl[k][j])[:600]
                    break
    return core.Verdict(ms_, ms == 1, is_ == 1, detail)


def shrink_candidates(d):
    ops = d["ops"]
    n = len(ops)
    if d.get("twin"):
        yield {k: v for k, v in d.items() if k != "twin"}
    if d.get("scribble"):
        yield {k: v for k, v in d.items() if k != "scribble"}
    if n > 2:
        yield {**d, "ops": ops[:1 + (n - 1) // 2]}
    for k in range(n - 1, 0, -1):
        yield {**d, "ops": ops[:k] + ops[k + 1:]}
    for k, op in enumerate(ops):
        if op[0] == "step" and len(op[1]) > 1:
            for j in range(len(op[1])):
                yield {**d, "ops": ops[:k] + [["step", op[1][:j] + op[1][j + 1:]]] + ops[k + 1:]}
    for k, op in enumerate(ops):
        if op[0] == "reset" and any(op[1]):
            yield {**d, "ops": ops[:k] + [["reset", [0] * len(op[1])]] + ops[k + 1:]}


# ----------------------------------------------------------------------------------------------
# the manager stream: real managers over the real MultiCorridor

class _CorLogged:
    """instrumentation of one live object (harness only): what `step` was called with, the reward dict right after"""

    def __init__(self, sess):
        self.sess = sess
        self.step_log = []
        self.accrued_snapshot = None
        self.sim_raised = None
        sim = sess.sim
        real_step, real_reset = sim.step, sim.reset

        def watch(name, fn):
            def run(*a, **kw):
                try:
                    return fn(*a, **kw)
                except Exception as ex:  # noqa: BLE001
                    if self.sim_raised is None:
                        self.sim_raised = f"{name}: {type(ex).__name__}: {ex}"
                    raise
            return run

        def step(action_dict, **kw):
            self.step_log.append([(k, v) for k, v in action_dict.items()])
            out = real_step(action_dict, **kw)
            self.accrued_snapshot = self.pending()
            return out

        def reset(**kw):
            out = real_reset(**kw)
            self.accrued_snapshot = self.pending()
            return out
        sim.step, sim.reset = watch("step", step), watch("reset", reset)
        for name in ("get_obs", "get_reward", "get_done", "get_all_done", "get_info"):
            setattr(sim, name, watch(name, getattr(sim, name)))

    def pending(self):
        s = self.sess
        d = getattr(s.sim, "reward", None) or {}
        return [_int(d[k]) if k in d else 0 for k in s.ids]

    def ghost(self):
        s = self.sess
        if not hasattr(s.sim, "corridor"):
            return [False, [False] * s.n, self.pending(), []]
        dn = [s.done_now(a) for a in range(s.n)]
        return [all(dn), dn, self.pending(), []]


class CorMgrSession:
    def __init__(self, d):
        from p_examples import _Shuffle2
        self._Shuffle2 = _Shuffle2
        self.d = d
        self.sess = CorSession(d["p"])
        self.log = _CorLogged(self.sess)
        sim = self.sess.sim
        self.mgr = AllStepManager(sim, randomize_action_input=bool(d["shuffle"])) if d["kind"] == 0 \
            else TurnBasedManager(sim)
        self.stape = oracle.Tape(d["stape"])
        self.mtape = oracle.Tape(d["mtape"])
        self.trace, self.ops = [], []
        self.last = None
        self.dead = False

    def _obs(self, a):
        return lambda o: ["ok", self.sess.obs_wire(a, o)]

    def apply(self, op):
        s = self.sess
        before = len(self.log.step_log)
        pend_before = self.log.pending()
        with oracle.scripted(self.stape), self._Shuffle2(self.mtape):
            if op[0] == "r":
                st, val = mgr.guarded(lambda: self.mgr.reset(), seconds=20.0)
            else:
                ad = {s.aid(a): py_action(v, f) for a, v, f in op[1]}
                st, val = mgr.guarded(lambda: self.mgr.step(ad), seconds=20.0)
        if self.log.sim_raised is not None:
            self.dead = True                       # the simulation itself raised: outside the manager model (total)
            return "sim-raised", None
        stepped = len(self.log.step_log) > before
        cd = lambda dct, f: [[s.idx[k], f(v)] for k, v in dct.items()]  # noqa: E731
        cobs = lambda dct: [[s.idx[k], ["ok", s.obs_wire(s.idx[k], v)]] for k, v in dct.items()]  # noqa: E731
        if st == "ok":
            if op[0] == "r":
                res = ["r", cobs(val)]
            else:
                obs, rew, done, info = val
                dd = {k: v for k, v in done.items() if k != "__all__"}
                res = ["s", cobs(obs), cd(rew, _int), cd(dd, bool), cd(info, lambda i: []), bool(done.get("__all__"))]
        else:
            res = ["e", st]
        sa = ["y", [[s.idx[k], _int(int(v)) if not isinstance(v, (bool, np.bool_)) else BAD]
                    for k, v in self.log.step_log[-1]]] if stepped else ["n"]
        accrued = list(self.log.accrued_snapshot) if (stepped or (op[0] == "r" and st == "ok")) else pend_before
        self.ops.append(op)
        self.trace.append([res, sa, accrued, self.log.ghost()])
        if st == "ok":
            self.last = (op[0], val)
        elif st != "rejected":
            self.dead = True
        return st, val


def mgr_case(d, ms):
    s = ms.sess
    opw = [["r"] if op[0] == "r" else ["s", [[int(a), int(v)] for a, v, _ in op[1]]] for op in ms.ops]
    head = ("(mgrx " + fenc(s.cfg_wire()) + " () () " +
            wire.enc([d["kind"], bool(d["shuffle"]), list(d["mtape"]), list(d["stape"])])[1:-1] + " " + fenc(opw))
    outs = fenc(ms.trace)
    tags = ["stream:example-mgr", "example:corridor", mgr.KINDS[d["kind"]]]
    finishes = False
    for e in ms.trace:
        r = e[0]
        if r[0] == "e":
            tags.append("err:" + r[1])
        elif r[0] == "s":
            if r[5]:
                tags.append("allDone")
            if r[5] or any(x for _, x in r[3]):
                finishes = True
    tags.append("eps:%d" % sum(1 for o in ms.ops if o[0] == "r"))
    if s.end >= 30 and s.n >= 11:
        tags.append("cor-big:30+cells-11+agents")
    if sum(1 for o in ms.ops if o[0] == "s") >= 150:
        tags.append("cor-long:150+steps")
    desc = dict(d, ops=ms.ops)
    c = CorCase(desc, head + " " + outs + ")", outs, key=core._hash(head), nontrivial=finishes, tags=sorted(set(tags)))
    c.stream = "example-mgr"
    return c


def mgr_case_from_desc(d):
    ms = CorMgrSession(d)
    for op in d["ops"]:
        if ms.dead:
            break
        ms.apply(op)
    return mgr_case(d, ms)


def gen_mgr_cases(rng, count):
    for i in range(count):
        big = i == 0 or rng.random() < 0.02
        p = gen_params(rng, big=big)
        while p["n"] == 0 or p["n"] > p["end"] - 1:
            p = gen_params(rng, big=big)           # the manager stream is for configurations whose reset returns
        kind = 1 if i == 0 else rng.randrange(2)      # the first (big) case is turn-based: 150+ manager steps
        shuffle = kind == 0 and rng.random() < 0.5
        max_ops = rng.randint(170, 260) if big else rng.randint(3, 30)
        d = {"stream": "example-mgr", "which": "corridor", "p": p, "kind": kind, "shuffle": shuffle,
             "mtape": [rng.randrange(1000) for _ in range(40 + max_ops * (p["n"] if shuffle else 0))] if shuffle else [],
             "stape": [rng.randrange(4096) for _ in range(5 * p["n"] + 8)]}
        ms = CorMgrSession(d)
        s = ms.sess
        episodes, ep = rng.randint(1, 3), 1
        reported = set()
        st, _ = ms.apply(["r"])
        while st == "ok" and len(ms.ops) < max_ops and not ms.dead and ms.last is not None:
            lk, val = ms.last
            over = lk == "s" and val[2].get("__all__")
            if over or rng.random() < 0.02:
                if ep >= episodes:
                    break
                ms.apply(["r"])
                reported = set()
                ep += 1
                continue
            if lk == "r":
                live = [s.idx[k] for k in val]
            else:
                for k, dn in val[2].items():
                    if k != "__all__" and dn:
                        reported.add(s.idx[k])
                live = [s.idx[k] for k, dn in val[2].items() if k != "__all__" and not dn]
            if kind == 1:
                who = live[-1:]
            else:
                who = [a for a in live if rng.random() < 0.85] if rng.random() < 0.4 else list(live)
            if rng.random() < 0.08 and reported:
                who = who + [rng.choice(sorted(reported))]      # must be rejected before the simulation is advanced
            rng.shuffle(who)
            ms.apply(["s", [[a, sample_action(rng, True), rng.randrange(4)] for a in who]])
        yield mgr_case(d, ms)


def mgr_shrink_candidates(d):
    ops = d["ops"]
    for k in range(len(ops) - 1, 0, -1):
        yield dict(d, ops=ops[:k])
    for i in range(1, len(ops)):
        yield dict(d, ops=ops[:i] + ops[i + 1:])


# ----------------------------------------------------------------------------------------------
# C08: used versus fresh twin

def twin_case(d):
    """the used object plays the prefix `pops` (episodes cut anywhere, calls that raise included), then the follow-up
    `fops` (a reset first); a newly built object plays the follow-up alone under the same tapes.  The model runs the
    follow-up from the constructed object; its trace, the used object's and the fresh object's must all be equal."""
    import json
    used = CorSession(d["p"])
    run_ops(used, d["pops"])
    uent = run_ops(used, d["fops"])
    fresh = CorSession(d["p"])
    fent = run_ops(fresh, d["fops"])
    c = make_case(dict(d, ops=d["fops"], stream="example-twin"), fresh, d["fops"], uent)
    c.desc = d
    same = fenc(uent) == fenc(fent)
    c.tags = [t for t in c.tags if not t.startswith("stream:")] + [
        "layer:example", "twin:" + ("same" if same else "DIFFERENT"),
        "prefix-len:" + ("0" if not d["pops"] else "1-5" if len(d["pops"]) <= 5 else "6+")]
    c.nontrivial = len(d["pops"]) > 1
    c.key = core._hash(json.dumps(d, sort_keys=True))
    return c


def gen_twin_cases(rng, count):
    for i in range(count):
        p = gen_params(rng, big=(i == 0))
        while p["n"] > p["end"] - 1:
            p = gen_params(rng)
        used = CorSession(p)
        pops, _ = gen_history(rng, used, rng.randint(1, 30) if i else 160, rng.randint(1, 3))
        started = hasattr(used.sim, "corridor")
        fops, _ = gen_history(rng, used, rng.randint(2, 14), 1)
        if started:
            fops = [["reset", reset_tape(rng, p["n"])]] + fops     # the follow-up starts with a reset
        yield twin_case({"layer": "example", "which": "corridor", "p": p, "pops": pops, "fops": fops})


def twin_interpret(reply, case):
    d = dict(case.desc)
    d["ops"] = d["fops"]
    inner = core.Case(d, case.line, case.impl, tags=case.tags)
    v = interpret(reply, inner)
    same = "twin:same" in case.tags
    v.detail["used_equals_fresh_twin"] = same
    return core.Verdict(v.model, v.model_spec, same and v.impl_spec, v.detail)


def twin_shrink_candidates(d):
    for k in range(len(d["pops"]) - 1, -1, -1):
        yield dict(d, pops=d["pops"][:k] + d["pops"][k + 1:])
    for k in range(len(d["fops"]) - 1, 0, -1):
        yield dict(d, fops=d["fops"][:k])


RULE = (" MultiCorridor (`which: corridor`, model lean/Abmarl/Model/Corridor.lean) rides in the same streams: direct "
        "calls on ONE real object (corridors of 2-9 cells incl. full ones, configurations without placement, zero "
        "agents; the first case of every run and ~2% of the others are BIG: 30-44 cells, 11-24 agents, 300-380 calls "
        "of which 150+ steps), 1-3 episodes, action dicts in shuffled insertion order with values as python int / "
        "np.int64 / 0-d array / np.int8, in 70% of the cases also items for agents that are already done (LEFT walks "
        "them back, RIGHT raises IndexError), unknown ids (KeyError), values outside Discrete(3), calls before the "
        "first reset; the dump (positions, corridor cells, reward dict) is read after EVERY call, also one that "
        "raised, and compared with the model's; judged by Cor.specCor (invariant of every dump, observations in "
        "the declared space incl. gymnasium's own `contains`, getters change nothing, read-and-reset rewards, a step "
        "for distinct not-done agents does not raise); a quarter of the small cases with a second object alive and "
        "played in between, 15% with the caller overwriting returned observations / clearing its action dict.")
