"""Real managers over the scripted stub: trace production and history generation (C01, C07)."""
import itertools
import copy
import random
import signal

import compat  # noqa: F401
import wire
from oracle import scripted, Tape
from stub_sim import StubSim, script_to_wire

from abmarl.managers import AllStepManager, TurnBasedManager, DynamicOrderManager

KINDS = ["allStep", "turnBased", "dynamic"]
NEVER = 99


class Hang(Exception):
    pass


def _alarm(signum, frame):
    raise Hang()


def guarded(fn, seconds=5.0):
    """run fn() under a watchdog; returns ('ok', value) | ('rejected'|'crash'|'hang', info)"""
    old = signal.signal(signal.SIGALRM, _alarm)
    signal.setitimer(signal.ITIMER_REAL, seconds)
    try:
        return "ok", fn()
    except Hang:
        return "hang", None
    except AssertionError as e:
        return "rejected", str(e)
    except Exception as e:  # noqa: BLE001
        return "crash", f"{type(e).__name__}: {e}"
    finally:
        signal.setitimer(signal.ITIMER_REAL, 0)
        signal.signal(signal.SIGALRM, old)


class _AllStepSub(AllStepManager):
    """a subclass that overrides nothing (a project's own manager that only adds logging, say)"""


class _TurnBasedSub(TurnBasedManager):
    """a subclass that overrides nothing"""


class _DynamicSub(DynamicOrderManager):
    """a subclass that overrides nothing"""


def make_manager(kind, sim, shuffle):
    # (round 6) for half of the scripted simulations the manager is an instance of a SUBCLASS that overrides nothing:
    # whoever asks what kind of manager it has (the OpenSpiel adapter, a wrapper) must ask with isinstance
    sub = False
    done_at = getattr(sim, "done_at", None)
    if isinstance(done_at, list):
        sub = (sum(int(x) % 7 for x in done_at) + len(done_at) + int(getattr(sim, "finish_at", 0)) % 5) % 2 == 1
    if kind == 0:
        return (_AllStepSub if sub else AllStepManager)(sim, randomize_action_input=bool(shuffle))
    if kind == 1:
        return (_TurnBasedSub if sub else TurnBasedManager)(sim)
    return (_DynamicSub if sub else DynamicOrderManager)(sim)


def canon_obs_dict(sim, d, f):
    return [[sim.idx[k], f(v)] for k, v in d.items()]


def _obs_list(o):
    """an observation of the stub as a list of ints (a Discrete observation is a single int)"""
    if isinstance(o, (list, tuple)) or hasattr(o, "__len__"):
        return [int(x) for x in o]
    return [int(o)]


def entry_of(sim, status, value, is_reset, log_before, pend_before):
    stepped = len(sim.step_log) > log_before
    if status == "ok":
        if is_reset:
            res = ["r", canon_obs_dict(sim, value, _obs_list)]
        else:
            obs, rew, done, info = value
            alld = done.get("__all__")
            dd = {k: v for k, v in done.items() if k != "__all__"}
            res = ["s", canon_obs_dict(sim, obs, _obs_list),
                   canon_obs_dict(sim, rew, int),
                   canon_obs_dict(sim, dd, bool),
                   canon_obs_dict(sim, info, lambda i: [int(i["t"])]),
                   bool(alld)]
    else:
        res = ["e", status]
    sim_args = ["y", [[a, v] for a, v in sim.step_log[-1]]] if stepped else ["n"]
    accrued = list(sim.accrued_snapshot) if (stepped or (is_reset and status == "ok")) else list(sim.pend)
    return [res, sim_args, accrued, sim.ghost()]


class Session:
    """a real manager over a fresh stub, driven op by op"""

    def __init__(self, kind, shuffle, script, tape):
        self.kind, self.shuffle, self.script = kind, shuffle, script
        self.sim = StubSim(script)
        self.mgr = make_manager(kind, self.sim, shuffle)
        self.tape = Tape(tape)
        self.ops = []
        self.trace = []
        self.last = None        # last successful output
        self.dead = False       # after a crash/hang the manager state is unknown
        # a second manager of the same kind in the same process, over another simulation with the same agent ids
        # and other done times, used in between: the first one must not notice (no state shared between objects)
        self._init_shadow(kind, script)

    def _init_shadow(self, kind, script):
        self.shadow = None
        if script.get("shadow") is not None:
            self.srng = random.Random(script["shadow"])
            sc2 = {k: v for k, v in script.items() if k not in ("shadow", "undoneAt")}
            sc2["doneAt"] = [self.srng.choice([0, 1, 2, 3, NEVER]) for _ in range(script["n"])]
            sc2["finishAt"] = self.srng.choice([2, 4, NEVER])
            self.shadow_sim = StubSim(sc2)
            self.shadow = make_manager(kind, self.shadow_sim, False)
            self.shadow_live = None

    def _shadow_op(self):
        sim2 = self.shadow_sim

        def run():
            if self.shadow_live is None or self.srng.random() < 0.25:
                out = self.shadow.reset()
                self.shadow_live = list(out.keys())
            else:
                acting = [k for k in self.shadow_live if self.srng.random() < 0.9]
                _, _, done, _ = self.shadow.step({k: 0 for k in acting})
                self.shadow_live = None if done.get("__all__") else [k for k, d in done.items()
                                                                       if k != "__all__" and not d]
        try:
            st, _ = guarded(run)
            if st != "ok":
                self.shadow_live = None
        except Exception:  # noqa: BLE001
            self.shadow_live = None

    def apply(self, op):
        sim = self.sim
        if self.shadow is not None:
            self._shadow_op()
        log_before, pend_before = len(sim.step_log), list(sim.pend)
        with scripted(self.tape):
            if op[0] == "r":
                st, val = guarded(lambda: self.mgr.reset())
            else:
                ad = {sim.ids[a]: v for a, v in op[1]}
                st, val = guarded(lambda: self.mgr.step(ad))
        self.ops.append(op)
        self.trace.append(entry_of(sim, st, val, op[0] == "r", log_before, pend_before))
        if st == "ok":
            self.last = (op[0], val)
            if self.script.get("scribble"):
                # the caller owns what a manager returns and what it handed in: a rollout loop that pops the entries
                # it has dealt with, or re-uses its action dictionary, must not reach into the manager's bookkeeping
                self.last = (op[0], copy.deepcopy(val))
                for d in ([val] if op[0] == "r" else list(val)):
                    if isinstance(d, dict):
                        d.clear()
                if op[0] != "r":
                    ad.clear()
        elif st != "rejected":
            self.dead = True
        return st, self.last[1] if st == "ok" else val


def faulting_last_step(sess):
    """round 6, after the history (the trace is complete; nothing here reaches the model).  ALL-STEP manager only, in
    the middle of an episode: one more step in which the simulation RAISES from a `get_info` - after the observations,
    rewards and done flags of that step were read -, the caller catches that and steps again.  The agents the manager
    has not REPORTED as done are still its to report: the second step must accept an action for each of them and
    report each of them (C07: "reports every learning agent that is not yet done"; C01: an action is rejected only
    for an agent already reported done).  Returns a description of what went wrong, or None."""
    if sess.kind != 0 or sess.dead or sess.last is None or len(sess.ops) % 2:
        return None
    sim = sess.sim
    lk, val = sess.last
    if lk == "r":
        live = list(val.keys()) if isinstance(val, dict) else []
    else:
        done = val[2] if isinstance(val, tuple) and len(val) == 4 and isinstance(val[2], dict) else None
        if done is None or done.get("__all__"):
            return None
        live = [k for k, d in done.items() if k != "__all__" and not d]
    if sess.script.get("scribble"):
        return None                     # (the outputs were emptied by the caller: nothing to read the live agents from)
    if len(live) < 2:
        return None
    sim.info_fault_in, sim.info_fault_fired = len(live) - 1, False      # the LAST info of the step
    with scripted(sess.tape):
        st, _ = guarded(lambda: sess.mgr.step({k: 0 for k in live}))
    sim.info_fault_in = None
    if st == "ok" or not getattr(sim, "info_fault_fired", False):
        return None                     # the fault did not fire (the simulation finished, the manager asked less)
    sess.dead = True
    if sim.get_all_done():
        return None
    # who finished in the interrupted step was never told: every one of `live` is still unreported
    with scripted(sess.tape):
        st, val = guarded(lambda: sess.mgr.step({k: 0 for k in live}))
    if st != "ok":
        return ("after a step that the simulation interrupted (get_info raised once), the next step with actions for "
                "the agents not yet reported done was not accepted: %s %s" % (st, val))
    obs = val[0]
    missing = [k for k in live if k not in obs]
    if missing:
        return ("after a step that the simulation interrupted (get_info raised once), agents that were never reported "
                "done are missing from the next report: %s" % sorted(sim.idx[k] for k in missing))
    return None


def reordering_reset(sess):
    """after the history (nothing here reaches the model; seeded change C07-r4m2).  TURN-BASED manager: one more reset in
    which the simulation re-orders its agents dictionary IN PLACE (the dictionary the manager shares with it), e.g. a
    simulation that shuffles its roster per episode.  "Turns go round in the fixed listing order": the listing the
    manager sees is the one the simulation has once it has been reset, so the episode starts with the first learning
    agent of the dictionary as it is NOW.  Returns a description of what went wrong, or None."""
    if sess.kind != 1 or sess.dead or len(sess.ops) % 3 != 0 or sess.script.get("scribble"):
        return None
    sim = sess.sim
    if sum(1 for x in sim.learning if x) < 2:
        return None
    sim.reorder_at_next_reset = True
    with scripted(sess.tape):
        st, val = guarded(lambda: sess.mgr.reset())
    sim.reorder_at_next_reset = False
    sess.dead = True
    if st != "ok" or not isinstance(val, dict) or len(val) != 1:
        return None                       # (a reset that fails is judged by the history stream, not here)
    first = next((k for k in sim.agents if sim.learning[sim.idx[k]]), None)
    got = next(iter(val))
    if first is not None and got != first:
        return ("after a reset in which the simulation re-ordered its agents dictionary in place the episode starts with "
                "agent %d, the first learning agent of the listing is %d" % (sim.idx[got], sim.idx[first]))
    return None


def run_concrete(kind, shuffle, script, tape, ops):
    s = Session(kind, shuffle, script, tape)
    for op in ops:
        if s.dead:
            break
        s.apply([op[0]] + ([[list(p) for p in op[1]]] if op[0] == "s" else []))
    return s


def request_line(kind, shuffle, script, tape, ops, trace):
    return wire.enc(["mgr", kind, bool(shuffle), script_to_wire(script), list(tape), ops, trace])


# ------------------------------------------------------------------------------------------
# history generation (adaptive: the next action set is chosen from the last real output)

def live_and_done(sess):
    """(reported not-done agent indices, agents reported done so far this episode)"""
    sim = sess.sim
    kind, val = sess.last
    if kind == "r":
        return [sim.idx[k] for k in val], []
    obs, rew, done, info = val
    return [sim.idx[k] for k, d in done.items() if k != "__all__" and not d], None


def gen_history(rng, kind, shuffle, script, tape, max_ops, episodes, p_bad=0.15, p_reset=0.04):
    """play a random history on the real manager; returns the Session (ops are concrete)"""
    sess = Session(kind, shuffle, script, tape)
    n = script["n"]
    reported_done = set()
    ep = 0
    sess.apply(["r"])
    ep += 1
    while len(sess.ops) < max_ops and not sess.dead:
        if sess.last is None:
            break
        lk, val = sess.last
        over = (lk == "s" and val[2].get("__all__"))
        if lk == "r" and len(sess.ops) and sess.ops[-1][0] == "r":
            reported_done = set()
        if over or rng.random() < p_reset:
            if ep >= episodes:
                break
            sess.apply(["r"])
            reported_done = set()
            ep += 1
            continue
        if lk == "s":
            for k, d in val[2].items():
                if k != "__all__" and d:
                    reported_done.add(sess.sim.idx[k])
        live, _ = live_and_done(sess)
        r = rng.random()
        acts = {}
        if kind == 1:
            base = live[-1:] if live else []
        else:
            base = [a for a in live if rng.random() < 0.8] if rng.random() < 0.5 else list(live)
        for a in base:
            acts[a] = rng.randrange(10)
        if r < p_bad and reported_done:
            a = rng.choice(sorted(reported_done))
            acts[a] = rng.randrange(10)
            if rng.random() < 0.5:        # put the done agent somewhere other than first
                items = list(acts.items())
                rng.shuffle(items)
                acts = dict(items)
        elif r < 2 * p_bad:
            others = [a for a in range(n) if a not in acts and a not in reported_done]
            if others:
                acts[rng.choice(others)] = rng.randrange(10)
        elif r < 2.3 * p_bad:
            acts = {}
        sess.apply(["s", [[a, v] for a, v in acts.items()]])
    return sess


def gen_script(rng, max_agents=5, max_t=8, allow_big=False):
    n = rng.randint(1, max_agents)
    if allow_big and rng.random() < 0.05:
        # what the small scopes never reach: eleven and more agents (two-digit indices), late finishes
        n = rng.randint(11, 14)
        max_t = max(max_t, 30)
    learning = [rng.random() < 0.75 for _ in range(n)]
    if not any(learning):
        learning[rng.randrange(n)] = True
    done_at = []
    common = rng.randint(1, max_t)
    for a in range(n):
        r = rng.random()
        if r < 0.2:
            done_at.append(NEVER)
        elif r < 0.45:
            done_at.append(common)          # simultaneous finishes
        else:
            done_at.append(rng.randint(0, max_t))
    finish = NEVER if rng.random() < 0.4 else rng.randint(1, max_t + 2)
    noms = []
    for t in range(rng.randint(0, max_t + 3)):
        k = rng.randint(1, n)
        noms.append(rng.sample(range(n), k))
    sc = {"n": n, "learning": learning, "doneAt": done_at, "finishAt": finish, "noms": noms}
    if allow_big and rng.random() < 0.04:
        sc["unit"] = rng.choice([2 ** 53 + 1, 2 ** 54 + 3, 10 ** 15 + 7])      # rewards a float cannot hold exactly
    if n >= 11 and rng.random() < 0.5:
        sc["plainIds"] = True                 # agent0 .. agent13: agent1 is a substring of agent10, agent10 < agent2
    if rng.random() < 0.3:
        sc["npFlags"] = True                  # done flags are numpy.bool_ objects
    if rng.random() < 0.3:
        sc["rosterInPlace"] = True            # the nominated roster is one list edited in place (see StubSim)
    if rng.random() < 0.3:
        sc["scribble"] = True                 # returned dictionaries are emptied by the caller (see Session.apply)
    if not all(learning) and rng.random() < 0.4:
        # non-learning entities that only observe (1) or only act (2): not agents in the managers' sense
        sc["halves"] = [0 if learning[a] else rng.choice([0, 1, 2]) for a in range(n)]
    if rng.random() < 0.25:
        sc["shadow"] = rng.randrange(10 ** 6)  # a second manager is used in between (see Session)
    if rng.random() < 0.2:
        # a "revive": some agents stop being done again a little later (get_done is not monotone)
        sc["undoneAt"] = [d + rng.randint(1, 3) if d < NEVER and rng.random() < 0.6 else 1000000 for d in done_at]
    return sc


def exhaustive_scripts(max_learning, max_non, max_t):
    """all scripts with ≤max_learning learners, ≤max_non non-learners, done times in 0..max_t or never"""
    times = list(range(0, max_t + 1)) + [NEVER]
    for nl in range(1, max_learning + 1):
        for nn in range(0, max_non + 1):
            n = nl + nn
            for pos in itertools.combinations(range(n), nn):
                learning = [i not in pos for i in range(n)]
                for done_at in itertools.product(times, repeat=n):
                    for finish in [1, 2, max_t, NEVER]:
                        yield {"n": n, "learning": learning, "doneAt": list(done_at),
                               "finishAt": finish, "noms": []}
