"""C03 -- grid contents, agent positions and agent vitals stay mutually consistent.

The check combines these case streams (a case remembers its stream in desc["stream"]):

  move / attack / place   the per-call refinement streams of C12 / C11 / C13, re-judged with the C03
                          component of the `gmove` / `gattack` / `gplace` replies (small share of the budget:
                          they run in full under C12 / C11 / C13);
  small / hist            HISTORIES on one real world object: real state components (a placement state,
                          HealthState, AmmoState, OrientationState) reset in a random order under a scripted
                          oracle tape, then real MoveActor / CrossMoveActor / DriftMoveActor / attack actor
                          `process_action` calls the way the example simulations' `step` makes them (only for
                          `agent.active` agents), interleaved with further full resets; the world is dumped
                          after every operation and the whole history is one `ghist` request
                          (lean/Abmarl/Model/GridSimDriver.lean).  `small` = exhaustive small scopes,
                          `hist` = seeded random;
  sim                     real example simulations (abmarl/examples/sim) driven through their own `reset()` /
                          `step()` with random actions; every dumped world is judged by `gwinv` (the Lean
                          invariant as a runtime monitor; no model outcome);
  setter                  after a real full reset, vitals are written through the agents' own setters the way a
                          custom component would (health raised above 1, ammunition set below 0); the dumped
                          world is judged by `gwinv` (the setters' clamps are what keeps health in [0,1] and
                          ammunition non-negative);
  k4                      out-of-domain histories: the health reset draws exactly 0.0 (finding K4).

desc of a history = {"stream", "cfg": {"world", "place": {"kind", "opts"}, "attack": {"kind", "mapping", "stacked"}|None},
                     "ops": [["reset", [component names in reset order], tape] |
                             ["move", "move"|"cross"|"drift", agent, arg] |
                             ["attack", agent, action (wire form of p_attack), tape] ...]}
"""
import copy
import hashlib
import itertools
import json
import random

import compat  # noqa: F401
import numpy as np

import core
import gridw
import oracle
import wire
import p_attack
import p_grid
import p_place
import p_examples
from p_attack import fenc
from p_place import guarded

from abmarl.sim import is_agent
from abmarl.sim.gridworld.actor import MoveActor, CrossMoveActor, DriftMoveActor
from abmarl.sim.gridworld.state import (
    PositionState, TargetBarriersFreePlacementState, MazePlacementState, HealthState, AmmoState, OrientationState
)

MOVERS = {"move": MoveActor, "cross": CrossMoveActor, "drift": DriftMoveActor}
VITALS = ["health", "ammo", "orient"]


def _h(s):
    return hashlib.sha1(s.encode()).hexdigest()[:16]


class C03Case(core.Case):
    __slots__ = ("stream", "inner")


def _wrap(stream, inner):
    """a case of one of the per-call properties as a C03 case"""
    c = C03Case({"stream": stream, "d": inner.desc}, inner.line, inner.impl, key=(stream, inner.key or _h(inner.line)),
                nontrivial=inner.nontrivial, tags=["stream:" + stream] + [stream + ":" + t for t in inner.tags])
    c.stream, c.inner = stream, inner
    return c


# ----------------------------------------------------------------------------------------------
# histories on one real world

REPS = {"float64": np.float64, "float32": np.float32, "int64": lambda x: np.int64(int(x)), "bool": lambda x: bool(x)}


class HistSession:
    """one real grid with real agents, real state components and real actors"""

    def __init__(self, cfg):
        self.cfg = cfg
        self.w = gridw.RealWorld(copy.deepcopy(cfg["world"]))
        al = self.w.agent_list
        kw = dict(grid=self.w.grid, agents=self.w.agents)
        # state components
        pk, o = cfg["place"]["kind"], cfg["place"]["opts"]
        pkw = dict(no_overlap_at_reset=bool(o["no"]), randomize_placement_order=bool(o["rand"]), **kw)
        if pk == "position":
            pos = PositionState(**pkw)
        else:
            tgt = al[o["target"]]
            cls = TargetBarriersFreePlacementState if pk == "target" else MazePlacementState
            pos = cls(target_agent=tgt.id if o.get("by_id") else tgt, barrier_encodings=set(o["barrier"]),
                      free_encodings=set(o["free"]), cluster_barriers=bool(o["cluster"]),
                      scatter_free_agents=bool(o["scatter"]), **pkw)
        health = HealthState(**kw)
        self.comp = {"position": pos, "health": health, "healthClosed": health, "ammo": AmmoState(**kw),
                     "orient": OrientationState(**kw)}
        self.pos_wire = ["position", p_place.opts_wire(pk, o)]
        # move actors; the action space each of them declares is kept (every constructor overwrites the entry)
        self.movers, self.move_space = {}, {}
        for name, cls in MOVERS.items():
            act = cls(**kw)
            self.movers[name] = act
            self.move_space[name] = [a.action_space.get("move") if act._supported_agent(a) else None for a in al]
        # one attack actor
        self.kind = None
        at = cfg.get("attack")
        if at:
            self.kind = at["kind"]
            mapping = {int(e): (set(int(x) for x in s) if isinstance(s, list) else int(s)) for e, s in at["mapping"]}
            self.actor = p_attack.ACTORS[self.kind](attack_mapping=mapping, stacked_attacks=bool(at["stacked"]), **kw)
            self.att_space = [a.action_space.get("attack") if self.actor._supported_agent(a) else None for a in al]
            mw = [[int(e), sorted(int(x) for x in s)] for e, s in sorted(self.actor.attack_mapping.items())]
            self.head = [self.kind, mw, bool(at["stacked"])]
        # after the constructors: "FULL" ranges are resolved
        self.stat = self.w.stat_wire()
        self.stat_s = wire.enc(self.stat)
        self.dyn0 = self.w.dyn_wire()

    # --- what p_attack's action generators need ------------------------------------------------
    def space(self, a):
        sp = self.att_space[a]
        if sp is None:
            raise KeyError("attack")
        return sp

    def width(self, a):
        return 2 * self.stat[3][a][7] + 1

    py_action = p_attack.AttackSession.py_action

    # --- operations ------------------------------------------------------------------------------
    def op_wire(self, op):
        if op[0] == "reset":
            return ["reset", [self.pos_wire if c == "position" else c for c in op[1]], list(op[2])]
        if op[0] == "move":
            _, kind, a, arg = op
            return ["move", [kind, int(a), [int(arg[0]), int(arg[1])] if kind == "move" else int(arg)]]
        _, a, aw, tape = op
        return ["attack", self.head + [int(a), aw], list(tape)]

    def do(self, op):
        """run one operation on the real world; returns the trace entry and a dict of facts for the tags"""
        facts = {}
        if op[0] == "reset":
            _, order, tape = op
            tp = oracle.Tape(tape, health_open="healthClosed" not in order)

            def run():
                for name in order:
                    self.comp[name].reset()
            with oracle.scripted(tp), p_place._MazePatch(tp, []):
                st, _ = guarded(run)
        elif op[0] == "move":
            _, kind, a, arg = op
            agent = self.w.agent_list[a]
            st = "ok"
            if kind == "move":
                val = np.array(arg, dtype=int)
            else:
                val = int(arg)
            sp = self.move_space[kind][a]
            facts["skipped"] = not agent.active
            if agent.active:                       # `if agent.active:` of the simulations' step
                try:
                    inside = True if sp is None else bool(sp.contains(val))
                except Exception:  # noqa: BLE001
                    inside = False
                facts["outside"] = not inside
                if inside:                         # the managers only pass actions of the action space
                    st, _ = guarded(lambda: self.movers[kind].process_action(agent, {"move": val}))
        else:
            _, a, aw, tape = op
            agent = self.w.agent_list[a]
            st = "ok"
            facts["skipped"] = not agent.active
            if agent.active:
                action = self.py_action(a, aw)
                sp = self.att_space[a]
                try:
                    facts["outside"] = sp is not None and not bool(sp.contains(action))
                except Exception:  # noqa: BLE001
                    facts["outside"] = True
                pre_ammo = getattr(agent, "ammo", None)
                with oracle.scripted(list(tape)):
                    st, val = guarded(lambda: self.actor.process_action(agent, {"attack": action}))
                if st == "ok":
                    facts["hits"] = len(val[1])
                    facts["ammo_out"] = bool(pre_ammo) and getattr(agent, "ammo", None) == 0
        if st == "ok":
            return ["ok", self._dump()], facts
        return ["err", st], facts

    def _dump(self):
        """the world as it is - read while the arrays the CALLER owns (the agents' configured initial positions) hold
        other numbers: the caller may edit them in place between episodes (to shift the next start), and an agent's
        position is a value of its own, not a view of the configuration"""
        held = []
        for ag in self.w.agent_list:
            ip = getattr(ag, "initial_position", None)
            if isinstance(ip, np.ndarray) and ip.shape == (2,):
                held.append((ip, ip.copy()))
                ip[:] = (-7, -7)
        try:
            return self.w.dyn_wire()
        finally:
            for ip, saved in held:
                ip[:] = saved


def run_ops(sess, ops):
    """execute a fixed list of operations; the trace stops after the first error"""
    entries, facts = [], []
    for op in ops:
        e, f = sess.do(op)
        entries.append(e)
        facts.append(f)
        if e[0] != "ok":
            break
    return entries, facts


# ----------------------------------------------------------------------------------------------
# generators

def hist_kinds(rng, a, rows, cols):
    if rng.random() < 0.6:
        a["moving"] = True
        a["move_range"] = rng.choice([1, 1, 2, "FULL"])
    if rng.random() < 0.4:
        a["has_orient"] = True
        a["init_orient"] = rng.choice([None, None, 1, 2, 3, 4])
    if rng.random() < 0.45:
        a["attacking"] = True
        a["attack_range"] = rng.choice([0, 1, 1, 1, 2, "FULL"])
        a["strength"] = rng.choice(p_attack.STRENGTHS)
        a["accuracy"] = rng.choice(p_attack.ACCS)
        a["sim_attacks"] = rng.choice([0, 1, 1, 2, 3])
    if rng.random() < 0.4:
        a["has_ammo"] = True
        a["init_ammo"] = rng.randint(0, 4)
    if rng.random() < 0.3:
        a["observing"] = True
        a["view_range"] = rng.choice([0, 1, 2, "FULL"])


def gen_cfg(rng, max_side=5, max_agents=7):
    """a random legal configuration: world without state (the resets produce it), placement state, attack actor"""
    world = gridw.gen_world(rng, max_side=max_side, max_agents=max_agents, kinds=hist_kinds, dead_prob=0.0)
    encs = sorted({a["enc"] for a in world["agents"]})
    if rng.random() < 0.3:                                   # pile-ups need a permissive table
        world["overlap"] = [[e, list(encs)] for e in encs]
    state = world.pop("state")
    pfix = rng.choice([0.0, 0.0, 0.3, 0.6])
    for a, s in zip(world["agents"], state):
        # the generated positions are a legal joint placement, so any subset of them is one too
        if s["health"][0] > 0 and rng.random() < pfix:
            a["init_pos"] = list(s["pos"])
        if rng.random() < 0.5:
            a["init_health"] = rng.choice([[1, 1], [1, 1], [1, 2], [1, 4], [3, 4], [1, 1024], [5, 8]])
    n = len(world["agents"])
    kind = rng.choice(["position", "position", "position", "target", "maze"])
    combo = rng.randrange(16)
    o = {"no": bool(combo & 1), "rand": bool(combo & 2), "cluster": bool(combo & 4), "scatter": bool(combo & 8),
         "target": 0, "by_id": False, "barrier": [], "free": []}
    if kind != "position":
        o["target"] = rng.randrange(n)
        o["by_id"] = rng.random() < 0.5
        for e in encs:
            if rng.random() < 0.03:
                continue                                      # not covered: the reset raises the assertion
            (o["barrier"] if rng.random() < 0.5 else o["free"]).append(e)
    if not p_place.py_wf(world, kind, o):
        o["no"] = False                                       # stay inside wfPlacement (finding C13-K1 is C13's)
    if o["no"] and n > world["rows"] * world["cols"] and rng.random() < 0.8:
        o["no"] = False                                       # more agents than cells: the reset could only fail
    attack = None
    if rng.random() < 0.85:
        mapping = []
        for e in encs:
            row = [x for x in encs if rng.random() < 0.75]
            mapping.append([e, row[0]] if (len(row) == 1 and rng.random() < 0.3) else [e, row])
        attack = {"kind": rng.choice(p_attack.KINDS), "mapping": mapping, "stacked": rng.random() < 0.5}
    return {"world": world, "place": {"kind": kind, "opts": o}, "attack": attack}


def reset_tape(rng, world):
    n = len(world["agents"])
    ln = 4 * n + (world["rows"] + 2) * (world["cols"] + 2) + 8
    return [rng.randrange(4096) for _ in range(ln)]


def gen_reset(rng, world, closed=False):
    order = ["position", "healthClosed" if closed else "health", "ammo", "orient"]
    rng.shuffle(order)
    return ["reset", order, reset_tape(rng, world)]


def gen_move(rng, sess, a):
    cfg = sess.stat[3][a]
    kinds = ["move", "cross", "drift"] if (cfg[4] and cfg[13]) else ["move", "cross"]
    kind = rng.choice(kinds)
    if kind == "move":
        R = cfg[5] if cfg[4] else 0
        if R > 1 and rng.random() < 0.5:
            R = 1                                             # short moves keep crowds together
        return ["move", "move", a, [rng.randint(-R, R), rng.randint(-R, R)]]
    return ["move", kind, a, rng.randrange(5)]


def gen_attack(rng, sess, a):
    if sess.att_space[a] is None:
        aw = {"binary": 1, "encoding": [], "selective": [1], "restricted": [1]}[sess.kind]
    else:
        dims = p_attack.space_dims(sess, a)
        keys = p_attack.enc_keys(sess, a, rng) if sess.kind == "encoding" else None
        try:
            pt = p_attack.sample_point(sess, a, dims, rng)      # aimed at occupied cells (reads the real world)
        except Exception:  # noqa: BLE001  a world the real code has broken must not crash the generator
            pt = [rng.randrange(d) for d in dims]
        aw = p_attack.to_wire(sess, a, pt, keys)
    return ["attack", a, aw, p_attack.gen_tape(rng, 20)]


def gen_history(rng, sess, n_ops, closed=False, first=None):
    """generate and execute a history on the session's world; returns (ops, entries, facts)"""
    world = sess.cfg["world"]
    n = len(world["agents"])
    ops, entries, facts = [], [], []
    p_reset = rng.choice([0.03, 0.08, 0.15])
    p_attack_op = rng.choice([0.2, 0.4, 0.6]) if sess.kind else 0.0
    for k in range(n_ops + 1):
        al = sess.w.agent_list
        if k == 0:
            op = first or gen_reset(rng, world, closed)
        elif rng.random() < p_reset:
            op = gen_reset(rng, world, closed)
        else:
            active = [i for i in range(n) if al[i].active]
            if rng.random() < p_attack_op:
                pool = [i for i in active if sess.stat[3][i][6]] or active
                a = rng.choice(pool) if (pool and rng.random() < 0.92) else rng.randrange(n)
                op = gen_attack(rng, sess, a)
            else:
                pool = [i for i in active if sess.stat[3][i][4]] or active
                a = rng.choice(pool) if (pool and rng.random() < 0.92) else rng.randrange(n)
                op = gen_move(rng, sess, a)
        e, f = sess.do(op)
        ops.append(op)
        entries.append(e)
        facts.append(f)
        if e[0] != "ok":
            break
    return ops, entries, facts


# ---- exhaustive small scopes ---------------------------------------------------------------------

def _ag(**kw):
    return {**gridw.AG_DEFAULT, **kw}


_POS = {"kind": "position", "opts": {"no": False, "rand": False, "cluster": False, "scatter": False, "target": 0,
                                     "by_id": False, "barrier": [], "free": []}}
SMALL_CFGS = [
    # 1x1: everybody on one cell; attacker with one round kills in one hit
    {"world": {"rows": 1, "cols": 1, "overlap": [[1, [1, 2]]],
               "agents": [_ag(enc=1, moving=True, move_range=1, attacking=True, attack_range=0, strength=[1, 1],
                              has_ammo=True, init_ammo=1, init_health=[1, 1]),
                          _ag(enc=2, moving=True, move_range=1, has_orient=True, init_health=[1, 2])]},
     "place": _POS, "attack": {"kind": "binary", "mapping": [[1, [2]], [2, [1]]], "stacked": False}},
    # 1x2, no overlap: the mover is blocked by the other agent until that one is dead
    {"world": {"rows": 1, "cols": 2, "overlap": [],
               "agents": [_ag(enc=1, moving=True, move_range=1, has_orient=True, init_orient=3, attacking=True,
                              attack_range=1, strength=[1, 2], init_health=[1, 1]),
                          _ag(enc=2, moving=True, move_range=1, init_health=[1, 2])]},
     "place": _POS, "attack": {"kind": "binary", "mapping": [[1, [2]]], "stacked": False}},
    # 2x2, one-sided overlap table, three agents, drawn health and orientation, drift
    {"world": {"rows": 2, "cols": 2, "overlap": [[1, [2]]],
               "agents": [_ag(enc=1, moving=True, move_range=1, has_orient=True, attacking=True, attack_range=1,
                              strength=[1, 1], accuracy=[1, 2], has_ammo=True, init_ammo=2),
                          _ag(enc=2, moving=True, move_range="FULL", init_health=[1, 2]),
                          _ag(enc=2, blocking=True, init_pos=[1, 1])]},
     "place": _POS, "attack": {"kind": "encoding", "mapping": [[1, [2]]], "stacked": True}},
    # 2x2, maze placement around a target, restricted selective attacks
    {"world": {"rows": 2, "cols": 2, "overlap": [[1, [1]]],
               "agents": [_ag(enc=1, init_health=[1, 1]),
                          _ag(enc=1, moving=True, move_range=1, has_orient=True, init_health=[1, 4]),
                          _ag(enc=2, moving=True, move_range=1, attacking=True, attack_range=1, strength=[1, 4],
                              sim_attacks=2, init_health=[3, 4])]},
     "place": {"kind": "maze", "opts": {"no": False, "rand": True, "cluster": True, "scatter": False, "target": 0,
                                        "by_id": True, "barrier": [2], "free": [1]}},
     "attack": {"kind": "restricted", "mapping": [[2, [1]]], "stacked": True}},
    # 2x1, target placement, selective attacks, no-overlap-at-reset
    {"world": {"rows": 2, "cols": 1, "overlap": [[1, [2]], [2, [2]]],
               "agents": [_ag(enc=2, moving=True, move_range=1, has_orient=True, init_orient=2),
                          _ag(enc=1, attacking=True, attack_range=1, strength=[1, 1], has_ammo=True, init_ammo=1,
                              init_health=[1, 1])]},
     "place": {"kind": "target", "opts": {"no": True, "rand": False, "cluster": False, "scatter": True, "target": 1,
                                          "by_id": False, "barrier": [], "free": [1, 2]}},
     "attack": {"kind": "selective", "mapping": [[1, [2]]], "stacked": False}},
]


def small_alphabet(sess, quick):
    """the operations a small-scope history is built from"""
    ops = []
    world = sess.cfg["world"]
    for i, a in enumerate(world["agents"]):
        if a["moving"]:
            for x in ((2, 3) if quick else (1, 2, 3, 4)):
                ops.append(["move", "cross", i, x])
            if a["has_orient"]:
                ops.append(["move", "drift", i, 0])
                ops.append(["move", "drift", i, 4])
            ops.append(["move", "move", i, [0, 1]])
            if not quick:
                ops.append(["move", "move", i, [-1, 0]])
        if a["attacking"] and sess.kind:
            W = sess.width(i)
            aw = {"binary": 1,
                  "encoding": [[int(k), 1] for k in sess.att_space[i].spaces.keys()] if sess.kind == "encoding" else None,
                  "selective": [1] * (W * W),
                  "restricted": [W * W - (j % 2) for j in range(a["sim_attacks"])]}[sess.kind]
            ops.append(["attack", i, aw, [0] * 12])
            if not quick:
                ops.append(["attack", i, aw, [700, 3, 700, 1, 5, 2]])
    n = len(world["agents"])
    ops.append(["reset", ["health", "position", "orient", "ammo"], [1, 2, 3] * (2 * n + 6)])
    return ops


FIRST_RESETS = [
    (["position", "health", "ammo", "orient"], [0]),
    (["orient", "ammo", "health", "position"], [3, 1, 2, 5, 1023, 7]),
]


# ----------------------------------------------------------------------------------------------
# the example simulations as generators of reachable states (monitor stream)

class SimWorld(gridw.RealWorld):
    """the canonical dump of gridw.RealWorld over the grid and agents of any grid-world simulation"""

    def __init__(self, sim):  # noqa: super().__init__ builds a world from a description; not wanted here
        self.grid = sim.grid
        self.agent_list = list(sim.agents.values())
        self.agents = sim.agents
        self.idx = {a.id: i for i, a in enumerate(self.agent_list)}


def _sim_team_battle(rng, big):
    from abmarl.examples.sim.team_battle_example import BattleAgent, TeamBattleSim
    side, n = (8, 24) if big else (rng.randint(3, 5), rng.randint(4, 10))
    lo, hi = (1, side - 2) if big else (0, side - 1)
    corners = [np.array([lo, lo]), np.array([lo, hi]), np.array([hi, lo]), np.array([hi, hi])]
    fixed = big or rng.random() < 0.5
    agents = {f"agent{i}": BattleAgent(id=f"agent{i}", encoding=i % 4 + 1,
                                       **({"initial_position": corners[i % 4]} if fixed else {}))
              for i in range(n)}
    return TeamBattleSim.build_sim(
        side, side, agents=agents, overlapping={1: {1}, 2: {2}, 3: {3}, 4: {4}},
        attack_mapping={1: {2, 3, 4}, 2: {1, 3, 4}, 3: {1, 2, 4}, 4: {1, 2, 3}},
        states={"PositionState", "HealthState"}, observers={"PositionCenteredEncodingObserver"},
        dones={"OneTeamRemainingDone"}), False


def _sim_predator_prey(rng, big):
    from abmarl.examples.sim.predator_prey_resources import (
        ResourceAgent, PreyAgent, PredatorAgent, PredatorPreyResourcesSim)
    side = 8 if big else rng.randint(3, 5)
    agents = {**{f"resource_{i}": ResourceAgent(id=f"resource_{i}") for i in range(6 if big else 3)},
              **{f"prey_{i}": PreyAgent(id=f"prey_{i}") for i in range(5 if big else 3)},
              **{f"predator_{i}": PredatorAgent(id=f"predator_{i}") for i in range(2)}}
    attack_map = {2: {1}, 3: {2}}
    return PredatorPreyResourcesSim.build_sim(
        side, side, agents=agents, overlapping={1: {2, 3}, 2: {1, 2, 3}, 3: {1, 2}}, attack_mapping=attack_map,
        target_mapping=attack_map, states={"PositionState", "HealthState"},
        observers={"PositionCenteredEncodingObserver"}, dones={"ActiveDone", "TargetEncodingInactiveDone"}), False


def _sim_multi_maze(rng, big):
    from abmarl.examples.sim.multi_maze_navigation import MultiMazeNavigationAgent, MultiMazeNavigationSim
    from abmarl.sim.gridworld.agent import GridWorldAgent
    side, nb, nn = (10, 20, 5) if big else (rng.randint(4, 6), rng.randint(2, 6), rng.randint(1, 3))
    agents = {"target": GridWorldAgent(id="target", encoding=1),
              **{f"barrier{i}": GridWorldAgent(id=f"barrier{i}", encoding=2) for i in range(nb)},
              **{f"navigator{i}": MultiMazeNavigationAgent(id=f"navigator{i}", encoding=3, view_range=2)
                 for i in range(nn)}}
    return MultiMazeNavigationSim.build_sim(
        side, side, agents=agents, overlapping={1: {3}, 3: {3}}, target_agent=agents["target"],
        barrier_encodings={2}, free_encodings={1, 3}, cluster_barriers=True, scatter_free_agents=True,
        no_overlap_at_reset=True), False


def _sim_traffic(rng, big):
    from abmarl.examples.sim.traffic_corridor import WallAgent, TargetAgent, TrafficAgent, TrafficCorridorSimulation
    grid = np.array([["G", "W", "W", "W", "R"], ["r", "_", "_", "_", "g"], ["G", "W", "W", "W", "R"]])
    reg = {"R": lambda n: TrafficAgent(id=f"red{n}", encoding=1), "G": lambda n: TrafficAgent(id=f"green{n}", encoding=2),
           "r": lambda n: TargetAgent(id="red_target", encoding=1), "g": lambda n: TargetAgent(id="green_target", encoding=2),
           "W": lambda n: WallAgent(id=f"wall{n}", encoding=3)}
    sim = TrafficCorridorSimulation.build_sim_from_array(
        grid, reg, overlapping={1: {1}, 2: {2}}, states={"PositionState"}, dones={"TargetAgentOverlapDone"},
        observers={"PositionCenteredEncodingObserver"},
        target_mapping={"red0": "red_target", "red1": "red_target", "green0": "green_target",
                        "green1": "green_target"})
    return sim, False


def _sim_maze_nav(rng, big):
    import os
    import abmarl.examples.sim as ex
    from abmarl.examples.sim.maze_navigation import MazeNavigationAgent, MazeNavigationSim
    from abmarl.sim.gridworld.agent import GridWorldAgent
    reg = {"N": lambda n: MazeNavigationAgent(id="navigator", encoding=1, view_range=2),
           "T": lambda n: GridWorldAgent(id="target", encoding=3),
           "W": lambda n: GridWorldAgent(id=f"wall{n}", encoding=2, blocking=True)}
    return MazeNavigationSim.build_sim_from_file(
        os.path.join(os.path.dirname(ex.__file__), "maze.txt"), reg, overlapping={1: {3}, 3: {1}},
        states={"PositionState"}, observers={"PositionCenteredEncodingObserver"}), False


def _sim_reach_target(rng, big):
    from abmarl.examples.sim.reach_the_target import ReachTheTargetSim, RunningAgent, TargetAgent, BarrierAgent
    side = 7 if big else 5
    corners = [np.array([0, 0]), np.array([side - 1, 0]), np.array([0, side - 1]), np.array([side - 1, side - 1])]
    agents = {**{f"barrier{i}": BarrierAgent(id=f"barrier{i}") for i in range(10 if big else 4)},
              **{f"runner{i}": RunningAgent(id=f"runner{i}", move_range=2, view_range=side // 2, initial_health=1,
                                            initial_position=corners[i]) for i in range(4)},
              "target": TargetAgent(view_range=side, attack_range=1, attack_strength=1, attack_accuracy=1,
                                    initial_position=np.array([side // 2, side // 2]))}
    # the runners that reach the target are taken off the grid and deactivated by the simulation's own
    # step (`agent.active = False` with positive health): judged by the invariant without the
    # "built-in components alone" clause
    return ReachTheTargetSim.build_sim(side, side, agents=agents, overlapping={2: {3}, 3: {1, 2, 3}},
                                       attack_mapping={2: {3}}), True


SIMS = {"team_battle": _sim_team_battle, "predator_prey": _sim_predator_prey, "multi_maze": _sim_multi_maze,
        "traffic_corridor": _sim_traffic, "maze_navigation": _sim_maze_nav, "reach_the_target": _sim_reach_target}


def run_sim(name, big, seed, episodes, steps, upto=None):
    """drive a real example simulation; yields (call index, what, stat, dyn, weak) after every reset()/step()"""
    rng = random.Random(seed)
    sim, weak = SIMS[name](rng, big)
    if isinstance(getattr(sim, "_states", None), set):
        # SmartGridWorldSimulation.reset iterates a *set* of state components (unspecified order, different
        # from process to process): pinned to an order drawn from the seed, so that a run replays exactly
        order = sorted(sim._states, key=lambda c: type(c).__name__)
        rng.shuffle(order)
        sim._states = order
    sw = SimWorld(sim)
    actors = [a for a in sim.agents.values() if is_agent(a)]
    for a in actors:
        a.action_space.seed(rng.getrandbits(31))
    k = 0
    stat = None
    for ep in range(episodes):
        with oracle.scripted([rng.randrange(4096) for _ in range(600)]):
            st, _ = guarded(sim.reset, seconds=20.0)
        if stat is None:
            stat = sw.stat_wire()
        yield k, "reset", st, stat, sw.dyn_wire(), weak
        if upto is not None and k >= upto:
            return
        k += 1
        if st != "ok":
            return
        for _ in range(steps):
            acts = {a.id: a.action_space.sample() for a in actors if a.active}
            if not acts:
                break
            with oracle.scripted([rng.randrange(4096) for _ in range(300)]):
                st, _ = guarded(lambda: sim.step(acts), seconds=20.0)
            yield k, "step", st, stat, sw.dyn_wire(), weak
            if upto is not None and k >= upto:
                return
            k += 1
            if st != "ok":
                return


# ----------------------------------------------------------------------------------------------

class C03Prop(core.Prop):
    pid = "C03"
    lean_targets = ["Abmarl.Props.C03", "Abmarl.Props.Examples"]
    rule = (
        "histories on ONE real world object: a random legal configuration (grids 1x1..5x5 incl. single row/column, "
        "overlap tables from empty to complete incl. one-sided, <=7 agents mixing movers / attackers / ammunition / "
        "orientation / observing / blocking agents, some with initial position / health / orientation, the others "
        "drawn), a real PositionState | TargetBarriersFreePlacementState | MazePlacementState (16 option "
        "combinations) + HealthState + AmmoState + OrientationState reset in a random order under a scripted oracle "
        "tape, then 5..40 operations: real MoveActor / CrossMoveActor / DriftMoveActor and attack actor "
        "process_action calls made the way the example simulations' step makes them (only for agent.active agents, "
        "actions sampled from the declared action spaces) interleaved with further full resets (several episodes); "
        "the world is dumped after every operation, the whole history is one case and is compared step by step with "
        "the model's trace (traceGOps); the judge is specC03Hist on the implementation's trace. Exhaustive part: "
        "five small configurations (1x1..2x2, <=3 agents, all three placement states, all four attack actors) x two "
        "first resets x ALL operation sequences of length 3 over an alphabet of 8..19 operations (moves, drifts, "
        "attacks, resets). Plus: the per-call streams of C12 / C11 / C13 re-judged with the C03 component of their "
        "replies; real example simulations (TeamBattle, PredatorPreyResources, MultiMazeNavigation, TrafficCorridor, "
        "MazeNavigation, ReachTheTarget) driven through their own reset()/step() with random actions, every dumped "
        "world judged by the Lean invariant (gwinv); writes through the health / ammunition setters after a real "
        "reset (health raised above 1, ammunition below 0), judged by gwinv; the out-of-domain stream of finding K4 "
        "(health drawn as exactly 0.0). distinct by request line; non-trivial = some move / attack of the history changed the world (per-call "
        "streams: by their own rule; monitor: every world)" + p_examples.RULE)
    assumptions = p_examples.ASSUMPTIONS + [
        "health, strength, accuracy are exact rationals (dyadic test values, on which IEEE arithmetic is exact)",
        "numpy.random / random.shuffle are the scripted oracle tape (DESIGN.md 3.1): uniform(0, 1) never returns "
        "exactly 0 in the regular stream; the stream in which it does is finding K4",
        "list(set(..)) in generate_maze iterates in insertion order (ordered set injected into gridworld.utils)",
        "operations are made the way the example simulations' step makes them: only for agents with agent.active, "
        "only actions of the declared action space (the managers check membership, C01/C02)",
        "a world that was never given a health by HealthState is dumped with health 1 (agent.active is True from "
        "the constructor): simulations without a HealthState (MultiMazeNavigation, TrafficCorridor)",
        "ReachTheTargetSim deactivates runners by hand (agent.active = False with positive health): judged by "
        "WInvWeak (zero health -> inactive) instead of the 'built-in components alone' clause active <-> health > 0",
        "stream sim: the example simulations as a runtime monitor (no model outcome); the five classes built from built-in "
        "components are ALSO modelled (stream example-modelled); ReachTheTargetSim is modelled too (Model/Reach.lean) but its steps are judged by WInvWeak at run time",
    ]

    def __init__(self):
        self.moves = p_grid.MoveProp("C03")
        self.attacks = p_attack.AttackProp("C03")
        self.places = p_place.PlaceProp()
        self.stream_crashes = []

    # ---- history cases ------------------------------------------------------------------------
    def _hist_case(self, stream, cfg, sess, ops, entries, facts):
        opw = [sess.op_wire(op) for op in ops]
        head = "(ghist " + sess.stat_s + " " + fenc(sess.dyn0) + " " + fenc(opw)
        outs = fenc(entries)
        desc = {"stream": stream, "cfg": cfg, "ops": ops}
        tags = ["stream:" + stream, "place:" + cfg["place"]["kind"],
                "attack-actor:" + (cfg["attack"]["kind"] if cfg.get("attack") else "none")]
        nres = sum(1 for op in ops if op[0] == "reset")
        tags.append("resets:%d" % min(nres, 5))
        ln = len(ops)
        tags.append("len:" + ("1-4" if ln <= 4 else "5-10" if ln <= 10 else "11-20" if ln <= 20 else "21-41"))
        changed = False
        deaths = pile = ammo_out = 0
        prev = sess.dyn0
        for op, e, f in zip(ops, entries, facts):
            if op[0] == "move":
                tags.append("op:" + op[1])
            else:
                tags.append("op:" + op[0])
            if f.get("skipped"):
                tags.append("op-by-inactive-agent-skipped")
            if f.get("outside"):
                tags.append("outside-action-space")
            if e[0] != "ok":
                tags.append("err:%s:%s" % (op[0], e[1]))
                break
            if op[0] != "reset":
                if e[1] != prev:
                    changed = True
                deaths += sum(1 for p, q in zip(prev[1], e[1][1]) if p[2] and not q[2])
            if f.get("ammo_out"):
                ammo_out += 1
            if any(len(c) > 1 for c in e[1][0]):
                pile += 1
            prev = e[1]
        if deaths:
            tags.append("deaths-occurred")
        if pile:
            tags.append("pile-up")
        if ammo_out:
            tags.append("ammo-exhausted")
        if any(a["moving"] and a["has_orient"] for a in cfg["world"]["agents"]):
            tags.append("drift-agents")
        if any(a["has_orient"] for a in cfg["world"]["agents"]):
            tags.append("orientation-agents")
        if stream == "k4":
            # a health of exactly 0.0 came out of a reset for an agent without initial health
            zero = False
            for op, e in zip(ops, entries):
                if op[0] == "reset" and e[0] == "ok":
                    zero = zero or any(a.get("init_health") is None and s[1] == [0, 1]
                                       for a, s in zip(cfg["world"]["agents"], e[1][1]))
            tags.append("k4:zero-draw" if zero else "k4:no-zero-draw")
        c = C03Case(desc, head + " " + outs + ")", outs, key=_h(head), nontrivial=changed, tags=sorted(set(tags)))
        c.stream, c.inner = stream, None
        return c

    def _replay_hist(self, d):
        sess = HistSession(d["cfg"])
        entries, facts = run_ops(sess, d["ops"])
        return self._hist_case(d["stream"], d["cfg"], sess, d["ops"][:len(entries)], entries, facts)

    # ---- monitor cases ------------------------------------------------------------------------
    def _sim_case(self, d, what, st, stat, dyn, weak):
        line = wire.enc(["gwinv", stat, dyn])
        # a reset may fail (no legal cell left for an agent): the episode ends there and the half-filled grid
        # it leaves behind is not judged; a step may not raise
        failed_reset = what == "reset" and st in ("noCell", "assertion")
        tags = ["stream:sim", "sim:" + d["sim"], "sim-call:" + what,
                "judge:" + ("none" if failed_reset else "WInvWeak" if weak else "WInv")]
        if st != "ok":
            tags.append("sim-err:%s:%s" % (what, st))
        bad = st != "ok" and not failed_reset
        c = C03Case(dict(d), line, "err:" + st if bad else "", key=_h(line), nontrivial=True, tags=tags)
        c.stream, c.inner = "sim", None
        return c

    # ---- the interface --------------------------------------------------------------------------
    def case_from_desc(self, d):
        s = d["stream"]
        if s == "move":
            return _wrap(s, self.moves.case_from_desc(d["d"]))
        if s == "attack":
            return _wrap(s, self.attacks.case_from_desc(d["d"]))
        if s == "place":
            return _wrap(s, self.places.case_from_desc(d["d"]))
        if s == "setter":
            c = self._setter_case(d)
            if c is None:
                raise ValueError("setter case: the reset of the description fails")
            return c
        if s == "decimal":
            import c03_decimal
            return c03_decimal.case_from_desc(d)
        if s == "example-modelled":
            return self._ex_wrap(p_examples.case_from_desc(d))
        if s == "sim":
            last = None
            for k, what, st, stat, dyn, weak in run_sim(d["sim"], d["big"], d["seed"], d["episodes"], d["steps"],
                                                        upto=d["upto"]):
                last = (what, st, stat, dyn, weak)
            return self._sim_case(d, *last)
        return self._replay_hist(d)

    # ---- the streams ---------------------------------------------------------------------------
    def _small(self, quick):
        """exhaustive small scopes: every sequence of three operations after each first reset (the shorter
        sequences are their prefixes: the trace is judged and compared step by step)"""
        for cfg in SMALL_CFGS:
            alpha = small_alphabet(HistSession(cfg), quick)
            for order, tp in FIRST_RESETS:
                n = len(cfg["world"]["agents"])
                first = ["reset", order, (tp * (3 * n + 8))[:3 * n + 8]]
                for seq in itertools.product(alpha, repeat=3):
                    sess = HistSession(cfg)
                    ops = [first] + [copy.deepcopy(o) for o in seq]
                    entries, facts = run_ops(sess, ops)
                    yield self._hist_case("small", cfg, sess, ops[:len(entries)], entries, facts)

    def _hist(self, rng, count):
        made = 0
        while made < count:
            cfg = gen_cfg(rng)
            try:
                sess = HistSession(cfg)
            except (ValueError, AssertionError, KeyError, TypeError):
                continue                     # configuration rejected by the constructors
            ops, entries, facts = gen_history(rng, sess, rng.randint(5, 40))
            if len(entries) == 1 and entries[0][0] != "ok" and rng.random() < 0.9:
                continue                     # keep only a small share of the worlds whose first reset fails
            made += 1
            yield self._hist_case("hist", cfg, sess, ops, entries, facts)

    def _k4(self, rng, count):
        """out-of-domain: the health reset draws exactly 0.0 (finding K4)"""
        for _ in range(count):
            cfg = gen_cfg(rng, max_side=4, max_agents=5)
            ags = cfg["world"]["agents"]
            drawn = [i for i, a in enumerate(ags) if a.get("init_health") is None]
            if not drawn:
                ags[0]["init_health"] = None
                drawn = [0]
            try:
                sess = HistSession(cfg)
            except (ValueError, AssertionError, KeyError, TypeError):
                continue
            # the health component first: its draws are the first values of the tape, one per agent without
            # initial health in listing order; multiples of 1024 are the draws of exactly 0.0
            order = ["position", "ammo", "orient"]
            rng.shuffle(order)
            tape = reset_tape(rng, cfg["world"])
            for j in range(len(drawn)):
                if j == 0 or rng.random() < 0.3:
                    tape[j] = 1024 * rng.randrange(4)
            first = ["reset", ["healthClosed"] + order, tape]
            ops, entries, facts = gen_history(rng, sess, rng.randint(2, 12), closed=True, first=first)
            yield self._hist_case("k4", cfg, sess, ops, entries, facts)

    def _setter_case(self, d):
        """after a real full reset, write vitals through the agents' setters the way a custom component
        would (health raised, ammunition set below zero): the setters' clamps keep the invariant"""
        sess = HistSession(d["cfg"])
        e, _ = sess.do(d["first"])
        if e[0] != "ok":
            return None
        st, judge = "ok", "WInv"
        for a, what, val in d["writes"]:
            ag = sess.w.agent_list[a]
            if what == "health":
                st, _ = guarded(lambda: setattr(ag, "health", ag.health + gridw.fl(val)))
            elif what == "health_rep":
                # a value of a type the setter does not take (a numpy scalar, a bool): it is REJECTED, and a rejected
                # write leaves a consistent agent behind (zero is the interesting value: health and activity go
                # together).  Were such a value accepted, writing zero would be the caller's business: not judged.
                rep, v = val
                st2, _ = guarded(lambda: setattr(ag, "health", REPS[rep](gridw.fl(v))))
                if st2 == "ok":
                    judge = "none"
                elif st2 != "assertion":
                    st = st2
            else:
                st, _ = guarded(lambda: setattr(ag, "ammo", int(val)))
            if st != "ok":
                break
        line = wire.enc(["gwinv", sess.stat, sess.w.dyn_wire()])
        tags = ["stream:setter", "judge:" + judge] + sorted({"write:" + w[1] for w in d["writes"]})
        c = C03Case(dict(d), line, "err:" + st if st != "ok" else "", key=_h(line), nontrivial=True, tags=tags)
        c.stream, c.inner = "setter", None
        return c

    def _setter(self, rng, count):
        for _ in range(count):
            cfg = gen_cfg(rng, max_side=4, max_agents=5)
            cfg["attack"] = None
            ags = cfg["world"]["agents"]
            writes = []
            for a, ag in enumerate(ags):
                if rng.random() < 0.6:
                    writes.append([a, "health", rng.choice([[1, 4], [1, 1], [5, 1], [1023, 1024]])])
                if ag["has_ammo"] and rng.random() < 0.6:
                    writes.append([a, "ammo", rng.choice([-1, -3, 0])])
                if rng.random() < 0.3:
                    writes.append([a, "health_rep", [rng.choice(sorted(REPS)), rng.choice([[0, 1], [0, 1], [1, 2], [1, 1]])]])
            d = {"stream": "setter", "cfg": cfg, "first": gen_reset(rng, cfg["world"]), "writes": writes}
            try:
                c = self._setter_case(d)
            except (ValueError, AssertionError, KeyError, TypeError):
                continue
            if c is not None:
                yield c

    def _sims(self, rng, quick):
        """the example simulations as a monitor"""
        for name in SIMS:
            for big in ((False,) if quick else (False, True)):
                for _ in range(3 if quick else 8):
                    d = {"stream": "sim", "sim": name, "big": big, "seed": rng.getrandbits(32),
                         "episodes": 3 if quick else 4, "steps": 15 if quick else 40}
                    for k, what, st, stat, dyn, weak in run_sim(name, big, d["seed"], d["episodes"], d["steps"]):
                        yield self._sim_case({**d, "upto": k}, what, st, stat, dyn, weak)

    @staticmethod
    def _ex_wrap(c):
        k = C03Case(c.desc, c.line, c.impl, key=("example-modelled", c.key), nontrivial=c.nontrivial, tags=c.tags)
        k.stream, k.inner = "example-modelled", None
        return k

    def _examples(self, rng, quick):
        """the five modelled example classes: real objects against the model of their own step / reset / getters"""
        for c in p_examples.gen_cases(rng, "example-modelled", 450 if quick else 9000, quick):
            yield self._ex_wrap(c)

    def _percall_moves(self, rng, count):
        for _ in range(count):
            desc = gridw.gen_world(rng, kinds=p_grid.mover_kinds)
            try:
                ms = p_grid.MoveSession(desc)
            except ValueError:
                continue
            n = len(desc["agents"])
            for _ in range(15):
                a = rng.randrange(n)
                if not ms.w.agent_list[a].active:
                    continue
                kind = rng.choice(["move", "cross", "drift"])
                if kind == "move":
                    R = ms.stat[3][a][5]
                    arg = (rng.randint(-R, R), rng.randint(-R, R))
                else:
                    arg = rng.randrange(5)
                pre, cw, out = ms.call(kind, a, arg)
                yield _wrap("move", self.moves._case(desc, ms.stat, pre, cw, out, self.moves._tags(ms, pre, cw, out)))

    def _percall_attacks(self, rng, count):
        for c in itertools.islice(self.attacks.cases("quick", rng), count):
            yield _wrap("attack", c)

    def _percall_places(self, rng, count):
        made = 0
        while made < count:
            desc = p_place.gen_case(rng)
            if not p_place.py_wf(desc["world"], desc["kind"], desc["opts"]):
                continue
            try:
                for k, ps, pre, out, tape, mazes in self.places._run_desc(desc):
                    yield _wrap("place", self.places._place_case(desc, ps, pre, out, tape, k))
                    made += 1
            except ValueError:
                continue                     # the dirty prior world of the description could not be built

    def _guard(self, name, gen):
        """the per-call streams build their worlds by writing agent state directly; if the real code makes
        that impossible the stream ends, the histories and the monitor go on (see extra_checks)"""
        try:
            yield from gen
        except Exception as ex:  # noqa: BLE001
            import traceback
            self.stream_crashes.append((name, "".join(traceback.format_exception(ex))[-1500:]))

    def cases(self, tier, rng):
        quick = tier == "quick"
        self.stream_crashes = []
        yield from self._small(quick)
        yield from self._hist(rng, 2000 if quick else 50000)
        yield from self._k4(rng, 60 if quick else 600)
        yield from self._setter(rng, 150 if quick else 1500)
        import c03_decimal                          # decimal healths / strengths: monitor only (see the module)
        yield from c03_decimal.cases(rng, 40 if quick else 600)
        yield from self._sims(rng, quick)
        yield from self._examples(rng, quick)
        # the per-call streams of C12 / C11 / C13, re-judged for C03
        yield from self._guard("move", self._percall_moves(rng, 60 if quick else 600))
        yield from self._guard("attack", self._percall_attacks(rng, 2500 if quick else 25000))
        yield from self._guard("place", self._percall_places(rng, 400 if quick else 4000))

    def extra_checks(self, tier, rng, report):
        if self.stream_crashes:
            report.notes["per_call_stream_crashes"] = self.stream_crashes
            if not report.failing and not report.disagreements:
                # nothing else has shown a failure so far: the check could not do its work (exit 2)
                raise RuntimeError("per-call stream '%s' crashed:\n%s" % self.stream_crashes[0])

    def interpret(self, reply, case):
        v = self._interpret(reply, case)
        if v.impl_spec is False:
            case.tags.append("spec-false-on-impl:" + case.stream)
        if v.model != case.impl:
            case.tags.append("model-differs-from-impl:" + case.stream)
        return v

    def _interpret(self, reply, case):
        s = case.stream
        if s in ("move", "attack"):
            v = (self.moves if s == "move" else self.attacks).interpret(reply, case.inner)
            case.tags += [s + ":" + t for t in case.inner.tags if t.startswith("pre")]
            return v
        if s == "place":
            v = self.places.interpret(reply, case.inner)          # C13's verdict (parses, checks well-formedness)
            model, ms, is_ = reply
            if len(ms) < 3 or len(is_) < 9 or is_[-1] not in (0, 1):
                raise ValueError("gplace reply without the C03 component")
            wf = ms[1] == 1
            return core.Verdict(v.model, (ms[2] == 1) if wf else None, is_[-1] == 1, {"c03Place": is_[-1]})
        if s == "example-modelled":
            return p_examples.interpret(reply, case)
        if s in ("sim", "setter", "decimal"):
            winv, weak = reply
            ok = ("judge:none" in case.tags or (weak if "judge:WInvWeak" in case.tags else winv) == 1) and not case.impl
            case.tags.append("WInv:%d" % winv)
            return core.Verdict(case.impl, None, ok, {"WInv": winv, "WInvWeak": weak})
        model, ms, is_, pre, diag = reply
        if is_ not in (0, 1):
            raise ValueError("driver could not parse the implementation's trace")
        case.tags.append("pre:%d" % pre)
        detail = {"pre": pre, "first_world_failing_WInv": diag[0], "k4_excused": diag[1]}
        ms_ = fenc(model)
        if ms_ != case.impl:
            impl = wire.dec(case.impl)
            k = next((i for i, (x, y) in enumerate(zip(model, impl)) if x != y), min(len(model), len(impl)))
            detail["first_differing_step"] = k
            detail["op_at_that_step"] = case.desc["ops"][k] if k < len(case.desc["ops"]) else None
            detail["model_entry"] = fenc(model[k]) if k < len(model) else None
            detail["impl_entry"] = fenc(impl[k]) if k < len(impl) else None
        return core.Verdict(ms_, (ms == 1) if pre == 1 else None, is_ == 1, detail)

    def finding_matchers(self):
        def k4(case, v):
            d = v.detail or {}
            return (case.stream == "k4" and "k4:zero-draw" in case.tags and v.impl_spec is False
                    and d.get("k4_excused") == 1)
        return {"K4": k4}

    # ---- shrinking ----------------------------------------------------------------------------
    def shrink_candidates(self, d):
        s = d["stream"]
        sub = {"move": self.moves, "attack": self.attacks, "place": self.places}.get(s)
        if sub is not None:
            for x in sub.shrink_candidates(d["d"]):
                yield {"stream": s, "d": x}
            return
        if s == "sim":
            return
        if s == "example-modelled":
            yield from p_examples.shrink_candidates(d)
            return
        if s == "setter":
            for k in range(len(d["writes"])):
                yield {**d, "writes": d["writes"][:k] + d["writes"][k + 1:]}
            return
        ops = d["ops"]
        # shorter histories: halves first, then single operations (never the first reset)
        n = len(ops)
        if n > 2:
            yield {**d, "ops": ops[:1 + (n - 1) // 2]}
        for k in range(n - 1, 0, -1):
            yield {**d, "ops": ops[:k] + ops[k + 1:]}
        # simpler tapes
        for k, op in enumerate(ops):
            t = op[-1] if op[0] in ("reset", "attack") else None
            if t and any(t):
                if d["stream"] == "k4" and op[0] == "reset":
                    t2 = [0 if v % 1024 == 0 else 1 for v in t]
                else:
                    t2 = [0] * len(t)
                if t2 != t:
                    yield {**d, "ops": ops[:k] + [op[:-1] + [t2]] + ops[k + 1:]}
        # without the attack actor
        if d["cfg"].get("attack") and not any(op[0] == "attack" for op in ops):
            yield {**d, "cfg": {**d["cfg"], "attack": None}}
        # drop the last agent (with the operations it makes)
        cfg = d["cfg"]
        ags = cfg["world"]["agents"]
        last = len(ags) - 1
        if last >= 1 and not (cfg["place"]["kind"] != "position" and cfg["place"]["opts"]["target"] == last):
            w = copy.deepcopy(cfg["world"])
            w["agents"].pop()
            present = {a["enc"] for a in w["agents"]}
            o = dict(cfg["place"]["opts"])
            o["barrier"] = [e for e in o["barrier"] if e in present]
            o["free"] = [e for e in o["free"] if e in present]
            at = cfg.get("attack")
            if at:
                mp = [[e, ([x for x in r if x in present] if isinstance(r, list) else r)] for e, r in at["mapping"]
                      if e in present and (isinstance(r, list) or r in present)]
                at = {**at, "mapping": mp}
            ops2 = [op for op in ops if not (op[0] == "move" and op[2] == last) and not (op[0] == "attack" and op[1] == last)]
            yield {**d, "cfg": {"world": w, "place": {"kind": cfg["place"]["kind"], "opts": o}, "attack": at},
                   "ops": ops2}
        # a simpler placement state
        if cfg["place"]["kind"] != "position":
            yield {**d, "cfg": {**cfg, "place": copy.deepcopy(_POS)}}
