"""C18 (all simulation builders produce the same simulation for the same layout).

Every case runs the real `build_sim_from_array`, `build_sim_from_file`, `build_sim_from_grid` and
`build_sim` of the current working tree on one layout, plus `reset()` of the array-built
simulation (a minimal GridWorldSimulation with a PositionState), and sends the layout, the
registry, the extra agents, the file's text, the grid's contents, the explicit agents and the
five canonical outcomes to the Lean driver (op `build`).

Canonical forms (nothing hash-ordered, no floats):
  id        registry ids are f"k{ord(ch)}_{n}" -> (g ord(ch) n); other ids f"x{k}" -> (x k)
  agent     (id encoding pos), pos = () | (r c)
  builder   (ok rows cols (agent ... in dictionary order)) | (err kind)
  reset     (ok ((id (r c)) ... agents that have an initial position, dictionary order)) | (err kind)
"""
import atexit
import itertools
import json
import locale
import os
import re
import tempfile

import compat  # noqa: F401  (first: puts the working tree on sys.path)
import numpy as np

import core
import wire

RESERVED = "_.0"
REG_POOL = "ABCDab12"
UNREG_POOL = "XYZxyz789"
JOINERS = {"crlf": "\r\n", "cr": "\r", "vt": "\x0b", "ff": "\x0c", "fs": "\x1c", "gs": "\x1d", "rs": "\x1e",
           "nel": "\x85", "ls": "\u2028", "ps": "\u2029"}          # the other line boundaries of str.splitlines
TEXT_VARIANTS = ("plain", "nl", "ragged", "dspace", "empty", "blank") + tuple(JOINERS)
CLAUSES = ("reserved-registry-rejected", "array", "file", "grid", "direct", "four-agree", "reset")


# ---------------------------------------------------------------------------------------------
# the real code
# ---------------------------------------------------------------------------------------------
_SIM = None


def sim_class():
    """a minimal concrete GridWorldSimulation with a PositionState (as tests/sim/gridworld do)"""
    global _SIM
    if _SIM is None:
        from abmarl.sim.gridworld.base import GridWorldSimulation
        from abmarl.sim.gridworld.state import PositionState

        class BuilderSim(GridWorldSimulation):
            def __init__(self, **kwargs):
                super().__init__(**kwargs)
                self.position_state = PositionState(**kwargs)
                self.finalize()

            def reset(self, **kwargs):
                self.position_state.reset(**kwargs)

            def step(self, action_dict, **kwargs):
                pass

            def get_obs(self, agent_id, **kwargs):
                return {}

            def get_reward(self, agent_id, **kwargs):
                return 0

            def get_done(self, agent_id, **kwargs):
                return False

            def get_all_done(self, **kwargs):
                return False

            def get_info(self, agent_id, **kwargs):
                return {}

        _SIM = BuilderSim
    return _SIM


def id_str(cid):
    return f"k{ord(cid[1])}_{cid[2]}" if cid[0] == "g" else f"x{cid[1]}"


_G = re.compile(r"^k(\d+)_(\d+)$")
_X = re.compile(r"^x(\d+)$")


def id_canon(s):
    m = _G.match(s)
    if m:
        return ["g", int(m.group(1)), int(m.group(2))]
    m = _X.match(s)
    if m:
        return ["x", int(m.group(1))]
    raise ValueError(f"unexpected agent id {s!r}")


def pos_canon(p):
    if p is None:
        return []
    a = np.asarray(p)
    if a.shape != (2,) or not all(float(v) == int(v) for v in a):
        raise ValueError(f"unexpected position {p!r}")
    return [int(a[0]), int(a[1])]


def agent_canon(key, agent):
    if key != agent.id:
        raise ValueError(f"dictionary key {key!r} is not the agent's id {agent.id!r}")
    return [id_canon(agent.id), int(agent.encoding), pos_canon(agent.initial_position)]


def sim_canon(sim):
    return ["ok", int(sim.grid.rows), int(sim.grid.cols), [agent_canon(k, a) for k, a in sim.agents.items()]]


# the exception type behind every named rejection: when a message is not recognised (it was re-worded) the case is
# judged again under the name the model expects, provided the TYPE is right (core.judge_cases / relabel)
KIND_TYPE = {"reservedKey": "AssertionError", "ragged": "AssertionError", "badShape": "AssertionError",
             "cellTaken": "AssertionError", "posMismatch": "AssertionError", "emptyFile": "IndexError",
             "noCell": "RuntimeError", "noAgents": "ValueError"}
UNNAMED = {}          # where -> exception type name, of the run_real call in progress


def err_kind(ex, where):
    k = _err_kind(ex, where)
    if k == "crash":
        UNNAMED[where] = type(ex).__name__
    return k


def _err_kind(ex, where):
    msg = str(ex)
    if isinstance(ex, AssertionError):
        if "reserved for empty space" in msg:
            return "reservedKey"
        if "Mismatched number of columns" in msg:
            return "ragged"
        if "must be a positive integer" in msg or "must be an integer" in msg:
            return "badShape"
        if "is not available for" in msg:
            return "cellTaken"
        if where == "grid" and "not equal" in msg.lower():
            return "posMismatch"
        return "crash"
    if isinstance(ex, IndexError) and where == "file":
        return "emptyFile"
    if isinstance(ex, RuntimeError):
        return "noCell"               # the only RuntimeError of the placement states, whatever its wording
    if isinstance(ex, ValueError) and where == "reset" and "max()" in msg:
        return "noAgents"
    return "crash"


def make_registry(reg):
    from abmarl.sim.gridworld.agent import GridWorldAgent
    out = {}
    for ch, enc in reg:
        out[ch] = (lambda n, ch=ch, enc=enc: GridWorldAgent(id=f"k{ord(ch)}_{n}", encoding=enc))
    return out


def make_extras(extras):
    """a fresh dictionary every time: the builders fill the caller's dictionary in place"""
    from abmarl.sim.gridworld.agent import GridWorldAgent
    out = {}
    for e in extras:
        ip = None if e["ipos"] is None else np.array(e["ipos"])
        out[id_str(e["id"])] = GridWorldAgent(id=id_str(e["id"]), encoding=e["enc"], initial_position=ip)
    return out


def layout_listing(cells, cols, reg):
    """the layout as an explicit list (ch, n, enc, (r, c)) in reading order; input of the grid and
    of the direct build (the Lean specification judges it through those two outcomes)"""
    enc = dict((ch, e) for ch, e in reversed(reg))
    cnt, out = {}, []
    for i, ch in enumerate(cells):
        if ch in enc:
            n = cnt.get(ch, 0)
            cnt[ch] = n + 1
            out.append((ch, n, enc[ch], (i // cols, i % cols)))
    return out


def make_text(cells, rows, cols, variant):
    lines = [" ".join(cells[r * cols:(r + 1) * cols]) for r in range(rows)]
    if variant == "ragged" and rows == 1:
        variant = "dspace"
    if variant == "plain":
        return "\n".join(lines)
    if variant == "nl":
        return "\n".join(lines) + "\n"
    if variant in ("nel", "ls", "ps") and locale.getpreferredencoding(False).lower().replace("-", "") != "utf8":
        variant = "vt"                                      # keep the file ASCII under a non-UTF-8 locale
    if variant in JOINERS:
        return JOINERS[variant].join(lines)
    if variant == "blank":
        return "\n".join(lines) + "\n\n"
    if variant == "empty":
        return ""
    if variant == "ragged":
        last = lines[-1].split(" ")
        lines[-1] = " ".join(last[:-1]) if len(last) > 1 else lines[-1] + " X"
        return "\n".join(lines)
    if variant == "dspace":
        first = lines[0].split(" ")
        lines[0] = first[0] + "  " + " ".join(first[1:]) if len(first) > 1 else first[0] + " "
        return "\n".join(lines)
    raise ValueError(variant)


_LAYOUT_PATH = []


def _layout_path():
    if not _LAYOUT_PATH:
        fd, path = tempfile.mkstemp(prefix="c18_layout_", suffix=".txt")
        os.close(fd)
        _LAYOUT_PATH.append(path)
        atexit.register(lambda: os.path.exists(path) and os.unlink(path))
    return _LAYOUT_PATH[0]


def run_real(desc):
    """run the four real builders and reset; return (request parts, canonical outcomes)"""
    from abmarl.sim.gridworld.grid import Grid
    Sim = sim_class()
    rows, cols, cells, reg, extras = desc["rows"], desc["cols"], desc["cells"], desc["reg"], desc["extras"]
    text = make_text(cells, rows, cols, desc.get("text", "plain"))
    listing = layout_listing(cells, cols, reg)
    registry = make_registry(reg)
    np.random.seed(desc.get("npseed", 0))

    def ex_arg():
        return make_extras(extras) if extras or desc.get("empty_dict") else None

    def kw():
        """the extra_agents keyword: left out altogether when there is nothing to pass and the description
        says so (the builders' own default is then used)"""
        ex = ex_arg()
        return {} if ex is None and desc.get("omit_kw") else {"extra_agents": ex}

    # 0. earlier builds in the same process (a history: the measured builds must not depend on them, nor
    #    change them): another layout over the same registry through the three layout builders, defaults only
    warm = []
    if desc.get("warm"):
        wr, wc, wcells = desc["warm"]["rows"], desc["warm"]["cols"], desc["warm"]["cells"]
        try:
            warm.append(Sim.build_sim_from_array(np.array(wcells, dtype=str).reshape(wr, wc), dict(registry)))
            wgrid = Grid(wr, wc)
            wgrid.reset()
            for ch, n, _, (r, c) in layout_listing(wcells, wc, reg):
                a = registry[ch](n)
                a.initial_position = np.array([r, c])
                wgrid.place(a, (r, c))
            warm.append(Sim.build_sim_from_grid(wgrid))
            with open(_layout_path(), "w", newline="") as f:     # the same path held this other layout before
                f.write(make_text(wcells, wr, wc, "plain"))
            warm.append(Sim.build_sim_from_file(_layout_path(), dict(registry)))
        except Exception:  # noqa: BLE001
            warm = []                                       # not a legal warm-up layout: no history then
    warm_before = [sim_canon(w) for w in warm]

    # 1. array (same contents whatever the memory layout of the array handed in)
    arr = np.array(cells, dtype=str).reshape(rows, cols)
    mem = desc.get("mem", "C")
    if mem == "F":
        arr = np.asfortranarray(arr)
    elif mem == "T":
        arr = np.ascontiguousarray(arr.T).T                 # a transposed view
    elif mem == "neg":
        arr = np.ascontiguousarray(arr[::-1, ::-1])[::-1, ::-1]   # a view with negative strides
    assert arr.shape == (rows, cols) and [str(x) for row in arr for x in row] == [str(x) for x in cells]
    sim_a = None
    try:
        sim_a = Sim.build_sim_from_array(arr, dict(registry), **kw())
        out_a = sim_canon(sim_a)
    except Exception as ex:  # noqa: BLE001
        out_a = ["err", err_kind(ex, "array")]
    # 2. file
    # ONE path per process, rewritten for every case (a history: the file at a path changes between builds; what a
    # builder remembers about a path from an earlier build must not matter)
    path = _layout_path()
    with open(path, "w", newline="") as f:              # default encoding: the one the builder reads with
        f.write(text)
    try:
        out_f = sim_canon(Sim.build_sim_from_file(path, dict(registry), **kw()))
    except Exception as ex:  # noqa: BLE001
        out_f = ["err", err_kind(ex, "file")]
    # 3. grid holding the layout's agents
    grid = Grid(rows, cols)
    grid.reset()
    for ch, n, _, (r, c) in listing:
        a = registry[ch](n)
        a.initial_position = np.array([r, c])
        if not grid.place(a, (r, c)):
            raise RuntimeError("harness: could not place a layout agent on an empty grid")
    grid_canon = []
    for r in range(rows):
        for c in range(cols):
            cell = grid[r, c]
            grid_canon.append("n" if cell is None else [agent_canon(k, a) for k, a in cell.items()])
    if (rows + cols + len(cells)) % 2 == 0:
        # a history: the agents of the grid have been used elsewhere since they were placed (another simulation moved
        # them): their run-time `position` says something else than the cell that holds them.  The builder reads the
        # grid and the configured initial positions, not run-time state.
        for r in range(rows):
            for c in range(cols):
                for a in (grid[r, c] or {}).values():
                    a.position = np.array([rows - 1 - r, cols - 1 - c])
    try:
        out_g = sim_canon(Sim.build_sim_from_grid(grid, **kw()))
    except Exception as ex:  # noqa: BLE001
        out_g = ["err", err_kind(ex, "grid")]
    if [sim_canon(w) for w in warm] != warm_before:
        # a later build changed a simulation built earlier: reported as a failure of the builder used last
        out_g = ["err", "earlier-build-changed"]
    # 4. direct: the prescribed agents, explicitly
    explicit = {}
    for ch, n, _, (r, c) in listing:
        a = registry[ch](n)
        a.initial_position = np.array([r, c])
        explicit[a.id] = a
    for k, a in make_extras(extras).items():
        if k not in explicit:
            explicit[k] = a
    explicit_canon = [agent_canon(k, a) for k, a in explicit.items()]
    try:
        out_d = sim_canon(Sim.build_sim(rows, cols, agents=explicit))
    except Exception as ex:  # noqa: BLE001
        out_d = ["err", err_kind(ex, "direct")]
    # 5. reset of the array-built simulation
    if sim_a is None:
        out_r = ["err", out_a[1]]
    else:
        try:
            sim_a.reset()
            placed = []
            for k, a in sim_a.agents.items():
                if a.initial_position is not None:
                    placed.append([id_canon(k), pos_canon(a.position)])
                    if k not in sim_a.grid[tuple(a.position)]:
                        raise LookupError("grid does not hold the agent at its position")   # -> "crash"
            out_r = ["ok", placed]
        except Exception as ex:  # noqa: BLE001
            out_r = ["err", err_kind(ex, "reset")]
    req = [rows, cols, [ord(ch) for ch in cells], [[ord(ch), e] for ch, e in reg],
           [[[e["id"][0]] + [ord(x) if isinstance(x, str) else x for x in e["id"][1:]], e["enc"],
             [] if e["ipos"] is None else list(e["ipos"])] for e in extras],
           [ord(ch) for ch in text], grid_canon, explicit_canon]
    return req, [out_a, out_f, out_g, out_d, out_r]


# ---------------------------------------------------------------------------------------------
# the property
# ---------------------------------------------------------------------------------------------
class BuildersProp(core.Prop):
    pid = "C18"
    lean_targets = ["Abmarl.Props.C18"]
    rule = ("layouts (shapes 1x1 .. 5x6 incl. single row/column; exhaustive 1x1/1x2/2x1/2x2 over a 4-letter "
            "alphabet, then seeded random arrangements of registered, unregistered and reserved characters, "
            "structured fills with characters repeated along rows and columns) x registries of 2-4 characters with "
            "distinct encodings x extra-agent dictionaries (with/without initial position, id clashes with another "
            "encoding/position, near-clashes) x file text variants (plain, final newline; irregular texts compare "
            "model and code only); distinct by the whole description; non-trivial = at least one layout agent on "
            "a grid with more than one cell")
    rule += ("; " + 'histories and representations: earlier builds of another layout in the same process, one layout file path rewritten per case, arrays in C / Fortran order and as transposed / negatively strided views, the extra_agents keyword omitted; a share of BIG layouts (8..13 x 10..14) and layouts with several hundred agents of one character')
    assumptions = [
        "agent ids f\"{name}{n}\" of different registered characters never coincide (names end in a non-digit): "
        "the model's ids are pairs (character, n)",
        "PositionState is run with the default empty overlapping matrix; agents without an initial position are "
        "placed by numpy's random choice afterwards and only the success of that step is modelled",
        "cells are single characters other than space and line boundaries (the property's alphanumerics and "
        "empty markers); files are ASCII",
        "the integer 0 of an object-dtype array is not modelled: arrays are string arrays, as in a file",
    ]

    # -- cases ------------------------------------------------------------------------------
    def relabel(self, case, verdict):
        if not getattr(case, "unnamed", None):
            return None
        model = wire.dec(verdict.model)
        impl = [list(o) for o in case.impl_list]
        changed = False
        for i, where in enumerate(("array", "file", "grid", "direct", "reset")):
            t = case.unnamed.get(where)
            m = model[i] if i < len(model) else None
            if t and isinstance(m, list) and len(m) == 2 and str(m[0]) == "err" and KIND_TYPE.get(str(m[1])) == t \
                    and impl[i] == ["err", "crash"]:
                impl[i] = ["err", str(m[1])]
                changed = True
        if changed and "array" in case.unnamed and impl[4] == ["err", "crash"] and "reset" not in case.unnamed:
            impl[4] = ["err", impl[0][1]]        # no array-built simulation to reset: the entry repeats the array's
        return self._make_case(case.desc, case.req, impl, {}) if changed else None

    def case_from_desc(self, desc):
        UNNAMED.clear()
        req, impl = run_real(desc)
        return self._make_case(desc, req, impl, dict(UNNAMED))

    def _make_case(self, desc, req, impl, unnamed):
        line = wire.enc(["build"] + req + [impl])
        cells, reg = desc["cells"], desc["reg"]
        regch = [ch for ch, _ in reg]
        n_layout = sum(1 for ch in cells if ch in regch)
        rows, cols = desc["rows"], desc["cols"]
        tags = ["shape:" + ("1x1" if rows * cols == 1 else "row" if rows == 1 else "col" if cols == 1 else "rect"),
                "text:" + desc.get("text", "plain"),
                "extras:%d" % len(desc["extras"]),
                "layout-agents:" + ("0" if n_layout == 0 else "1-3" if n_layout <= 3 else "4+")]
        if any(cells.count(ch) > 1 for ch in regch):
            tags.append("repeated-char")
        tags.append("array-memory:" + desc.get("mem", "C"))
        if desc.get("warm"):
            tags.append("after-earlier-builds")
        if desc.get("omit_kw"):
            tags.append("extra_agents-omitted")
        layout_ids = {(ch, n) for ch, n, _, _ in layout_listing(cells, cols, reg)}
        if any(e["id"][0] == "g" and (e["id"][1], e["id"][2]) in layout_ids for e in desc["extras"]):
            tags.append("id-clash")
        if any(ch in "._" for ch in regch):
            tags.append("registry:reserved")
        if "0" in regch:
            tags.append("registry:zero")
        if any(ch in RESERVED for ch in cells):
            tags.append("reserved-cell")
        if any(ch not in regch and ch not in RESERVED for ch in cells):
            tags.append("unregistered-cell")
        tags.append("reset:" + (impl[4][0] if impl[4][0] == "ok" else impl[4][1]))
        for name, o in zip(("array", "file", "grid", "direct"), impl[:4]):
            if o[0] == "err":
                tags.append(f"{name}:{o[1]}")
        c = core.Case(desc, line, wire.enc(impl), key=json.dumps(desc, sort_keys=True),
                      nontrivial=n_layout >= 1 and rows * cols > 1, tags=tags)
        c.req, c.impl_list, c.unnamed = req, impl, unnamed
        if unnamed:
            c.tags.append("unnamed-exception")
        return c

    def cases(self, tier, rng):
        quick = tier == "quick"
        reg2 = [["A", 1], ["B", 2]]
        # exhaustive smallest scopes
        shapes = [(1, 1), (1, 2), (2, 1), (2, 2)] if quick else [(1, 1), (1, 2), (2, 1), (2, 2), (1, 3), (3, 1)]
        for rows, cols in shapes:
            for i, cells in enumerate(itertools.product("AB_X", repeat=rows * cols)):
                d = {"rows": rows, "cols": cols, "cells": list(cells), "reg": reg2,
                     "extras": [], "text": "plain" if (rows + cols) % 2 else "nl"}
                yield self.case_from_desc(d)
                if rows * cols > 1:
                    # the same layout from an array with another memory layout, after an earlier build of the
                    # reversed layout, with the builders' default for extra_agents
                    yield self.case_from_desc(dict(d, mem=("F", "T", "neg")[i % 3], omit_kw=True,
                                                   warm={"rows": rows, "cols": cols, "cells": list(cells)[::-1]}))
        if not quick:
            for cells in itertools.product("A_X", repeat=6):
                for rows, cols in ((2, 3), (3, 2)):
                    yield self.case_from_desc({"rows": rows, "cols": cols, "cells": list(cells), "reg": reg2,
                                               "extras": [{"id": ["g", "A", 1], "enc": 9, "ipos": [0, 0]}],
                                               "text": "nl"})
        # what the small scopes never reach: several hundred agents of ONE character (three-digit numbers, more than 256)
        for _ in range(2 if quick else 12):
            rows, cols = rng.randint(17, 20), rng.randint(16, 20)
            ch = rng.choice("ABQ")
            cells = [ch if rng.random() < 0.9 else "_" for _ in range(rows * cols)]
            yield self.case_from_desc({"rows": rows, "cols": cols, "cells": cells, "reg": [[ch, 1], ["Z", 2]],
                                       "extras": [], "text": "nl", "npseed": rng.randrange(2 ** 31),
                                       "mem": rng.choice(("C", "F"))})
        for _ in range(500 if quick else 20000):
            yield self.case_from_desc(gen_desc(rng))

    # -- verdict ----------------------------------------------------------------------------
    def interpret(self, reply, case):
        outs, ms, is_, cm, ci = reply
        if is_ not in (0, 1):
            raise ValueError("driver could not parse the implementation outcomes")
        detail = {"clauses": list(CLAUSES), "clauses_on_model": cm, "clauses_on_impl": ci,
                  "failed_on_impl": [n for n, b in zip(CLAUSES, ci) if not b]}
        # finding B1 (registry key '0' not rejected) was repaired in /repo (e0e97b5): a registered '0' is now
        # inside the domain of C18_all_builders_agree like '.' and '_'
        model_ok = ms == 1
        return core.Verdict(wire.enc(outs), model_ok, is_ == 1, detail)

    def extra_checks(self, tier, rng, report):
        """round 6 (runtime only, no model): a registered factory that FAILS with a KeyError of its own at its n-th
        call (a name table shorter than the number of that character in the layout).  The builders count the agents
        of a character with a dictionary and a `try / except KeyError`; the factory's exception is not theirs to
        handle: both layout builders must let it through, and must not hand back a simulation."""
        Sim = sim_class()
        done = 0
        for _ in range(400):
            if done >= (40 if tier == "quick" else 400):
                break
            desc = gen_desc(rng)
            listing = layout_listing(desc["cells"], desc["cols"], desc["reg"])
            counts = {}
            for ch, n, _, _ in listing:
                counts[ch] = max(counts.get(ch, 0), n + 1)
            many = sorted(ch for ch, k in counts.items() if k >= 2)
            if not many or any(ch in "._0" for ch, _ in desc["reg"]):
                continue
            ch0 = rng.choice(many)
            at = rng.randrange(1, counts[ch0])
            done += 1

            def registry():
                reg = make_registry(desc["reg"])
                inner = reg[ch0]

                def failing(n):
                    if n == at:
                        return {}["name table of %s has no entry %d" % (ch0, n)]      # a KeyError of the factory's own
                    return inner(n)
                reg[ch0] = failing
                return reg
            d = dict(desc, factory_fault=[ch0, at])
            arr = np.array(desc["cells"], dtype=str).reshape(desc["rows"], desc["cols"])
            path = _layout_path()
            with open(path, "w", newline="") as f:
                f.write(make_text(desc["cells"], desc["rows"], desc["cols"], "plain"))
            for what, build in (("array", lambda: Sim.build_sim_from_array(arr, registry())),
                                ("file", lambda: Sim.build_sim_from_file(path, registry()))):
                try:
                    build()
                    report.runtime_failure("the %s builder returned a simulation although the registered factory raised "
                                           "KeyError at its call number %d" % (what, at), d)
                except KeyError:
                    pass
                except Exception as ex:  # noqa: BLE001
                    report.runtime_failure("the %s builder turned the factory's KeyError into %s"
                                           % (what, type(ex).__name__), d)
        report.notes["factory_fault_builds"] = done
        # (seeded change C18-r3m1; runtime only: the model's registry keys are single characters) more than nine kinds
        # of object keyed by their NUMBER, or by a two-letter name: a cell token of the file is what stands between two
        # spaces, a cell of the array is a string - both builders look the whole token up in the registry
        from abmarl.sim.gridworld.agent import GridWorldAgent
        toks_pool = ["10", "11", "12", "1", "2", "W2", "AB", "A", "B7"]
        multi = 0
        for _ in range(30 if tier == "quick" else 300):
            rows, cols = rng.randint(1, 4), rng.randint(1, 5)
            keys = rng.sample(toks_pool, rng.randint(2, 5))
            if not any(len(k) > 1 for k in keys):
                continue
            cells = [rng.choice(keys + [".", "_", "0", "X", "XY"]) for _ in range(rows * cols)]
            encs = {k: i + 1 for i, k in enumerate(keys)}

            def registry():
                return {k: (lambda n, k=k: GridWorldAgent(id="t%s_%d" % (k, n), encoding=encs[k])) for k in keys}
            cnt, expected = {}, []
            for i, tok in enumerate(cells):
                if tok in encs:
                    n = cnt.get(tok, 0)
                    cnt[tok] = n + 1
                    expected.append(("t%s_%d" % (tok, n), encs[tok], (i // cols, i % cols)))
            expected.sort()
            d = {"multi_character_tokens": True, "rows": rows, "cols": cols, "cells": cells, "keys": keys}
            arr = np.array(cells, dtype=object).reshape(rows, cols)
            path = _layout_path()
            with open(path, "w", newline="") as f:
                f.write("\n".join(" ".join(cells[r * cols:(r + 1) * cols]) for r in range(rows)))
            multi += 1
            for what, build in (("array", lambda: Sim.build_sim_from_array(arr, registry())),
                                ("file", lambda: Sim.build_sim_from_file(path, registry()))):
                try:
                    sim = build()
                    got = sorted((a.id, int(a.encoding), tuple(int(x) for x in a.initial_position))
                                 for a in sim.agents.values())
                except Exception as ex:  # noqa: BLE001
                    got = "raised %s" % type(ex).__name__
                if got != expected:
                    report.runtime_failure("the %s builder does not build one agent per registered token of a layout with "
                                           "tokens of several characters: %r instead of %r" % (what, got, expected), d)
                    break
        report.notes["multi_character_token_layouts"] = multi

    def finding_matchers(self):
        return {}

    def shrink_candidates(self, desc):
        rows, cols, cells = desc["rows"], desc["cols"], desc["cells"]

        def fix(d):
            d["extras"] = [dict(e, ipos=None) if e["ipos"] is not None and
                           (e["ipos"][0] >= d["rows"] or e["ipos"][1] >= d["cols"]) else e for e in d["extras"]]
            return d
        if any(ch == "0" for ch, _ in desc["reg"]):
            # leave the out-of-domain corner (finding B1) first: the failure may have nothing to do with it
            yield dict(desc, reg=[["Q" if ch == "0" else ch, e] for ch, e in desc["reg"]],
                       cells=["Q" if ch == "0" else ch for ch in cells],
                       extras=[dict(e, id=["g", "Q", e["id"][2]]) if e["id"][:2] == ["g", "0"] else e
                               for e in desc["extras"]])
        if desc.get("text", "plain") != "plain":
            yield dict(desc, text="plain")
        for k in ("warm", "mem", "omit_kw"):
            if desc.get(k):
                yield {kk: vv for kk, vv in desc.items() if kk != k}
        for i in range(len(desc["extras"])):
            yield dict(desc, extras=desc["extras"][:i] + desc["extras"][i + 1:])
        for r in range(rows - 1, -1, -1):
            if rows > 1:
                yield fix(dict(desc, rows=rows - 1, cells=cells[:r * cols] + cells[(r + 1) * cols:]))
        for c in range(cols - 1, -1, -1):
            if cols > 1:
                yield fix(dict(desc, cols=cols - 1, cells=[x for i, x in enumerate(cells) if i % cols != c]))
        for i, ch in enumerate(cells):
            if ch != "_":
                yield dict(desc, cells=cells[:i] + ["_"] + cells[i + 1:])
        for i in range(len(desc["reg"])):
            if len(desc["reg"]) > 1:
                yield dict(desc, reg=desc["reg"][:i] + desc["reg"][i + 1:])


# ---------------------------------------------------------------------------------------------
# generators
# ---------------------------------------------------------------------------------------------
def gen_desc(rng):
    u = rng.random()
    if u < 0.06:
        # what the small scopes never reach: ten and more rows / columns, two-digit agent numbers per character
        rows, cols = rng.randint(8, 13), rng.randint(10, 14)
    elif u < 0.12:
        rows, cols = 1, rng.randint(1, 6)
    elif u < 0.24:
        rows, cols = rng.randint(1, 5), 1
    else:
        rows, cols = rng.randint(1, 5), rng.randint(1, 6)
    nreg = rng.randint(2, 4)
    regch = rng.sample(REG_POOL, nreg)
    v = rng.random()
    if v < 0.03:
        regch[rng.randrange(nreg)] = rng.choice("._")          # out of domain: must be rejected
    elif v < 0.06:
        regch[rng.randrange(nreg)] = "0"                       # out of domain: finding B1
    encs = rng.sample(range(1, 8), nreg)
    reg = [[ch, e] for ch, e in zip(regch, encs)]
    unreg = rng.sample(UNREG_POOL, rng.randint(1, 3))
    n = rows * cols
    style = rng.random()
    if style < 0.08:
        cells = [rng.choice(regch)] * n                        # one character everywhere
    elif style < 0.16:
        col_ch = [rng.choice(regch + ["_"]) for _ in range(cols)]   # repeated down the columns
        cells = [col_ch[i % cols] for i in range(n)]
    elif style < 0.24:
        row_ch = [rng.choice(regch + ["."]) for _ in range(rows)]   # repeated along the rows
        cells = [row_ch[i // cols] for i in range(n)]
    elif style < 0.28:
        cells = [rng.choice(list(RESERVED) + unreg) for _ in range(n)]  # no agent at all
    else:
        dens = rng.choice((0.15, 0.4, 0.7, 0.95))
        cells = [rng.choice(regch) if rng.random() < dens else rng.choice(list(RESERVED) + unreg)
                 for _ in range(n)]
    listing = layout_listing(cells, cols, reg)
    occupied = {pos for _, _, _, pos in listing}
    free = [(r, c) for r in range(rows) for c in range(cols) if (r, c) not in occupied]
    rng.shuffle(free)
    extras, used_ids, other = [], set(), 0
    for _ in range(rng.choice((0, 0, 1, 1, 2, 3, 4))):
        k = rng.random()
        enc = rng.randint(1, 9)
        if k < 0.35 and listing:                               # id clash: the layout's agent must win
            ch, m, lenc, pos = rng.choice(listing)
            cid = ["g", ch, m]
            enc = lenc + 1 + rng.randrange(3)
            choices = [None] + [p for p in [(rng.randrange(rows), rng.randrange(cols))] if p != pos]
            ipos = rng.choice(choices)
        elif k < 0.45:                                         # near clash: registered character, unused number
            ch = rng.choice(regch)
            cid = ["g", ch, cells.count(ch) + rng.randrange(2)]
            ipos = free.pop() if free and rng.random() < 0.5 else None
        elif k < 0.5:                                          # id of an unregistered character
            cid = ["g", rng.choice(unreg), rng.randrange(3)]
            ipos = None
        else:
            cid = ["x", other]
            other += 1
            w = rng.random()
            if w < 0.45:
                ipos = None
            elif w < 0.92 and free:
                ipos = free.pop()
            else:                                              # may claim a layout cell: reset must fail
                ipos = (rng.randrange(rows), rng.randrange(cols))
        if tuple(cid) in used_ids:
            continue
        used_ids.add(tuple(cid))
        extras.append({"id": cid, "enc": enc, "ipos": None if ipos is None else list(ipos)})
    rng.shuffle(extras)
    t = rng.random()
    text = "plain" if t < 0.45 else "nl" if t < 0.88 else rng.choice(TEXT_VARIANTS[2:])
    desc = {"rows": rows, "cols": cols, "cells": cells, "reg": reg, "extras": extras, "text": text,
            "npseed": rng.randrange(2 ** 31)}
    if not extras and rng.random() < 0.3:
        desc["empty_dict"] = True                              # extra_agents={} instead of None
    elif not extras and rng.random() < 0.6:
        desc["omit_kw"] = True                                 # the keyword is not passed at all
    m = rng.random()
    if m < 0.45:
        desc["mem"] = rng.choice(("F", "T", "neg"))            # same contents, another memory layout
    if rng.random() < 0.4:                                     # earlier builds of another layout in this process
        wr, wc = rng.randint(1, 5), rng.randint(1, 6)
        desc["warm"] = {"rows": wr, "cols": wc,
                        "cells": [rng.choice(regch) if rng.random() < 0.5 else "_" for _ in range(wr * wc)]}
    return desc
