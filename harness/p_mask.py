"""C10 (blocking / shadow mask): the real `create_grid_and_mask` against the Lean model `Mask.maskOf`.

A layout is a real `Grid` with real `GridWorldAgent`s: a viewer and any number of others, each
with its `blocking` flag and an `active` flag (an inactive agent keeps its last position but is
not on the grid, exactly as after a lethal attack).  The real function is called with the real
objects; the mask it returns is canonicalised to rows of ints (1 visible / 0 hidden / 2 any
other value) and sent, with every agent's offset from the viewer and flags in dictionary order,
to the driver op `mask`.

Families (see `cases`): every offset of one blocker at every range; every viewer position in
every grid up to 6x6 (window cut by the border); all ordered pairs; sampled triples; sampled
mixes of blocking / non-blocking / inactive / out-of-range agents.  Symmetry is additionally
tested directly on the real code (no model involved): the mask of a transformed layout must be
the transformed mask, for all eight symmetries of the square; failures are reported as
runtime-check violations.
"""
import json

import compat  # noqa: F401  (first: puts the working tree on sys.path)
import numpy as np

import core
import gridw
import lean as L
import wire

from abmarl.sim.gridworld.grid import Grid
from abmarl.sim.gridworld.agent import GridWorldAgent
import abmarl.sim.gridworld.utils as gu

# the eight symmetries of the square, as in Lean `Mask.Sym`: transpose first, then negate
SYMS = [(sw, nr, nc) for sw in (0, 1) for nr in (0, 1) for nc in (0, 1)]
_ENC = {1: {1, 2, 3}, 2: {1, 2, 3}, 3: {1, 2, 3}}  # everything may overlap: any offset is placeable


def act(s, r, c):
    sw, nr, nc = s
    if sw:
        r, c = c, r
    return (-r if nr else r, -c if nc else c)


def act_mask(s, m):
    """table t with t[act(s, cell)] = m[cell] (indices are offsets + R)"""
    sw, nr, nc = s
    t = m.T if sw else m
    if nr:
        t = t[::-1, :]
    if nc:
        t = t[:, ::-1]
    return t


def case_no(rd, cd):
    """which of the eight branches of utils.py an offset selects (0 = none)"""
    if cd > 0 and rd == 0:
        return 1
    if cd > 0 and rd > 0:
        return 2
    if cd == 0 and rd > 0:
        return 3
    if cd < 0 and rd > 0:
        return 4
    if cd < 0 and rd == 0:
        return 5
    if cd < 0 and rd < 0:
        return 6
    if cd == 0 and rd < 0:
        return 7
    if cd > 0 and rd < 0:
        return 8
    return 0


class _Grids:
    """real Grid objects re-used between cases (kept empty between calls)"""

    def __init__(self):
        self.cache = {}

    def get(self, rows, cols):
        g = self.cache.get((rows, cols))
        if g is None:
            g = Grid(rows, cols, overlapping={k: set(v) for k, v in _ENC.items()})
            g.reset()
            if len(self.cache) > 64:
                self.cache.clear()
            self.cache[(rows, cols)] = g
        return g

    def drop(self, rows, cols):
        self.cache.pop((rows, cols), None)


_GRIDS = _Grids()


def run_real(desc):
    """Build the layout, call the real function.  Returns (R, blockers, outcome) where blockers
    is [(rd, cd, blocking, active)] in dictionary order (viewer first) and outcome is either
    ('m', rows-of-ints, numpy mask) or ('e', exception type name)."""
    R, rows, cols = desc["R"], desc["rows"], desc["cols"]
    vr, vc = desc["viewer"]
    grid = _GRIDS.get(rows, cols)
    viewer = GridWorldAgent(id="viewer", encoding=1, blocking=bool(desc.get("viewer_blocking", False)))
    agents = {"viewer": viewer}
    placed = []
    blockers = [(0, 0, viewer.blocking, True)]
    try:
        if not grid.place(viewer, (vr, vc)):
            raise RuntimeError("harness: cannot place the viewer")
        placed.append(viewer)
        for k, (r, c, bl, ac) in enumerate(desc["others"]):
            a = GridWorldAgent(id=f"o{k}", encoding=2 if bl else 3, blocking=bool(bl))
            if ac:
                if not grid.place(a, (r, c)):
                    raise RuntimeError("harness: cannot place an agent")
                placed.append(a)
            else:
                # an agent that died: its position attribute is stale, it is not on the grid
                a.position = np.array([r, c])
                a.health = 0
                assert a.active is False
            agents[a.id] = a
            blockers.append((r - vr, c - vc, bool(bl), bool(ac)))
        # a history: the same viewer object has asked before, with the same range, when every other agent on the
        # grid was blocking (flags switched through the public setter and back); the mask depends on the current
        # layout only
        flags = [(a, a.blocking) for a in agents.values() if a is not viewer]
        try:
            for a, _ in flags:
                a.blocking = True
            gu.create_grid_and_mask(viewer, grid, R, agents)
            # ... and a call that RAISES part-way (round 6): the dictionary ends with an agent that has never been
            # placed (no position yet), after every blocker was processed; what that call left behind anywhere
            # (module-level scratch, caches) must not reach the next, legal call
            ghost = GridWorldAgent(id="ghost", encoding=3, blocking=True)
            bad = dict(agents)
            bad["ghost"] = ghost
            try:
                gu.create_grid_and_mask(viewer, grid, R, bad)
            except Exception:  # noqa: BLE001
                pass
        except Exception:  # noqa: BLE001
            pass
        finally:
            for a, b in flags:
                a.blocking = b
        try:
            _, mask = gu.create_grid_and_mask(viewer, grid, R, agents)
            m = np.asarray(mask)
            if m.ndim != 2:
                out = ("m", [[2]], m)
            else:
                canon = np.where(m == 1, 1, np.where(m == 0, 0, 2)).astype(int)
                out = ("m", canon.tolist(), canon)
        except Exception as ex:  # the code under test raised on a well-formed layout
            out = ("e", type(ex).__name__)
    finally:
        try:
            for a in placed:
                grid.remove(a, a.position)
        except Exception:
            _GRIDS.drop(rows, cols)
    return R, blockers, out


def centred(R, offsets, flags=None, pad=0, viewer_blocking=False):
    """desc of a layout on a grid just large enough for the window (+ pad), viewer in the centre"""
    n = 2 * (R + pad) + 1
    ctr = R + pad
    others = []
    for k, (rd, cd) in enumerate(offsets):
        bl, ac = flags[k] if flags else (True, True)
        others.append([ctr + rd, ctr + cd, bool(bl), bool(ac)])
    d = {"R": R, "rows": n, "cols": n, "viewer": [ctr, ctr], "others": others}
    if viewer_blocking:
        d["viewer_blocking"] = True
    return d


class MaskProp(core.Prop):
    pid = "C10"

    def __init__(self):
        self.lean_targets = ["Abmarl.Props.C10"]
        self.rule = (
            "layouts (range R, viewer cell in a real Grid, other GridWorldAgents with blocking/active flags) run "
            "through the real create_grid_and_mask and the Lean model; every cell of the (2R+1)^2 mask compared. "
            "Exhaustive: every offset of one blocker at every range (quick 0..8, thorough 0..24), all four flag "
            "combinations at every offset for R<=3, all ordered pairs of offsets (quick R<=3, thorough R<=5), "
            "every viewer cell of every grid up to 6x6 at every range 0..6 (thorough: with one blocker on every "
            "other cell); seeded random: triples and flag/out-of-range mixes, each with its eight dihedral images. "
            "distinct by (R, grid, viewer, agents with offsets and flags); non-trivial = some active blocking agent "
            "other than on the viewer's cell lies within the window")
        self.assumptions = [
            "float <-> integer: the real code compares one correctly rounded float division (2*rd+-1)*t/(2*cd+-1) "
            "of exact small integers with an integer; the model compares the cross-multiplied integers exactly. "
            "That both decide the same for every range < 2^25 is a paper argument (DESIGN.md §5 C10), supported "
            "by the exhaustive correspondence up to range 24; it is not a Lean theorem",
            "theorems are about offsets relative to the viewer; that the offsets are `other.position - "
            "agent.position` and that the grid border does not influence the mask is checked by the differential "
            "runs over every viewer position of every grid up to 6x6, not proved",
            "direct symmetry and flag-filter checks on the real code are runtime-only (no model involved)",
        ]
        self._rt = []          # runtime-only failures found while generating cases (first three kept)
        self.sym_checks = 0
        self.direct_failures = 0

    # -- one case -----------------------------------------------------------------------------
    def _case(self, desc, family, real=None):
        R, blockers, out = real if real is not None else run_real(desc)
        if out[0] == "m":
            impl_rows = out[1]
            impl = wire.enc(impl_rows)
        else:
            impl_rows = [[2]]          # not a 0/1 table: the judge answers -2 = "does not satisfy the spec"
            impl = wire.enc(["e", out[1]])
        line = wire.enc(["mask", R, [list(b) for b in blockers], impl_rows])
        qual = [b for b in blockers if b[2] and b[3] and abs(b[0]) <= R and abs(b[1]) <= R]
        nontrivial = any((b[0], b[1]) != (0, 0) for b in qual)
        tags = ["fam:" + family, "R:%02d" % R, "agents:%d" % (len(blockers) - 1)]
        for b in blockers[1:]:
            if not b[2]:
                tags.append("flag:non-blocking")
            if not b[3]:
                tags.append("flag:inactive")
            if abs(b[0]) > R or abs(b[1]) > R:
                tags.append("flag:out-of-range")
        for b in qual:
            tags.append("branch:%d" % case_no(b[0], b[1]))
        if out[0] == "e":
            tags.append("impl-raised:" + out[1])
        ctr = desc["rows"] == desc["cols"] and desc["viewer"] == [desc["rows"] // 2] * 2 and desc["rows"] % 2 == 1
        key = json.dumps([R, blockers, None if ctr and desc["rows"] >= 2 * R + 1 else
                          [desc["rows"], desc["cols"], desc["viewer"]]])
        return core.Case(desc, line, impl, key=key, nontrivial=nontrivial, tags=tags)

    def case_from_desc(self, desc):
        if "layout" in desc:
            # replay of a direct (model-free) check that failed: it names two layouts.  The model is
            # symmetric and ignores non-qualifying agents (theorems), so at least one of the two real
            # masks differs from the model's: return that one as an ordinary case.
            cands = [self._case(desc["layout"], "replay"),
                     self._case(desc.get("image") or desc.get("filtered"), "replay")]
            for c, r in zip(cands, L.run_driver([c.line for c in cands])):
                if self.interpret(wire.dec(r), c).model != c.impl:
                    return c
            return cands[0]
        return self._case(desc, desc.get("family", "replay"))

    # -- direct symmetry test on the real code ----------------------------------------------------
    def _sym_fail(self, what, desc, desc2, s):
        self.direct_failures += 1
        if len(self._rt) < 3:
            self._rt.append((what, {"layout": desc, "image": desc2, "symmetry(swap,negR,negC)": list(s)}))

    def _with_images(self, R, offsets, flags, family, pad=0, viewer_blocking=False, syms=SYMS):
        """the layout and its dihedral images as ordinary cases + direct comparison of the real masks"""
        d0 = centred(R, offsets, flags, pad, viewer_blocking)
        r0 = run_real(d0)
        yield self._case(d0, family, r0)
        for s in syms:
            if s == (0, 0, 0):
                continue
            d1 = centred(R, [act(s, rd, cd) for rd, cd in offsets], flags, pad, viewer_blocking)
            r1 = run_real(d1)
            self.sym_checks += 1
            if r0[2][0] == "m" and r1[2][0] == "m":
                if not np.array_equal(act_mask(s, r0[2][2]), r1[2][2]):
                    self._sym_fail("real code: mask of the transformed layout is not the transformed mask", d0, d1, s)
            elif r0[2] != r1[2]:
                self._sym_fail("real code: raises on a layout but not on its image", d0, d1, s)
            yield self._case(d1, family + "-image", r1)

    def _exhaustive_with_sym(self, R, tuples, family):
        """all layouts of a family closed under the symmetries: every case once, then the direct
        comparison of the stored real masks (no additional calls)"""
        store = {}
        for offs in tuples:
            d = centred(R, offs)
            real = run_real(d)
            store[tuple(offs)] = (d, real[2])
            yield self._case(d, family, real)
        for offs, (d, out) in store.items():
            for s in SYMS[1:]:
                img = tuple(act(s, rd, cd) for rd, cd in offs)
                d1, out1 = store[img]
                self.sym_checks += 1
                if out[0] == "m" and out1[0] == "m":
                    if not np.array_equal(act_mask(s, out[2]), out1[2]):
                        self._sym_fail("real code: mask of the transformed layout is not the transformed mask",
                                       d, d1, s)
                elif out[:2] != out1[:2]:
                    self._sym_fail("real code: raises on a layout but not on its image", d, d1, s)

    # -- generators -------------------------------------------------------------------------------
    def cases(self, tier, rng):
        quick = tier == "quick"
        self._rt, self.sym_checks, self.direct_failures = [], 0, 0

        # A. one active blocking agent at every offset of the window, every range
        for R in range(0, (8 if quick else 24) + 1):
            win = range(-R, R + 1)
            yield from self._exhaustive_with_sym(R, [((rd, cd),) for rd in win for cd in win], "one")

        # A+. quick tier too: one blocker at every offset of two LONG ranges (cells exactly on a shadow ray first occur
        #     at range 15: finding F7), without the symmetric images
        if quick:
            for R in (15, 17):
                win = range(-R, R + 1)
                for rd in win:
                    for cd in win:
                        yield self._case(centred(R, [(rd, cd)]), "one-long-range")

        # A'. every flag combination (and a blocking viewer) at every offset, small ranges
        for R in range(0, 4):
            win = range(-R, R + 1)
            for rd in win:
                for cd in win:
                    for fl in ((True, False), (False, True), (False, False)):
                        yield self._case(centred(R, [(rd, cd)], [fl]), "one-flags")
                    yield self._case(centred(R, [(rd, cd)], None, 0, True), "one-viewer-blocking")
            # just outside the window: must be ignored
            for rd in range(-R - 1, R + 2):
                for cd in range(-R - 1, R + 2):
                    if max(abs(rd), abs(cd)) == R + 1:
                        yield self._case(centred(R, [(rd, cd)], None, 1), "one-outside")

        # B. the window cut by the border: every viewer cell of every grid up to 6x6, every range 0..6
        for rows in range(1, 7):
            for cols in range(1, 7):
                cells = [(r, c) for r in range(rows) for c in range(cols)]
                for (vr, vc) in cells:
                    for R in range(0, 7):
                        if quick:
                            k = rng.randint(1, 4)
                            others = []
                            for _ in range(k):
                                r, c = rng.choice(cells)
                                others.append([r, c, rng.random() < 0.8, rng.random() < 0.85])
                            yield self._case({"R": R, "rows": rows, "cols": cols, "viewer": [vr, vc],
                                              "others": others}, "border")
                        else:
                            for (r, c) in cells:
                                yield self._case({"R": R, "rows": rows, "cols": cols, "viewer": [vr, vc],
                                                  "others": [[r, c, True, True]]}, "border")
                            r, c = rng.choice(cells)
                            r2, c2 = rng.choice(cells)
                            yield self._case({"R": R, "rows": rows, "cols": cols, "viewer": [vr, vc],
                                              "others": [[r, c, True, True], [r2, c2, rng.random() < 0.7, True]]},
                                             "border")

        # C. all ordered pairs of offsets
        for R in range(0, (3 if quick else 5) + 1):
            offs = [(rd, cd) for rd in range(-R, R + 1) for cd in range(-R, R + 1)]
            yield from self._exhaustive_with_sym(R, [(a, b) for a in offs for b in offs], "pair")

        # D. sampled triples, each with its seven images run through the real function
        ntri = 1500 if quick else 50000
        for i in range(ntri):
            R = rng.randint(1, 6 if quick else 10)
            offs = [(rng.randint(-R, R), rng.randint(-R, R)) for _ in range(3)]
            yield from self._with_images(R, offs, None, "triple")

        # E. sampled mixes: 1..5 agents, any flags, some out of range, viewer sometimes blocking;
        #    direct check on the real code that only active blocking agents in range matter
        nmix = 600 if quick else 8000
        for i in range(nmix):
            R = rng.randint(0, 6 if quick else 10)
            pad = rng.randint(0, 2)
            k = rng.randint(1, 5)
            offs = [(rng.randint(-R - pad, R + pad), rng.randint(-R - pad, R + pad)) for _ in range(k)]
            flags = [(rng.random() < 0.6, rng.random() < 0.7) for _ in range(k)]
            if rng.random() < 0.35:
                # a blocking agent that died on a cell (stale position) and another, living blocker standing on that
                # very cell, listed before or after it
                j = rng.randrange(k)
                flags[j] = (True, True)
                at = rng.randrange(k + 1)
                offs.insert(at, offs[j])
                flags.insert(at, (True, False))
                k += 1
            vb = rng.random() < 0.3
            yield from self._with_images(R, offs, flags, "mix", pad, vb)
            d0 = centred(R, offs, flags, pad, vb)
            keep = [j for j in range(k) if flags[j][0] and flags[j][1]
                    and abs(offs[j][0]) <= R and abs(offs[j][1]) <= R]
            d1 = centred(R, [offs[j] for j in keep], None, pad, False)
            o0, o1 = run_real(d0)[2], run_real(d1)[2]
            self.sym_checks += 1
            if o0[:2] != o1[:2]:
                self.direct_failures += 1
                if len(self._rt) < 3:
                    self._rt.append(("real code: removing the non-blocking / inactive / out-of-range agents "
                                     "changes the mask", {"layout": d0, "filtered": d1}))

        # F. crowds: more agents than the window has cells (26-93 agents for ranges 2-4), several to a cell - a
        #    non-blocking agent that stood there first and a blocker that joined it; what a cell hides does not
        #    depend on how many agents the simulation has
        for i in range(50 if quick else 1500):
            R = rng.randint(2, 4)
            pad = rng.randint(0, 1)
            k = (2 * R + 1) ** 2 + rng.randint(1, 12)
            offs, flags = [], []
            while len(offs) < k:
                o = (rng.randint(-R - pad, R + pad), rng.randint(-R - pad, R + pad))
                if rng.random() < 0.12:
                    offs += [o, o]
                    flags += [(False, True), (True, True)]
                else:
                    offs.append(o)
                    flags.append((rng.random() < 0.08, rng.random() < 0.9))
            yield from self._with_images(R, offs, flags, "crowd", pad, rng.random() < 0.2,
                                         syms=SYMS if i % 5 == 0 else SYMS[:2])

        # G. numerically fragile ties: a single blocker and a range that reaches a cell exactly on one of its rays, at
        #    which some other floating-point evaluation order of the ray formula would miss the exact value
        #    (gridw.fragile_ties: 273 blockers up to range 40); quick: the layout and one of its images
        by_blocker = {}
        for dr, dc, r, c in gridw.fragile_ties(40):
            by_blocker[(dr, dc)] = max(by_blocker.get((dr, dc), 0), r, c)
        for (dr, dc), R in sorted(by_blocker.items()):
            k = (dr + 3 * dc) % 7 + 1
            yield from self._with_images(R, [(dr, dc)], None, "fragile-tie", 0, False,
                                         syms=[SYMS[k]] if quick else SYMS)

    def extra_checks(self, tier, rng, report):
        report.notes["direct_checks_on_real_code"] = self.sym_checks
        report.notes["direct_checks_failed"] = self.direct_failures
        for what, desc in self._rt:
            report.runtime_failure(what, desc)

    # -- verdict ----------------------------------------------------------------------------------
    def interpret(self, reply, case):
        table, ms, is_ = reply
        if is_ not in (0, 1, -2):
            raise ValueError("driver did not receive an implementation outcome")
        model = wire.enc(table)
        detail = None
        if model != case.impl:
            R = case.desc["R"]
            try:
                impl_rows = wire.dec(case.impl)
                diffs = [{"cell_offset": [i - R, j - R], "numpy_index": [i, j], "model": table[i][j],
                          "impl": impl_rows[i][j]}
                         for i in range(len(table)) for j in range(len(table[i]))
                         if impl_rows[i][j] != table[i][j]]
                detail = {"cells_differing": len(diffs), "first": diffs[:5],
                          "legend": "1 = visible, 0 = hidden; offsets are (rows, cols) from the viewer"}
            except Exception:
                detail = {"impl_outcome_is_not_a_table": case.impl[:200]}
        return core.Verdict(model, ms == 1, is_ == 1, detail)

    def shrink_candidates(self, desc):
        others = desc["others"]
        for i in range(len(others)):
            yield dict(desc, others=others[:i] + others[i + 1:])
        if desc.get("viewer_blocking"):
            yield dict(desc, viewer_blocking=False)
        if desc["R"] > 0:
            yield dict(desc, R=desc["R"] - 1)
        for i, o in enumerate(others):
            if not (o[2] and o[3]):
                yield dict(desc, others=others[:i] + [[o[0], o[1], True, True]] + others[i + 1:])
