"""C12 (moves) and the mover part of C03: per-call refinement of the real move actors."""
import copy
import json

import compat  # noqa: F401
import numpy as np

import core
import gridw
import poke
import wire
from mgr import guarded

from abmarl.sim.gridworld.actor import MoveActor, CrossMoveActor, DriftMoveActor


def mover_kinds(rng, a, rows, cols):
    r = rng.random()
    if r < 0.75:
        a["moving"] = True
        a["move_range"] = rng.choice([0, 1, 1, 2, "FULL"]) if max(rows, cols) < 8 else \
            rng.choice([1, 2, 5, 8, max(rows, cols) - 1, max(rows, cols) + 2, "FULL"])   # big worlds: long moves too
        if rng.random() < 0.6:
            a["has_orient"] = True
            a["init_orient"] = rng.choice([None, 1, 2, 3, 4])
    elif r < 0.85:
        a["has_orient"] = True


class MoveSession:
    def __init__(self, desc):
        self.w = gridw.RealWorld(desc)
        kw = dict(grid=self.w.grid, agents=self.w.agents)
        if desc.get("grid0"):
            # a history: the actors are built over ANOTHER grid (another shape), look at it, and are then given the
            # real one through the public `grid` setter of the component: bounds are those of the grid they have now
            from abmarl.sim.gridworld.grid import Grid
            g0 = Grid(int(desc["grid0"][0]), int(desc["grid0"][1]))
            kw["grid"] = g0
        self.actors = {"move": MoveActor(**kw), "cross": CrossMoveActor(**kw), "drift": DriftMoveActor(**kw)}
        if desc.get("grid0"):
            for act in self.actors.values():
                _ = (act.rows, act.cols)
                act.grid = self.w.grid
        self.w.finish()
        self.stat = self.w.stat_wire()
        for act in self.actors.values():
            poke.rejected(act, desc)
        poke.rejected(self.w.grid, desc, only={"overlapping"})

    def call(self, kind, a, arg, rep=None):
        """returns (pre_dyn, call_wire, outcome_wire); rep = representation of the action value (a numpy integer
        type name): equal as a value and a member of the declared action space, another object type"""
        agent = self.w.agent_list[a]
        pre = self.w.dyn_wire()
        if kind == "move":
            val = np.array(arg, dtype=int)
            cw = ["move", a, [int(arg[0]), int(arg[1])]]
            if rep:
                alt = np.array(arg, dtype=getattr(np, rep))
                if [int(x) for x in alt] == [int(x) for x in val]:
                    val = alt
        else:
            val = int(arg)
            cw = [kind, a, int(arg)]
            if rep:
                val = getattr(np, rep)(int(arg))
        if rep:
            sp = getattr(agent, "action_space", None)
            try:
                inside = sp is not None and "move" in sp and val in sp["move"]
            except Exception:  # noqa: BLE001
                inside = False
            if not inside:      # not a point of the declared space in this representation: use the plain one
                val = np.array(arg, dtype=int) if kind == "move" else int(arg)
                rep = None
        self.last_rep = rep
        ad = {"move": val}
        st, val = guarded(lambda: self.actors[kind].process_action(agent, ad))
        if st == "ok":
            ret = -1 if val is None else int(bool(val))
            left = ad["move"]
            left = 0 if kind == "move" else int(left)
            out = ["ok", ret, self.w.dyn_wire(), left]
        else:
            if st == "crash" and str(val).startswith("KeyError"):
                st = "keyError"                  # Grid.remove of an agent that is in no cell (named by exception type)
            post = self.w.dyn_wire()
            if post != pre:
                # the call RAISED and left another world behind (round 6: a move processed for an agent that an attack
                # took off the grid).  The judge has no "raised" outcome that carries a world, so it is handed the
                # world as that of a call that returned False: "refused => nothing changed" and the invariant judge it
                out = ["ok", 0, post, 0]
                self.raised_changed = st
            else:
                out = ["err", st]
        return pre, cw, out


class MoveProp(core.Prop):
    def __init__(self, pid):
        self.pid = pid
        self.spec_idx = {"C12": 0, "C03": 1}[pid]
        self.lean_targets = ["Abmarl.Props." + pid]
        self.rule = ("legal grid worlds (grids 1x1..5x5 incl. single row/column, overlap tables from empty to complete "
                     "incl. one-sided, crowding, dead agents); every mover cell x every action of the action space "
                     "exhaustively on small grids, then seeded random op sequences; each real process_action call is one "
                     "case (pre-world, call, post-world); distinct by (world, call); non-trivial = destination inside "
                     "the grid and different from the source")
        self.rule += ("; histories and representations on purpose: the overlap table of the live grid is replaced through "
                      "its setter between calls, grids built with another table first, actions as numpy integers of "
                      "several widths; a share of BIG worlds (up to 18x18, 15 agents, 12 encodings, long moves), crowds "
                      "of 13..18 agents on one cell, corridors of 130..300 cells")
        self.assumptions = ["health is an exact rational (dyadic test values)",
                            "worlds are built by setting agent state directly and placing active agents through Grid.place"]

    def _case(self, desc, stat, pre, cw, out, tags, rep=None):
        line = wire.enc(["gmove", stat, pre, cw, out])
        d = {"world": desc, "pre": pre, "call": cw}
        if rep:
            d["rep"] = rep
            tags = tags + ["action-as:" + rep]
        if desc.get("overlap0") is not None:
            tags = tags + ["overlap-table-replaced"]
        return core.Case(d, line, wire.enc(out), key=json.dumps([stat, pre, cw]), nontrivial="moved" in tags or "blocked" in tags,
                         tags=tags)

    def _tags(self, sess, pre, cw, out):
        tags = [cw[0]]
        if getattr(sess, "raised_changed", None):
            tags.append("raised-with-changed-world:" + str(sess.raised_changed))
            sess.raised_changed = None
        if out[0] != "ok":
            tags.append("err:" + out[1])
        elif out[1] == -1:
            tags.append("unsupported")
        else:
            moved = out[2] != pre
            tags.append("moved" if moved else ("stay-ok" if out[1] == 1 else "blocked"))
        return tags

    def case_from_desc(self, d):
        desc = copy.deepcopy(d["world"])
        # the pre-state of the call is authoritative: rebuild the world from it
        sess = MoveSession(desc)
        self._load_dyn(sess, d["pre"])
        cw = d["call"]
        pre, cw2, out = sess.call(cw[0], cw[1], cw[2], rep=d.get("rep"))
        return self._case(d["world"], sess.stat, pre, cw2, out, self._tags(sess, pre, cw2, out), rep=sess.last_rep)

    @staticmethod
    def _load_dyn(sess, dyn):
        cells, sts = dyn
        state = [{"pos": s[0], "health": s[1], "ammo": s[3], "orient": s[4] if s[4] else 1} for s in sts]
        w = sess.w
        w.grid.reset()
        for a, s in zip(w.agent_list, state):
            a.health = gridw.fl(s["health"])
            if hasattr(a, "initial_ammo"):
                a.ammo = s["ammo"]
            if hasattr(a, "initial_orientation"):
                a.orientation = s["orient"]
            a.position = np.array(s["pos"])
        # re-create the cells in their insertion order
        rows, cols = w.grid.rows, w.grid.cols
        for i, cell in enumerate(cells):
            for aidx in cell:
                ag = w.agent_list[aidx]
                w.grid[i // cols, i % cols][ag.id] = ag

    def extra_checks(self, tier, rng, report):
        for what, desc in getattr(self, "_rt", []):
            report.runtime_failure(what, desc)

    def cases(self, tier, rng):
        quick = tier == "quick"
        self._rt = []
        # exhaustive: every mover cell x every action, small grids
        sizes = [(r, c) for r in range(1, 4 if quick else 5) for c in range(1, 5 if quick else 6)]
        for rows, cols in sizes:
            for rep in range(2 if quick else 6):
                base = gridw.gen_world(rng, max_side=5, max_agents=5, kinds=mover_kinds, dead_prob=0.1)
                base["rows"], base["cols"] = rows, cols
                # re-draw legal positions for the new size
                desc = _relocate(rng, base)
                if desc is None:
                    continue
                movers = [i for i, a in enumerate(desc["agents"]) if a["moving"]]
                if not movers:
                    continue
                m = movers[0]
                R = max(rows, cols) - 1
                for r0 in range(rows):
                    for c0 in range(cols):
                        d2 = copy.deepcopy(desc)
                        d2["state"][m]["pos"] = [r0, c0]
                        d2["state"][m]["health"] = [1, 1]
                        try:
                            sess = MoveSession(d2)
                        except ValueError:
                            gridw.STATS["illegal"] -= 1      # (the mover put on EVERY cell: some hold incompatible agents)
                            continue
                        pre0 = sess.w.dyn_wire()
                        for dr in range(-R, R + 1):
                            for dc in range(-R, R + 1):
                                self._load_dyn(sess, pre0)
                                pre, cw, out = sess.call("move", m, (dr, dc))
                                yield self._case(d2, sess.stat, pre, cw, out, self._tags(sess, pre, cw, out))
                        for kind in ("cross", "drift"):
                            for act in range(5):
                                for orient in ((1, 2, 3, 4) if kind == "drift" else (1,)):
                                    self._load_dyn(sess, pre0)
                                    if hasattr(sess.w.agent_list[m], "initial_orientation"):
                                        sess.w.agent_list[m].orientation = orient
                                    rep = (None, "uint8", "int64", "uint32")[(act + orient + r0 + c0) % 4]
                                    pre, cw, out = sess.call(kind, m, act, rep=rep)
                                    yield self._case(d2, sess.stat, pre, cw, out, self._tags(sess, pre, cw, out),
                                                     rep=sess.last_rep)
        # what the small scopes never reach: a crowd of 13..18 agents piled on the cell next to the mover, and
        # corridors longer than 128 and 256 cells with the mover far out
        for desc in _extreme_worlds(rng, 6 if quick else 60):
            try:
                sess = MoveSession(desc)
            except ValueError as ex:
                # these descriptions are legal by construction (every agent of the crowd may join the others): a grid
                # that refuses to hold them is the failure
                self._rt.append(("real code: a legal world could not be set up (%s)" % ex, desc))
                continue
            pre0 = sess.w.dyn_wire()
            m = desc["mover"]
            for kind, arg in ([("move", (dr, dc)) for dr in (-1, 0, 1) for dc in (-1, 0, 1)] +
                              [(k, a_) for k in ("cross", "drift") for a_ in range(5)]):
                self._load_dyn(sess, pre0)
                pre, cw, out = sess.call(kind, m, arg)
                yield self._case(desc, sess.stat, pre, cw, out, self._tags(sess, pre, cw, out) + ["extreme:" + desc["family"]])

        # random op sequences
        nworlds = 300 if quick else 10000
        for _ in range(nworlds):
            desc = gridw.maybe_late(rng, gridw.maybe_enc0(rng, gridw.gen_world(rng, kinds=mover_kinds), 0.08), 0.08)
            if rng.random() < 0.12:
                desc["grid0"] = [max(1, desc["rows"] + rng.choice([-2, -1, 1, 2, 3])),
                                 max(1, desc["cols"] + rng.choice([-2, -1, 1, 2, 3]))]
            try:
                sess = MoveSession(desc)
            except ValueError:
                continue
            n = len(desc["agents"])
            for _ in range(15 if quick else 30):
                if rng.random() < 0.08:
                    desc = _retable(rng, sess, desc)      # the overlap table is replaced on the live grid
                a = rng.randrange(n)
                ag = sess.w.agent_list[a]
                if not ag.active and rng.random() < 0.7:
                    continue      # a move for an inactive agent raises KeyError from Grid.remove (or is refused): the
                    #               world must be what it was (round 6); most cases go to the living
                kind = rng.choice(["move", "cross", "drift"])
                if kind == "move":
                    R = sess.stat[3][a][5]
                    arg = (rng.randint(-R, R), rng.randint(-R, R))
                else:
                    arg = rng.randrange(5)
                rep = None
                if rng.random() < 0.4:
                    rep = rng.choice(["int64", "int32", "int16", "int8"] if kind == "move" else
                                     ["int64", "int32", "int8", "uint8", "uint16", "uint32", "uint64"])
                pre, cw, out = sess.call(kind, a, arg, rep=rep)
                yield self._case(desc, sess.stat, pre, cw, out, self._tags(sess, pre, cw, out), rep=sess.last_rep)

    def interpret(self, reply, case):
        model, ms, is_ = reply
        if is_[self.spec_idx] not in (0, 1):
            raise ValueError("driver could not parse the implementation outcome")
        case.tags.append("preWInv:%d" % ms[2])
        return core.Verdict(wire.enc(model), ms[self.spec_idx] == 1, is_[self.spec_idx] == 1)


def _extreme_worlds(rng, count):
    for i in range(count):
        mover = dict(gridw.AG_DEFAULT, enc=1, moving=True, move_range=1, has_orient=True, init_orient=rng.randint(1, 4))
        one = lambda pos: {"pos": list(pos), "health": [1, 1], "ammo": 0, "orient": rng.randint(1, 4)}  # noqa: E731
        if i % 2 == 0:
            k = rng.randint(13, 18)                       # a crowd: all may overlap (one of them may not, sometimes)
            rows, cols = rng.randint(1, 3), rng.randint(2, 3)
            pile = (rng.randrange(rows), rng.randrange(cols))
            free = [(r, c) for r in range(rows) for c in range(cols) if (r, c) != pile]
            near = [q for q in free if max(abs(q[0] - pile[0]), abs(q[1] - pile[1])) == 1]
            mpos = rng.choice(near or free)               # next to the pile: one step joins it
            odd = i % 4 == 2                              # (every second crowd holds one agent the mover may not join)
            agents = [mover] + [dict(gridw.AG_DEFAULT, enc=2) for _ in range(k)] + ([dict(gridw.AG_DEFAULT, enc=3)] if odd else [])
            overlap = [[1, [1, 2]], [2, [2, 3]]]           # 1 may join 2, not 3
            state = [one(mpos)] + [one(pile) for _ in range(k)] + ([one(pile)] if odd else [])
            yield {"rows": rows, "cols": cols, "overlap": overlap, "agents": agents, "state": state, "mover": 0,
                   "family": "crowd"}
        else:
            long = rng.choice([130, 200, 257, 300])
            rows, cols = (rng.randint(1, 2), long) if rng.random() < 0.5 else (long, rng.randint(1, 2))
            far = rng.choice([126, 127, 128, 129, 254, 255, 256, 257, long - 2, long - 1])
            far = min(far, long - 1)
            mpos = (rng.randrange(rows), far) if cols == long else (far, rng.randrange(cols))
            other = dict(gridw.AG_DEFAULT, enc=2)
            opos = (mpos[0], mpos[1] - 1) if cols == long else (mpos[0] - 1, mpos[1])
            yield {"rows": rows, "cols": cols, "overlap": [], "agents": [mover, other],
                   "state": [one(mpos), one(opos)], "mover": 0, "family": "long-grid"}


def _retable(rng, sess, desc):
    """replace the overlap table of the live grid through the public setter (between two calls of one session) by
    another one under which the agents that share a cell now may still do so; returns the description that goes
    with the cases from now on (the first table stays in it as the table the grid was built with)"""
    encs = sorted({a["enc"] for a in desc["agents"]})
    new = gridw.gen_overlap(rng, encs)
    sym = gridw.closed(new)
    grid = sess.w.grid
    for r in range(grid.rows):
        for c in range(grid.cols):
            cell = grid[r, c]
            if cell and len(cell) > 1:
                es = [ag.encoding for ag in cell.values()]
                for i, e in enumerate(es):
                    if not gridw.may_join(sym, e, es[:i] + es[i + 1:]):
                        return desc                    # the new table would make the present state illegal: keep the old
    ov = {int(e): set(int(x) for x in s) for e, s in new}
    grid.overlapping = ov if ov else None
    sess.stat = sess.w.stat_wire()
    d2 = dict(desc, overlap=new)
    d2.setdefault("overlap0", desc["overlap"])
    if rng.random() < 0.5:
        # ... followed by an assignment the setter rejects (gridw.bad_table): the table just installed stays in force
        try:
            grid.overlapping = gridw.bad_table(ov)
        except (AssertionError, TypeError, ValueError, KeyError, AttributeError):
            pass
        d2["bad_table"] = True
    return d2


def _relocate(rng, desc):
    rows, cols = desc["rows"], desc["cols"]
    sym = gridw.closed(desc["overlap"])
    occ = {}
    for a, s in zip(desc["agents"], desc["state"]):
        if s["health"][0] == 0:
            s["pos"] = [rng.randrange(rows), rng.randrange(cols)]
            continue
        for _ in range(40):
            p = (rng.randrange(rows), rng.randrange(cols))
            if gridw.may_join(sym, a["enc"], occ.get(p, [])):
                s["pos"] = list(p)
                occ.setdefault(p, []).append(a["enc"])
                break
        else:
            s["health"] = [0, 1]
            s["pos"] = [0, 0]
    return desc
