"""C02 runtime monitor, real side: dumps of real gymnasium spaces / points, a reproducible sampler
over real spaces, builders of real simulations (component simulations, a space stub, the packaged
example simulations), wrapper stacks, and the session runner that plays a simulation like the
AllStepManager does and yields every (declared space, produced point) pair.

Wire format of spaces and points: lean/Abmarl/Model/SpacesDriver.lean (+ `(x why)` for a leaf value
without canonical form, see lean/Abmarl/Model/MemberDriver.lean).

How a real point is read (canonicalisation, the only place where the harness interprets Python
values; everything below mirrors what gymnasium 1.x / abmarl.tools.Box *read*, never what they decide):
  * a Dict point is the finite map of a Python `dict`, children listed in the space's key order
    (keys absent from the space are appended, so the key lists differ); a Tuple point is a tuple
    or list;
  * numpy arrays: integer and bool dtypes are integer-typed numbers (bool = 0/1; numpy casts bool
    to every integer dtype), float dtypes are float-typed exact rationals; NaN/inf, object arrays,
    strings ... have no canonical form (`(x why)`);
  * numpy's casting rule is applied to the *width* only: an array whose dtype cannot be cast safely
    to the Box's dtype (`np.can_cast`: int64 into an int32 or a float32 Box, float64 into a float32
    Box, any float into an integer Box) is `(x dtype)` - the Lean model distinguishes integer-typed
    from float-typed numbers, not widths;
  * Python scalars: `bool`/`int` are integers (gymnasium's Discrete accepts `False`: a Python bool is
    a Python int); in an `abmarl.tools.Box` a Python `int`/`float` is the one-element array `[x]`
    (its documented enhancement), in a plain gymnasium Box it is the 0-d array;
  * lists/tuples handed to an array leaf are read with numpy's own inference (`np.asarray(x)`),
    except in a float Box, where they are read with the Box's dtype (they carry no dtype of their own).
"""
import copy
import os
import random
from fractions import Fraction

import compat  # noqa: F401
import numpy as np
import gymnasium
from gymnasium.spaces import Discrete, MultiDiscrete, MultiBinary, Dict, Tuple
from gymnasium.spaces import Box as GymBox

import gridw
import oracle
import poke
import spc
from mgr import guarded

from abmarl.tools import Box as AbmarlBox
from abmarl.sim import AgentBasedSimulation, Agent, PrincipleAgent, is_agent
from abmarl.sim.agent_based_simulation import ObservingAgent, ActingAgent
from abmarl.sim.gridworld.smart import SmartGridWorldSimulation
from abmarl.sim.gridworld.agent import GridWorldAgent
from abmarl.sim.gridworld import actor as ACT
from abmarl.sim.wrappers import (RavelDiscreteWrapper, FlattenWrapper, SuperAgentWrapper,
                                 CommunicationHandshakeWrapper)

gymnasium.logger.min_level = gymnasium.logger.ERROR

BIG = 2 ** 62


# ==============================================================================================
# dumps

def key_index(sp):
    """every Dict key of the space -> index, in walk order (deterministic)"""
    kx = {}

    def walk(s):
        if isinstance(s, Dict):
            for k, sub in s.spaces.items():
                kx.setdefault(_k(k), len(kx))
                walk(sub)
        elif isinstance(s, Tuple):
            for sub in s.spaces:
                walk(sub)
    walk(sp)
    return kx


def _k(k):
    """hashable, type-tagged key (1 and '1' and True are different keys)"""
    return (type(k).__name__, str(k))


def fw(q):
    q = Fraction(q)
    return [q.numerator, q.denominator]


def dump_space(sp, kx):
    """wire form of a real space, or None when the Lean `Space` cannot express it"""
    if isinstance(sp, Discrete):
        return ["d", int(sp.n), int(sp.start)]
    if isinstance(sp, MultiBinary):
        if isinstance(sp.n, (int, np.integer)):
            return ["mb", int(sp.n)]
        return None
    if isinstance(sp, MultiDiscrete):
        if sp.nvec.ndim != 1 or (hasattr(sp, "start") and np.any(np.asarray(sp.start) != 0)):
            return None
        return ["md", [int(x) for x in sp.nvec]]
    if isinstance(sp, GymBox):
        shape = [int(d) for d in sp.shape]
        lo, hi = sp.low.flatten().tolist(), sp.high.flatten().tolist()
        if sp.dtype.kind in "iu":
            if not sp.is_bounded():
                return None
            return ["box", shape, [int(x) for x in lo], [int(x) for x in hi], 1 if sp.dtype == np.int64 else 0]
        if sp.dtype.kind == "f":
            if any(x != x or x in (float("inf"), float("-inf")) for x in lo + hi):
                return None
            return ["fbox", shape, [fw(Fraction(x)) for x in lo], [fw(Fraction(x)) for x in hi]]
        return None
    if isinstance(sp, Dict):
        kids = [dump_space(sub, kx) for sub in sp.spaces.values()]
        if any(c is None for c in kids):
            return None
        return ["dict", [kx[_k(k)] for k in sp.spaces], kids]
    if isinstance(sp, Tuple):
        kids = [dump_space(sub, kx) for sub in sp.spaces]
        if any(c is None for c in kids):
            return None
        return ["tup", kids]
    return None


def _arr_wire(a, box_dtype=None):
    """(a shape vals) of an ndarray, or (x why)"""
    if a.dtype.kind == "b":
        vals = [int(v) for v in a.flatten().tolist()]
    elif a.dtype.kind in "iu":
        vals = [int(v) for v in a.flatten().tolist()]
    elif a.dtype.kind == "f":
        vals = []
        for v in a.flatten().tolist():
            if v != v or v in (float("inf"), float("-inf")):
                return ["x", "nonfinite"]
            vals.append(fw(Fraction(v)))
    else:
        return ["x", "dtype-" + a.dtype.kind]
    if box_dtype is not None and not np.can_cast(a.dtype, box_dtype):
        return ["x", "dtype"]
    return ["a", [int(d) for d in a.shape], vals]


def _seq_array(x, dtype=None):
    try:
        a = np.asarray(x) if dtype is None else np.asarray(x, dtype=dtype)
    except Exception:  # noqa: BLE001
        return None
    return a if isinstance(a, np.ndarray) and a.dtype != object else None


def dump_point(sp, x, kx):
    """wire form of a real point, read as the space `sp` reads it (module docstring)"""
    if isinstance(sp, Discrete):
        if isinstance(x, (bool, int)):
            return ["s", int(x)]
        if isinstance(x, (np.generic, np.ndarray)) and getattr(x, "shape", None) == ():
            if x.dtype.kind in "iu":
                return ["s", int(x)] if np.can_cast(x.dtype, sp.dtype) else ["x", "dtype"]
            if x.dtype.kind == "f":
                v = float(x)
                return ["s", fw(Fraction(v))] if v == v and abs(v) != float("inf") else ["x", "nonfinite"]
            return ["x", "dtype-" + x.dtype.kind]
        if isinstance(x, float):
            return ["s", fw(Fraction(x))] if x == x and abs(x) != float("inf") else ["x", "nonfinite"]
        return ["x", "type-" + type(x).__name__]
    if isinstance(sp, (MultiBinary, MultiDiscrete)):
        if isinstance(x, (list, tuple)):
            x = _seq_array(x)
            if x is None:
                return ["x", "sequence"]
        if not isinstance(x, np.ndarray):
            return ["x", "type-" + type(x).__name__]
        return _arr_wire(x, sp.dtype if isinstance(sp, MultiDiscrete) else None)
    if isinstance(sp, GymBox):
        if isinstance(x, np.ndarray):
            return _arr_wire(x, sp.dtype)
        if isinstance(sp, AbmarlBox) and type(x) is int:
            return _arr_wire(np.array([x], dtype=int), sp.dtype)
        if isinstance(sp, AbmarlBox) and type(x) is float:
            return _arr_wire(np.array([x], dtype=float), sp.dtype)
        if isinstance(x, (bool, int, float, list, tuple, np.generic)):
            a = _seq_array(x, sp.dtype if sp.dtype.kind == "f" else None)
            if a is None:
                return ["x", "sequence"]
            if isinstance(x, np.generic):
                return _arr_wire(a, sp.dtype)
            return _arr_wire(a)       # Python numbers carry no width
        return ["x", "type-" + type(x).__name__]
    if isinstance(sp, Dict):
        if not isinstance(x, dict):
            return ["x", "type-" + type(x).__name__]
        keys, kids = [], []
        for k, sub in sp.spaces.items():
            if k in x:
                keys.append(kx[_k(k)])
                kids.append(dump_point(sub, x[k], kx))
        extra = len(kx)
        for k in x:
            if k not in sp.spaces:
                keys.append(extra + 1000)
                extra += 1
                kids.append(["x", "extra-key"])
        return ["m", keys, kids]
    if isinstance(sp, Tuple):
        if isinstance(x, (list, np.ndarray)):
            x = tuple(x)
        if not isinstance(x, tuple):
            return ["x", "type-" + type(x).__name__]
        kids = [dump_point(sub, v, kx) for sub, v in zip(sp.spaces, x)]
        kids += [["x", "extra-child"]] * (len(x) - len(sp.spaces))
        return ["t", kids]
    return ["x", "space"]


def real_contains(sp, x):
    try:
        return bool(x in sp)
    except Exception:  # noqa: BLE001
        return False


def declared_null(x):
    """`{}` stands for "no null point declared" (agent_based_simulation.py)"""
    return not (type(x) is dict and len(x) == 0)


def space_card(sp):
    """number of points of an integer space (None if a leaf is not integer-typed / bounded)"""
    if isinstance(sp, Discrete):
        return int(sp.n)
    if isinstance(sp, MultiBinary):
        return 2 ** int(np.prod(sp.shape))
    if isinstance(sp, MultiDiscrete):
        r = 1
        for v in sp.nvec.flatten().tolist():
            r *= int(v)
        return r
    if isinstance(sp, GymBox):
        if sp.dtype.kind not in "iu" or not sp.is_bounded():
            return None
        r = 1
        for l, h in zip(sp.low.flatten().tolist(), sp.high.flatten().tolist()):
            r *= int(h) - int(l) + 1
        return r
    if isinstance(sp, Dict):
        subs = list(sp.spaces.values())
    elif isinstance(sp, Tuple):
        subs = list(sp.spaces)
    else:
        return None
    r = 1
    for s in subs:
        c = space_card(s)
        if c is None:
            return None
        r *= c
    return r


def space_kinds(sp, out=None):
    out = set() if out is None else out
    if isinstance(sp, Dict):
        out.add("Dict")
        for s in sp.spaces.values():
            space_kinds(s, out)
    elif isinstance(sp, Tuple):
        out.add("Tuple")
        for s in sp.spaces:
            space_kinds(s, out)
    elif isinstance(sp, GymBox):
        out.add("Box:" + ("int" if sp.dtype.kind in "iu" else "float"))
    else:
        out.add(type(sp).__name__)
    return out


# ==============================================================================================
# a reproducible sampler over real spaces

def cells(sp):
    """the scalar cells of a space in a canonical traversal: ('i', lo, hi) or ('f', lo, hi, dtype)"""
    if isinstance(sp, Discrete):
        return [("i", int(sp.start), int(sp.start) + int(sp.n) - 1)]
    if isinstance(sp, MultiBinary):
        return [("i", 0, 1)] * int(np.prod(sp.shape))
    if isinstance(sp, MultiDiscrete):
        return [("i", 0, int(v) - 1) for v in sp.nvec.flatten().tolist()]
    if isinstance(sp, GymBox):
        lo, hi = sp.low.flatten().tolist(), sp.high.flatten().tolist()
        if sp.dtype.kind in "iu":
            return [("i", int(l), int(h)) for l, h in zip(lo, hi)]
        return [("f", l, h) for l, h in zip(lo, hi)]
    if isinstance(sp, Dict):
        return [c for s in sp.spaces.values() for c in cells(s)]
    if isinstance(sp, Tuple):
        return [c for s in sp.spaces for c in cells(s)]
    raise ValueError(sp)


def build(sp, it, R=None):
    """the point of `sp` whose cells are the next values of the iterator"""
    if isinstance(sp, Discrete):
        v = int(next(it))
        return np.int64(v) if (R is not None and R.random() < 0.5) else v
    if isinstance(sp, MultiBinary):
        return np.array([next(it) for _ in range(int(np.prod(sp.shape)))], dtype=np.int8).reshape(sp.shape)
    if isinstance(sp, MultiDiscrete):
        return np.array([next(it) for _ in range(sp.nvec.size)], dtype=np.int64).reshape(sp.nvec.shape)
    if isinstance(sp, GymBox):
        n = int(np.prod(sp.shape)) if sp.shape else 1
        arr = np.array([next(it) for _ in range(n)], dtype=sp.dtype).reshape(sp.shape)
        if R is not None and isinstance(sp, AbmarlBox) and sp.shape and R.random() < 0.25:
            # abmarl's Box declares Python lists and tuples members too: the same point, another representation
            alt = arr.tolist() if R.random() < 0.6 else tuple(arr.tolist())
            try:
                if alt in sp:
                    return alt
            except Exception:  # noqa: BLE001
                pass
        return arr
    if isinstance(sp, Dict):
        items = [(k, build(s, it, R)) for k, s in sp.spaces.items()]
        if R is not None and R.random() < 0.5:
            items.reverse()          # Python dict equality ignores insertion order
        return dict(items)
    if isinstance(sp, Tuple):
        return tuple(build(s, it, R) for s in sp.spaces)
    raise ValueError(sp)


def _fcell(c, R, mode):
    _, lo, hi = c
    lo = -4.0 if lo == float("-inf") else lo
    hi = 4.0 if hi == float("inf") else hi
    if mode == "lo":
        return lo
    if mode == "hi":
        return hi
    lo_k = -((-Fraction(lo) * 1024).__floor__())      # ceil(lo * 1024)
    hi_k = (Fraction(hi) * 1024).__floor__()
    if lo_k > hi_k:
        return lo
    return R.randint(lo_k, hi_k) / 1024.0


def sample(sp, R, mode="rand"):
    """mode: rand | lo | hi (corner points: every cell at its lower / upper bound)"""
    vals = []
    for c in cells(sp):
        if c[0] == "f":
            vals.append(_fcell(c, R, mode))
        elif mode == "lo":
            vals.append(c[1])
        elif mode == "hi":
            vals.append(c[2])
        else:
            vals.append(R.randint(c[1], c[2]))
    return build(sp, iter(vals), R)


def nth_point(sp, k):
    """the k-th point (mixed radix over the cells, last cell fastest) of an integer space"""
    cs = cells(sp)
    vals = []
    for c in reversed(cs):
        r = c[2] - c[1] + 1
        vals.append(c[1] + k % r)
        k //= r
    vals.reverse()
    return build(sp, iter(vals))


# ==============================================================================================
# the oracle tape for a whole session

class SessionTape(oracle.Tape):
    """`uniform(low, high)` for any bounds (comms_blocking draws uniform(-1, 1)): low + (high-low)*(v mod 1024)/1024;
    `uniform(0, 1)` keeps the open-interval convention of the regular stream (finding K4)"""

    def uniform(self, low=None, high=None, size=None):
        if (low is None and high is None) or (low, high) == (0, 1):
            return super().uniform(low, high, size)
        assert size is None
        v = self.pop()
        return low + (high - low) * ((v % 1024) / 1024.0)


    def pop(self):
        # the tape is an endless pseudo-random sequence determined by the session seed, produced on demand
        while self.pos >= len(self.values):
            self.values.append(self._R.getrandbits(16))
        v = self.values[self.pos]
        self.pos += 1
        return v


def make_tape(seed):
    t = SessionTape([])
    t._R = random.Random(seed * 7919 + 13)
    return t


_ENC_TABLE = str.maketrans({"[": "(", "]": ")", '"': None})


def fast_enc(x):
    """wire.enc for nested lists of ints and atoms (no bools): the same text, produced by the C json encoder"""
    import json as _json
    return _json.dumps(x, separators=(" ", ":")).translate(_ENC_TABLE)


# ==============================================================================================
# (a) component simulations

OBSERVERS = {
    "absolute": "AbsoluteEncodingObserver",
    "centered": "PositionCenteredEncodingObserver",
    "centered_noself": "PositionCenteredEncodingObserver",
    "stacked": "StackedPositionCenteredEncodingObserver",
    "position": "AbsolutePositionObserver",
    "ammo": "AmmoObserver",
}
MOVERS = {"move": ACT.MoveActor, "cross": ACT.CrossMoveActor, "drift": ACT.DriftMoveActor}
ATTACKERS = {"binary": ACT.BinaryAttackActor, "encoding": ACT.EncodingBasedAttackActor,
             "selective": ACT.SelectiveAttackActor, "restricted": ACT.RestrictedSelectiveAttackActor}


class ComponentSim(SmartGridWorldSimulation):
    """a SmartGridWorldSimulation assembled from the real components; the step is the one of the
    packaged team-battle / reach-the-target simulations: attacks of the active agents, then their moves"""

    def __init__(self, move_kind=None, attack_kind=None, **kwargs):
        super().__init__(**kwargs)
        self.move_actor = MOVERS[move_kind](**kwargs) if move_kind else None
        self.attack_actor = ATTACKERS[attack_kind](**kwargs) if attack_kind else None
        self.finalize()

    def step(self, action_dict, **kwargs):
        if self.attack_actor is not None:
            for agent_id, action in action_dict.items():
                agent = self.agents[agent_id]
                if agent.active:
                    self.attack_actor.process_action(agent, action, **kwargs)
        if self.move_actor is not None:
            for agent_id, action in action_dict.items():
                agent = self.agents[agent_id]
                if agent.active:
                    self.move_actor.process_action(agent, action, **kwargs)


_ORDERED_META = {}


def _ordered(names, kind, k):
    """the registered component classes `names`, as same-named subclasses whose hashes are 0, 1, 2 ... in the
    k-th permutation of the sorted names: SmartGridWorldSimulation iterates over the SET it is given to construct
    the components, and a set of few small-int hashes iterates in ascending hash order - so the recipe, not the
    string hash of the process, decides which component is constructed first (an observer that writes a converted
    view range back to the shared agent is seen by the components built after it)"""
    import itertools
    from abmarl.sim.gridworld.registry import registry
    names = sorted(set(names))
    perms = list(itertools.permutations(range(len(names))))
    perm = perms[k % len(perms)]
    out = set()
    for pos, nm in zip(perm, names):
        base = registry[kind][nm]
        mt = type(base)
        if mt not in _ORDERED_META:
            _ORDERED_META[mt] = type("OrderedMeta", (mt,), {"__hash__": lambda cls: cls._verif_hash})
        out.add(_ORDERED_META[mt](base.__name__, (base,), {"_verif_hash": pos, "__module__": base.__module__}))
    assert [c._verif_hash for c in out] == sorted(c._verif_hash for c in out)
    return out


def build_comp(r):
    """recipe -> real simulation (raises on an infeasible configuration)"""
    agents = {}
    for i, a in enumerate(r["agents"]):
        ag = gridw.make_agent(i, a)
        agents[ag.id] = ag
    ov = {int(e): set(int(x) for x in s) for e, s in r["overlap"]}
    kw = dict(agents=agents, states=set(r["states"]),
              observers={OBSERVERS[o] for o in r["observers"]}, dones=set(r["dones"]),
              move_kind=r.get("move"), attack_kind=r.get("attack"))
    if ov:
        kw["overlapping"] = ov
    if "centered_noself" in r["observers"]:
        kw["observe_self"] = False
    if r.get("attack"):
        kw["attack_mapping"] = {int(e): set(int(x) for x in s) for e, s in r["attack_mapping"]}
        kw["stacked_attacks"] = bool(r.get("stacked_attacks", False))
    if r.get("no_overlap"):
        kw["no_overlap_at_reset"] = True
    if r.get("randomize"):
        kw["randomize_placement_order"] = True
    if r.get("build_perm") is not None:
        k = int(r["build_perm"])
        kw["states"] = _ordered(kw["states"], "state", k)
        kw["observers"] = _ordered(kw["observers"], "observer", k // 24)
        kw["dones"] = _ordered(kw["dones"], "done", k // 3)
    if not kw["observers"]:
        del kw["observers"]
    return ComponentSim.build_sim(int(r["rows"]), int(r["cols"]), **kw)


# ==============================================================================================
# (b) a space stub: any observation / action spaces, scripted done times

class SpaceStub(AgentBasedSimulation):
    """agents with arbitrary declared spaces; every observation is a reproducible sample of the declared
    observation space (seeded by episode, step, agent and read count); actions are recorded"""

    def __init__(self, r):
        self.r = r
        agents = {}
        self.ids = []
        for i, a in enumerate(r["agents"]):
            aid = gridw.aid(i)
            self.ids.append(aid)
            if not a.get("learning", True):
                agents[aid] = PrincipleAgent(id=aid)
                continue
            osp, asp = spc.to_gym(a["obs"]), spc.to_gym(a["act"])
            kw = {}
            R = random.Random(r["seed"] * 31 + i)
            if a.get("null_obs"):
                kw["null_observation"] = _form(sample(osp, R, a["null_obs"]), a.get("null_form", "array"))
            if a.get("null_act"):
                kw["null_action"] = _form(sample(asp, R, a["null_act"]), a.get("null_form", "array"))
            agents[aid] = Agent(id=aid, observation_space=osp, action_space=asp, **kw)
        self.agents = agents
        self.finalize()
        self.ep, self.t = 0, 0
        self.reads = {}
        self.last_actions = {}

    def reset(self, **kwargs):
        self.ep += 1
        self.t = 0
        self.reads = {}

    def step(self, action_dict, **kwargs):
        self.t += 1
        self.last_actions = dict(action_dict)

    def render(self, **kwargs):
        pass

    def get_obs(self, agent_id, **kwargs):
        i = self.ids.index(agent_id)
        n = self.reads.get(agent_id, 0)
        self.reads[agent_id] = n + 1
        R = random.Random(((self.r["seed"] * 101 + self.ep) * 101 + self.t) * 101 + i * 7 + n)
        mode = R.choice(["rand", "rand", "rand", "lo", "hi"])
        o = sample(self.agents[agent_id].observation_space, R, mode)
        return _form(o, "list") if R.random() < 0.3 else o

    def get_reward(self, agent_id, **kwargs):
        return 0

    def get_done(self, agent_id, **kwargs):
        i = self.ids.index(agent_id)
        return self.t >= self.r["agents"][i].get("done_at", 99)

    def get_all_done(self, **kwargs):
        return self.t >= self.r.get("finish_at", 99)

    def get_info(self, agent_id, **kwargs):
        return {}


def _form(x, form):
    """`list`: arrays as (nested) Python lists - gymnasium and abmarl accept them like arrays"""
    if form != "list":
        return x
    if isinstance(x, np.ndarray):
        return x.tolist()
    if isinstance(x, dict):
        return {k: _form(v, form) for k, v in x.items()}
    if isinstance(x, tuple):
        return tuple(_form(v, form) for v in x)
    if isinstance(x, np.generic):
        return x.item()
    return x


# ==============================================================================================
# (c) the packaged example simulations

def _examples_dir():
    return os.path.join(compat.REPO, "examples")


def ex_maze_navigation(v):
    from abmarl.examples.sim.maze_navigation import MazeNavigationAgent, MazeNavigationSim
    reg = {
        'N': lambda n: MazeNavigationAgent(id='navigator', encoding=1, view_range=2 if v == 0 else "FULL",
                                           render_color='blue'),
        'T': lambda n: GridWorldAgent(id='target', encoding=3, render_color='green'),
        'W': lambda n: GridWorldAgent(id=f'wall{n}', encoding=2, blocking=True, render_shape='s'),
    }
    return MazeNavigationSim.build_sim_from_file(
        os.path.join(_examples_dir(), "maze.txt"), reg, overlapping={1: {3}, 3: {1}},
        states={'PositionState'}, observers={'PositionCenteredEncodingObserver'})


def ex_multi_agent_grid_sim(v):
    from abmarl.examples.sim.multi_agent_grid_sim import MultiAgentGridSim
    from abmarl.sim.gridworld.agent import GridObservingAgent, MovingAgent

    class GridAgent(GridObservingAgent, MovingAgent):
        pass
    agents = {f'a{i}': GridWorldAgent(id=f'a{i}', encoding=i % 3 + 1) for i in range(4)}
    agents['m0'] = GridAgent(id='m0', encoding=1, view_range=1, move_range=1)
    return MultiAgentGridSim.build_sim(3 + v, 4, agents=agents, overlapping={1: {1, 2, 3}, 2: {1}, 3: {1}})


def ex_multi_agent_sim(v):
    from abmarl.examples.sim import multi_agent_sim as M
    return [M.MultiAgentGymSpacesSim, M.MultiAgentContinuousGymSpaceSim, M.MultiAgentSameSpacesSim][v % 3]()


def ex_multi_corridor(v):
    from abmarl.examples.sim.multi_corridor import MultiCorridor
    return [lambda: MultiCorridor(), lambda: MultiCorridor(end=5, num_agents=2),
            lambda: MultiCorridor(end=3, num_agents=1), lambda: MultiCorridor(end=7, num_agents=6)][v % 4]()


def ex_multi_maze_navigation(v):
    from abmarl.examples.sim.multi_maze_navigation import MultiMazeNavigationAgent, MultiMazeNavigationSim
    nb, nn, side, vr = [(20, 5, 10, 5), (6, 2, 6, 2), (3, 2, 5, "FULL")][v % 3]
    agents = {
        'target': GridWorldAgent(id='target', encoding=1, render_color='g'),
        **{f'barrier{i}': GridWorldAgent(id=f'barrier{i}', encoding=2, render_shape='s', render_color='gray')
           for i in range(nb)},
        **{f'navigator{i}': MultiMazeNavigationAgent(id=f'navigator{i}', encoding=3, render_color='b', view_range=vr)
           for i in range(nn)},
    }
    return MultiMazeNavigationSim.build_sim(
        side, side, agents=agents, overlapping={1: {3}, 3: {3}}, target_agent=agents['target'],
        barrier_encodings={2}, free_encodings={1, 3}, cluster_barriers=True, scatter_free_agents=True,
        no_overlap_at_reset=True)


def ex_pacman(v):
    from abmarl.examples.sim.pacman import PacmanSimSimple, PacmanSim, PacmanAgent, WallAgent, FoodAgent, BaddieAgent
    cls = PacmanSimSimple if v % 2 == 0 else PacmanSim
    reg = {
        'P': lambda n: PacmanAgent(id='pacman', encoding=1, view_range=2, render_color='yellow'),
        'W': lambda n: WallAgent(id=f'wall_{n}', encoding=2, render_shape='s', render_color='b'),
        'F': lambda n: FoodAgent(id=f'food_{n}', encoding=3, render_color='white'),
        'B': lambda n: BaddieAgent(id=f'baddie_{n}', encoding=4, render_color='r'),
    }
    scheme = {'bad_move': 0, 'entropy': -0.01, 'eat_food': 0.2, 'die': -1}
    if cls is PacmanSim:
        scheme['kill'] = 1
    kw = dict(states={'PositionState', 'OrientationState', 'HealthState'}, observers={'AbsoluteEncodingObserver'},
              overlapping={1: {3, 4}, 4: {3, 4}}, reward_scheme=scheme)
    if cls is PacmanSim:
        # the full game teleports between (9, 0) and (9, 20): its grid is examples/pacman.txt (21 columns)
        return cls.build_sim_from_file(os.path.join(_examples_dir(), "pacman.txt"), reg, **kw)
    return cls.build_sim_from_array(PacmanSimSimple.example_grid, reg, **kw)


def ex_predator_prey_resources(v):
    from abmarl.examples.sim.predator_prey_resources import (ResourceAgent, PreyAgent, PredatorAgent,
                                                            PredatorPreyResourcesSim)
    nr, npy, npd, side = [(11, 5, 2, 20), (4, 3, 2, 6)][v % 2]
    agents = {**{f'resource_{i}': ResourceAgent(id=f'resource_{i}') for i in range(nr)},
              **{f'prey_{i}': PreyAgent(id=f'prey_{i}') for i in range(npy)},
              **{f'predator_{i}': PredatorAgent(id=f'predator_{i}') for i in range(npd)}}
    amap = {2: {1}, 3: {2}}
    return PredatorPreyResourcesSim.build_sim(
        side, side, agents=agents, overlapping={1: {2, 3}, 2: {1, 2, 3}, 3: {1, 2}}, attack_mapping=amap,
        target_mapping=copy.deepcopy(amap), states={'PositionState', 'HealthState'},
        observers={'PositionCenteredEncodingObserver'}, dones={'ActiveDone', 'TargetEncodingInactiveDone'})


def ex_reach_the_target(v):
    from abmarl.examples.sim.reach_the_target import ReachTheTargetSim, RunningAgent, TargetAgent, BarrierAgent
    g = 7
    corners = [np.array([0, 0], dtype=int), np.array([g - 1, 0], dtype=int), np.array([0, g - 1], dtype=int),
               np.array([g - 1, g - 1], dtype=int)]
    agents = {
        **{f'barrier{i}': BarrierAgent(id=f'barrier{i}') for i in range(10)},
        **{f'runner{i}': RunningAgent(id=f'runner{i}', move_range=2, view_range=int(g / 2), initial_health=1,
                                      initial_position=corners[i]) for i in range(4)},
        'target': TargetAgent(view_range=g, attack_range=1, attack_strength=1, attack_accuracy=1,
                              initial_position=np.array([int(g / 2), int(g / 2)], dtype=int)),
    }
    return ReachTheTargetSim.build_sim(7, 7, agents=agents, overlapping={2: {3}, 3: {1, 2, 3}},
                                       attack_mapping={2: {3}})


def _battle_agents(n):
    from abmarl.examples.sim.team_battle_example import BattleAgent
    colors = ['red', 'blue', 'green', 'gray']
    positions = [np.array([1, 1]), np.array([1, 6]), np.array([6, 1]), np.array([6, 6])]
    return {f'agent{i}': BattleAgent(id=f'agent{i}', encoding=i % 4 + 1, render_color=colors[i % 4],
                                     initial_position=positions[i % 4]) for i in range(n)}


def ex_team_battle_example(v):
    from abmarl.examples.sim.team_battle_example import TeamBattleSim
    agents = _battle_agents(24 if v % 2 == 0 else 8)
    return TeamBattleSim.build_sim(
        8, 8, agents=agents, overlapping={1: {1}, 2: {2}, 3: {3}, 4: {4}},
        attack_mapping={1: {2, 3, 4}, 2: {1, 3, 4}, 3: {1, 2, 4}, 4: {1, 2, 3}},
        states={'PositionState', 'HealthState'}, observers={'PositionCenteredEncodingObserver'},
        dones={'OneTeamRemainingDone'})


def ex_traffic_corridor(v):
    from abmarl.examples.sim.traffic_corridor import WallAgent, TargetAgent, TrafficAgent, TrafficCorridorSimulation
    grid = np.array([['G', 'W', 'W', 'W', 'R'], ['r', '_', '_', '_', 'g'], ['G', 'W', 'W', 'W', 'R']])
    reg = {
        'R': lambda n: TrafficAgent(id=f'red{n}', encoding=1, render_color='red'),
        'G': lambda n: TrafficAgent(id=f'green{n}', encoding=2, render_color='green'),
        'r': lambda n: TargetAgent(id='red_target', encoding=1, render_color='red', render_shape='s'),
        'g': lambda n: TargetAgent(id='green_target', encoding=2, render_color='green', render_shape='s'),
        'W': lambda n: WallAgent(id=f'wall{n}', encoding=3, render_shape='s'),
    }
    return TrafficCorridorSimulation.build_sim_from_array(
        grid, reg, overlapping={1: {1}, 2: {2}}, states={"PositionState"}, dones={"TargetAgentOverlapDone"},
        observers={'PositionCenteredEncodingObserver'},
        target_mapping={'red0': 'red_target', 'red1': 'red_target', 'green0': 'green_target',
                        'green1': 'green_target'})


def ex_comms_blocking(v):
    import matplotlib
    matplotlib.use("Agg")
    from abmarl.examples.sim.comms_blocking import BroadcastingAgent, BlockingAgent, BroadcastSim
    agents = {
        **{f'broadcaster{i}': BroadcastingAgent(id=f'broadcaster{i}', encoding=1, broadcast_range=6,
                                                render_color='green') for i in range(4)},
        'blocker0': BlockingAgent(id='blocker0', encoding=2, move_range=2, view_range=3, render_color='black'),
        'blocker1': BlockingAgent(id='blocker1', encoding=2, move_range=1, view_range=3, render_color='black'),
        'blocker2': BlockingAgent(id='blocker2', encoding=2, move_range=1, view_range=3, render_color='black'),
    }
    return BroadcastSim.build_sim(7, 7, agents=agents, broadcast_mapping={1: [1]}, done_tolerance=5e-10)


EXAMPLES = {
    "maze_navigation": (ex_maze_navigation, 2),
    "multi_agent_grid_sim": (ex_multi_agent_grid_sim, 2),
    "multi_agent_sim": (ex_multi_agent_sim, 3),
    "multi_corridor": (ex_multi_corridor, 4),
    "multi_maze_navigation": (ex_multi_maze_navigation, 3),
    "pacman": (ex_pacman, 2),
    "predator_prey_resources": (ex_predator_prey_resources, 2),
    "reach_the_target": (ex_reach_the_target, 1),
    "team_battle_example": (ex_team_battle_example, 2),
    "traffic_corridor": (ex_traffic_corridor, 1),
    "comms_blocking": (ex_comms_blocking, 1),
}


# ==============================================================================================
# wrapper stacks

def learning_ids(sim):
    return [i for i, a in sim.agents.items() if is_agent(a)]


def super_mapping(sim, groups):
    """groups: lists of indices into the learning agents of `sim` (stable order) -> {'super<j>': [ids]}"""
    ids = stable_order(sim, learning_ids(sim))
    m = {}
    for j, g in enumerate(groups):
        cov = [ids[i] for i in g if i < len(ids)]
        if cov:
            m[f"super{j}"] = cov
    return m


def can_ravel(sim):
    """RavelDiscreteWrapper's own admission test plus the int64 bound (finding K3)"""
    from abmarl.sim.wrappers.ravel_discrete_wrapper import check_space
    for a in sim.agents.values():
        if not is_agent(a):
            continue
        for sp in (a.observation_space, a.action_space):
            if not check_space(sp) or has_empty(sp):
                return False
            c = space_card(sp)
            if c is None or c >= BIG or c < 1:
                return False
            for leaf in _leaves(sp):
                if isinstance(leaf, Discrete) and leaf.start != 0:
                    return False                                   # K1
                if isinstance(leaf, GymBox) and leaf.dtype != np.int64:
                    return False                                   # K5
    return True


def has_empty(sp):
    """a Dict / Tuple without children or a leaf without cells somewhere (outside WF04 / WF05: numpy refuses
    to concatenate nothing, `np.prod([])` is a float)"""
    if isinstance(sp, Dict):
        return len(sp.spaces) == 0 or any(has_empty(s) for s in sp.spaces.values())
    if isinstance(sp, Tuple):
        return len(sp.spaces) == 0 or any(has_empty(s) for s in sp.spaces)
    return len(cells(sp)) == 0


def can_flatten(sim):
    return not any(has_empty(sp) for a in sim.agents.values() if is_agent(a)
                   for sp in (a.observation_space, a.action_space))


def _leaves(sp):
    if isinstance(sp, Dict):
        for s in sp.spaces.values():
            yield from _leaves(s)
    elif isinstance(sp, Tuple):
        for s in sp.spaces:
            yield from _leaves(s)
    else:
        yield sp


def wrap_one(sim, w, desc):
    if w == "ravel":
        return RavelDiscreteWrapper(sim)
    if w == "flatten":
        return FlattenWrapper(sim)
    if w == "comm":
        return CommunicationHandshakeWrapper(sim)
    if w == "super":
        return SuperAgentWrapper(sim, super_agent_mapping=super_mapping(sim, desc.get("super_groups", [[0, 1]])))
    raise ValueError(w)


# ==============================================================================================
# the session runner

class Event:
    """one (declared space, produced point) pair or one processed action"""
    __slots__ = ("i", "ep", "step", "agent", "what", "space", "point", "outcome", "info", "rc", "flags")

    def __init__(self, i, ep, step, agent, what, space, point, outcome=None, info=None):
        self.i, self.ep, self.step, self.agent, self.what = i, ep, step, agent, what
        self.space, self.point, self.outcome, self.info = space, point, outcome, info or {}
        self.flags = []
        # what the real library answers to `point in space`
        self.rc = real_contains(space, point) if (space is not None and not (what == "obs" and outcome == "err")) \
            else False


INFEASIBLE = ("Could not find a cell", "is not available for")


def pin_component_order(sim, k):
    """SmartGridWorldSimulation keeps its state / observer / done components in Python sets of objects, whose
    iteration order depends on memory addresses: pin it (sorted by class name, rotated by `k`) so that a session
    replays exactly; the theorems hold for every order (DESIGN.md §3)"""
    for name in ("_states", "_observers", "_dones"):
        comps = getattr(sim, name, None)
        if isinstance(comps, (set, frozenset)):
            lst = sorted(comps, key=lambda c: type(c).__name__)
            r = k % len(lst) if lst else 0
            setattr(sim, name, lst[r:] + lst[:r])
    return sim


def build_base(desc):
    st = desc["stream"]
    if st == "comp":
        return pin_component_order(build_comp(desc["sim"]), desc.get("order", 0))
    if st == "stub":
        return SpaceStub(desc["sim"])
    if st == "example":
        fn, _ = EXAMPLES[desc["sim"]["name"]]
        return pin_component_order(fn(desc["sim"].get("variant", 0)), desc.get("order", 0))
    raise ValueError(st)


def stable_order(sim, ids):
    """the agents in the listing order of the innermost simulation (insertion order, deterministic); agents that exist
    only in a wrapper (super agents) first, by name.  SuperAgentWrapper lists its uncovered agents in the iteration order
    of a set of strings, which changes from process to process."""
    base = sim
    while hasattr(base, "sim"):
        base = base.sim
    pos = {a: i for i, a in enumerate(getattr(base, "agents", {}))}
    return sorted(ids, key=lambda a: (1, pos[a], "") if a in pos else (0, 0, a))


def null_info(x):
    """facts about a declared null point that the finding matchers read"""
    info = {"null_type": type(x).__name__}
    try:
        info["null_falsy"] = not bool(x)
    except Exception:  # noqa: BLE001
        info["null_falsy"] = None              # `if x:` raises (numpy array with several elements)
    return info


def poke_components(base, desc):
    """rejected assignments (harness/poke.py) on every grid-world component of a freshly built simulation and on its
    grid's overlap table: what was configured stays in force"""
    try:
        from abmarl.sim.gridworld.base import GridWorldBaseComponent
    except Exception:  # noqa: BLE001
        return
    seen, comps = set(), []
    for v in list(vars(base).values()):
        for c in (v if isinstance(v, (list, set, frozenset, tuple)) else [v]):
            if isinstance(c, GridWorldBaseComponent) and id(c) not in seen:
                seen.add(id(c))
                comps.append(c)
    for i, c in enumerate(sorted(comps, key=lambda c: type(c).__name__)):
        poke.rejected(c, [desc, i, type(c).__name__])
    grid = getattr(base, "grid", None)
    if grid is not None and hasattr(type(grid), "overlapping"):
        poke.rejected(grid, [desc, "grid"], only={"overlapping"})


def run_session(desc, stop_after=None):
    """the list of Events of a session (see _session_events)"""
    return list(_session_events(desc, stop_after))


def _session_events(desc, stop_after=None):
    """generator of Events.  The whole session (construction, resets, steps, getters) runs under one
    scripted oracle tape; actions come from a PRNG seeded by desc['seed'] (or from desc['script'])."""
    tape = make_tape(desc["seed"])
    R = random.Random(desc["seed"] * 2654435761 % (1 << 32) + 5)
    n = [0]

    def ev(ep, step, agent, what, space, point, outcome=None, info=None):
        e = Event(n[0], ep, step, agent, what, space, point, outcome, info)
        n[0] += 1
        return e

    with oracle.scripted(tape):
        # ---- construction -----------------------------------------------------------------------
        st, base = guarded(lambda: build_base(desc), 20.0)
        if st != "ok":
            if desc["stream"] == "comp":
                return                                          # infeasible component configuration
            yield ev(0, -1, "", "build", None, None, "err", {"raised": str(base)[:200], "layer": "base"})
            return
        sim = base
        poke_components(base, desc)
        for depth, w in enumerate(desc.get("wrappers", [])):
            if (w == "ravel" and not can_ravel(sim)) or (w == "flatten" and not can_flatten(sim)):
                yield ev(0, -1, "", "skip", None, None, "ok", {"skipped": w + "-not-applicable"})
                return
            inner = sim
            st, val = guarded(lambda: wrap_one(inner, w, desc), 20.0)
            if st != "ok":
                info = {"raised": str(val)[:200], "layer": w, "depth": depth}
                nulls = [null_info(getattr(a, nm)) for a in inner.agents.values() if is_agent(a)
                         for nm in ("null_observation", "null_action") if declared_null(getattr(a, nm))]
                info["inner_null_unbool"] = any(x["null_falsy"] is None for x in nulls)
                info["inner_is_comm"] = _has_comm(inner)
                # null points of the layer below that are already outside their spaces (the conversion of a null
                # point is part of the constructors of the Ravel / Flatten wrappers)
                for aid, a in inner.agents.items():
                    if not is_agent(a):
                        continue
                    for sp_name, nm in (("observation_space", "null_observation"), ("action_space", "null_action")):
                        x = getattr(a, nm)
                        if declared_null(x) and not real_contains(getattr(a, sp_name), x):
                            for k, v in null_trace(inner, aid, nm, sp_name).items():
                                if v:
                                    info["inner_null_" + k] = v
                yield ev(0, -1, "", "build", None, None, "err", info)
                return
            sim = val
        # ---- null points (at construction time) -------------------------------------------------
        for aid in stable_order(sim, list(sim.agents)):
            a = sim.agents[aid]
            if desc.get("wrappers") and not is_agent(a):
                continue
            for what, sp_name, nm in (("nullobs", "observation_space", "null_observation"),
                                      ("nullact", "action_space", "null_action")):
                if not hasattr(a, nm) or not declared_null(getattr(a, nm)):
                    continue
                info = null_info(getattr(a, nm))
                info.update(null_trace(sim, aid, nm, sp_name))
                yield ev(0, -1, aid, what, getattr(a, sp_name), getattr(a, nm), None, info)
        # ---- episodes -----------------------------------------------------------------------------
        learners = stable_order(sim, learning_ids(sim))
        # wrappers convert the spaces of learning agents only (`if not is_agent(agent): continue`), and managers
        # report learning agents only: under a wrapper the monitor asks for the learning agents' observations
        observers = stable_order(sim, [i for i, a in sim.agents.items() if isinstance(a, ObservingAgent)
                                       and (not desc.get("wrappers") or is_agent(a))])
        script = desc.get("script")
        for ep in range(desc.get("episodes", 1)):
            st, val = guarded(lambda: sim.reset(), 20.0)
            if st != "ok":
                # no room for the agents / an initial position that is taken: not C02's business.  Recognised by the
                # exception TYPE the placement states raise (RuntimeError; AssertionError for a fixed position), so
                # that a re-worded message changes nothing; the message is a second way to recognise it
                if any(m in str(val) for m in INFEASIBLE) or str(val).startswith("RuntimeError") or \
                        (st == "rejected" and desc["stream"] == "comp"):
                    return
                yield ev(ep, 0, "", "reset", None, None, "err", {"raised": str(val)[:200]})
                return
            done = set()
            for aid in observers:
                st, o = guarded(lambda: sim.get_obs(aid), 20.0)
                e = ev(ep, 0, aid, "obs", sim.agents[aid].observation_space, o if st == "ok" else None,
                       None if st == "ok" else "err", {} if st == "ok" else {"raised": str(o)[:200]})
                e.flags = obs_flags(sim, aid)
                if not e.rc:
                    e.info.update(obs_diagnosis(sim, aid, o if st == "ok" else None))
                yield e
            for t in range(1, desc.get("steps", 1) + 1):
                st, alld = guarded(lambda: sim.get_all_done(), 20.0)
                acting = [i for i in learners if i not in done]
                if (st == "ok" and alld) or not acting:
                    break
                mode = R.choice(["rand"] * 6 + ["lo", "hi"])
                actions = {}
                for j, aid in enumerate(acting):
                    sp = sim.agents[aid].action_space
                    if script is not None and ep == 0 and t - 1 < len(script):
                        c = space_card(sp)
                        actions[aid] = nth_point(sp, script[t - 1][j % len(script[t - 1])] % c) if c else \
                            sample(sp, R, "rand")
                    else:
                        actions[aid] = sample(sp, R, mode)
                sent = copy.deepcopy(actions)                  # the drift actor overwrites its caller's dict
                st, val = guarded(lambda: sim.step(actions), 30.0)
                out = "ok" if st == "ok" else "err"
                for aid in acting:
                    yield ev(ep, t, aid, "act", sim.agents[aid].action_space, sent[aid], out,
                             {} if st == "ok" else {"raised": str(val)[:200]})
                if st != "ok":
                    return
                # (one step in five is followed by the next one without any observation in between)
                for aid in (observers if R.random() < 0.8 else []):
                    st, o = guarded(lambda: sim.get_obs(aid), 20.0)
                    e = ev(ep, t, aid, "obs", sim.agents[aid].observation_space, o if st == "ok" else None,
                           None if st == "ok" else "err", {} if st == "ok" else {"raised": str(o)[:200]})
                    e.flags = obs_flags(sim, aid)
                    if not e.rc:
                        e.info.update(obs_diagnosis(sim, aid, o if st == "ok" else None))
                    yield e
                for aid in acting:
                    st, d = guarded(lambda: sim.get_done(aid), 20.0)
                    if st == "ok" and d:
                        done.add(aid)
                if stop_after is not None and n[0] > stop_after:
                    return


def obs_flags(sim, aid):
    """labels for the input-distribution histogram (grid simulations)"""
    base = sim
    while hasattr(base, "sim"):
        base = base.sim
    fl = []
    a = getattr(base, "agents", {}).get(aid)
    if a is not None and getattr(a, "active", True) is False:
        fl.append("dead-observer")
    if any(getattr(x, "active", True) is False for x in getattr(base, "agents", {}).values()):
        fl.append("after-a-death")
    grid = getattr(base, "grid", None)
    if grid is not None:
        try:
            if any(grid[r, c] is not None and len(grid[r, c]) > 1 for r in range(grid.rows) for c in range(grid.cols)):
                fl.append("pile-up")
        except Exception:  # noqa: BLE001
            pass
    return fl


def _same(a, b):
    if a is b:
        return True
    try:
        if isinstance(a, dict) and isinstance(b, dict):
            return a.keys() == b.keys() and all(_same(a[k], b[k]) for k in a)
        return type(a) is type(b) and bool(np.array_equal(np.asarray(a), np.asarray(b)))
    except Exception:  # noqa: BLE001
        return False


def null_trace(sim, aid, nm, sp_name):
    """where a declared null point of a wrapped agent comes from (read by the finding matchers only):
    `member_below_comm`  - a CommunicationHandshakeWrapper is the first space-changing layer under the agent and the
                           null point is a member of the space the agent has *below* it (the wrapper hands null
                           points through unwrapped);
    `falsy_unconverted`  - the first space-changing layer is a Ravel/Flatten wrapper, the inner null point is falsy in
                           Python and the wrapped agent still holds that very value (`if null_point:` skipped it)"""
    info = {}
    S = sim
    while S is not None and hasattr(S, "sim"):
        inner = S.sim
        if aid not in getattr(inner, "agents", {}) or aid not in S.agents:
            break
        a, ia = S.agents[aid], inner.agents[aid]
        if isinstance(S, CommunicationHandshakeWrapper):
            x = getattr(a, nm, {})
            if declared_null(x) and hasattr(ia, sp_name) and "member_below_comm" not in info:
                info["member_below_comm"] = real_contains(getattr(ia, sp_name), x)
            S = inner          # the null point is handed through: look further down
            continue
        if isinstance(S, (RavelDiscreteWrapper, FlattenWrapper)):
            ix, x = getattr(ia, nm, {}), getattr(a, nm, {})
            if declared_null(ix):
                try:
                    falsy = not bool(ix)
                except Exception:  # noqa: BLE001
                    falsy = False
                if falsy and _same(ix, x):
                    info["falsy_unconverted"] = type(S).__name__
            break
        S = inner
    return info


def unkeyed_channel(sp, o):
    """somewhere in the observation a dict lacks a key K of its Dict space although it holds every key of the
    space's child K: the content of channel K was merged in without its key"""
    if isinstance(sp, Dict) and isinstance(o, dict):
        for k, sub in sp.spaces.items():
            if k not in o and isinstance(sub, Dict) and len(sub.spaces) > 0 and all(kk in o for kk in sub.spaces):
                return str(k)
        for k, sub in sp.spaces.items():
            if k in o:
                r = unkeyed_channel(sub, o[k])
                if r:
                    return r
    return None


def obs_diagnosis(sim, aid, o):
    """facts about an observation the real space rejects (read by the finding matchers only)"""
    info = {}
    if isinstance(o, dict):
        info["obs_keys"] = sorted(str(k) for k in o)[:12]
    sp = sim.agents[aid].observation_space
    if isinstance(sp, Dict):
        info["space_keys"] = sorted(str(k) for k in sp.spaces)[:12]
    uk = unkeyed_channel(sp, o)
    if uk:
        info["unkeyed_channel"] = uk
    # a super agent whose covered entry is the covered agent's declared null observation, itself outside the
    # covered agent's space (consequence of a wrong null point below)
    S = sim
    while S is not None:
        if isinstance(S, SuperAgentWrapper) and aid in S.super_agent_mapping:
            for c in S.super_agent_mapping[aid]:
                ca = S.sim.agents[c]
                if not declared_null(ca.null_observation) or \
                        real_contains(ca.observation_space, ca.null_observation):
                    continue
                if isinstance(o, dict) and S is sim:
                    used = c in o and _same(o[c], ca.null_observation)
                else:
                    # the getter (or a wrapper above the super agent) raised, or transformed the observation: the
                    # null observation is used for a covered agent that is done and was reported once
                    st, d = guarded(lambda: S.sim.get_done(c), 5.0)
                    used = st == "ok" and bool(d) and bool(getattr(S, "_last_obs_reported", {}).get(c))
                if used:
                    info["covered_null_not_member"] = True
                    info.update({"covered_" + k: v for k, v in
                                 null_trace(S.sim, c, "null_observation", "observation_space").items()})
            break
        S = getattr(S, "sim", None)
    return info


def _has_comm(sim):
    while sim is not None:
        if isinstance(sim, CommunicationHandshakeWrapper):
            return True
        sim = getattr(sim, "sim", None)
    return False
