"""Scripted stub simulation: the Python side of lean/Abmarl/Model/StubSim.lean.

An honest DynamicOrderSimulation (so it works under all three managers) whose behaviour is a
script.  Observations are [episode, t, agent-index, read-count]; rewards are kept in
read-and-reset accumulators; `step_log` records every argument `step` was called with.
Ghost accessors (`ghost()`, `accrued_snapshot`) never mutate anything.
"""
import compat  # noqa: F401
import numpy as np
from gymnasium.spaces import Discrete, MultiDiscrete
from abmarl.sim import PrincipleAgent, ObservingAgent, ActingAgent, Agent, DynamicOrderSimulation


def encode_obs(o):
    """[ep, t, a, reads] as one integer (Discrete observation spaces, OpenSpiel)"""
    ep, t, a, reads = o
    assert ep < 1000 and t < 100 and a < 10 and reads < 100
    return ((ep * 100 + t) * 10 + a) * 100 + reads


def decode_obs(x):
    x = int(x)
    x, reads = divmod(x, 100)
    x, a = divmod(x, 10)
    ep, t = divmod(x, 100)
    return [ep, t, a, reads]


def agent_id(i):
    """id of the i-th agent of the stub (not in lexicographic order, not of equal length)"""
    i = int(i)
    return f"{'zwxbyvcuat'[i % 10]}{i}{'_' * (i % 3)}"


def accr(a, t, act):
    return 1 + ((3 * a + 5 * t + ((2 + abs(int(act))) if act is not None else 0)) % 4)


class StubSim(DynamicOrderSimulation):
    def __init__(self, script, discrete=False, flat_ep=False, null_obs=None):
        # null_obs (optional, added for C14): per agent index a declared null observation or None
        self.discrete = discrete
        self.flat_ep = flat_ep
        self.n = script["n"]
        self.learning = list(script["learning"])
        self.done_at = list(script["doneAt"])
        self.finish_at = script["finishAt"]
        self.noms = [list(x) for x in script["noms"]]
        self.undone_at = list(script.get("undoneAt", []))
        # representation of the done flags: Python bools, or numpy.bool_ as np.all(...) returns them (the packaged
        # corridor and maze simulations do); equal as values, different as objects (`flag is True` is False)
        self.np_flags = bool(script.get("npFlags", False))
        self.unit = int(script.get("unit", 1))
        self.roster_in_place = bool(script.get("rosterInPlace", False))
        # ids are deliberately NOT in lexicographic order (nor of equal length): code that sorts ids, iterates a
        # set of them or compares them as strings then differs visibly from code that keeps the listing order
        self.ids = [agent_id(i) for i in range(self.n)]
        if script.get("plainIds"):
            # the ids most simulations use: with eleven and more agents "agent1" is a substring of "agent10", and
            # "agent10" sorts before "agent2"
            self.ids = [f"agent{i}" for i in range(self.n)]
        self.idx = {aid: i for i, aid in enumerate(self.ids)}
        agents = {}
        for i, aid in enumerate(self.ids):
            if self.learning[i]:
                extra = {}
                if null_obs is not None and null_obs[i] is not None:
                    extra["null_observation"] = null_obs[i]
                agents[aid] = Agent(id=aid,
                                    observation_space=(Discrete(10 ** 8) if discrete
                                                       else MultiDiscrete([1000] * 4)),
                                    action_space=Discrete(10), **extra)
            else:
                # a non-learning entity: a PrincipleAgent, or (script key `halves`) one that only observes or only acts -
                # an agent in the managers' sense is one that does BOTH (is_agent)
                half = (script.get("halves") or [0] * self.n)[i]
                if half == 1:
                    agents[aid] = ObservingAgent(id=aid, observation_space=(Discrete(10 ** 8) if discrete
                                                                            else MultiDiscrete([1000] * 4)))
                elif half == 2:
                    agents[aid] = ActingAgent(id=aid, action_space=Discrete(10))
                else:
                    agents[aid] = PrincipleAgent(id=aid)
        self.agents = agents
        self.finalize()
        self.ep = 0
        self.t = 0
        self.reads = [0] * self.n
        self.pend = [0] * self.n
        self.step_log = []           # arguments of every step call since construction
        self.accrued_snapshot = [0] * self.n
        self._set_next()

    def _set_next(self):
        nom = self.noms[self.t] if self.t < len(self.noms) else list(range(self.n))
        ids = [self.ids[i] for i in nom]
        if self.roster_in_place and getattr(self, "_roster", None) is not None:
            # the roster handed to `next_agent` once (at reset) is a list the simulation keeps and EDITS IN PLACE:
            # the manager asks `sim.next_agent` at every step and sees the live container
            self._roster[:] = ids
        else:
            self._roster = ids
            self.next_agent = self._roster

    reorder_at_next_reset = False      # (seeded change C07-r4m2) the next reset re-orders the agents dictionary in place

    def reset(self, **kwargs):
        if self.reorder_at_next_reset:
            self.reorder_at_next_reset = False
            d = self.agents                  # the one dictionary the managers share with the simulation
            items = list(d.items())
            d.clear()
            d.update(items[1:] + items[:1])
        self.last_reset_kwargs = dict(kwargs)       # what reached the simulation (adapters and managers hand it on)
        self.ep = 1 if self.flat_ep else self.ep + 1
        self.t = 0
        self.reads = [0] * self.n
        self.pend = [0] * self.n
        self.accrued_snapshot = list(self.pend)
        self._roster = None
        self._set_next()

    def step(self, action_dict, **kwargs):
        self.step_log.append([(self.idx[k], int(v)) for k, v in action_dict.items()])
        self.t += 1
        for a in range(self.n):
            act = action_dict.get(self.ids[a])
            self.pend[a] += self.unit * accr(a, self.t, act)
        self.accrued_snapshot = list(self.pend)
        self._set_next()

    def render(self, **kwargs):
        pass

    def get_obs(self, agent_id, **kwargs):
        a = self.idx[agent_id]
        o = [self.ep, self.t, a, self.reads[a]]
        self.reads[a] += 1
        if self.discrete:
            return encode_obs(o)
        return o

    def get_reward(self, agent_id, **kwargs):
        a = self.idx[agent_id]
        r = self.pend[a]
        self.pend[a] = 0
        # with a big unit the reward is a numpy integer scalar (exact beyond 2^53, where a float is not)
        return np.int64(r) if self.unit != 1 else r

    def _done(self, a):
        u = self.undone_at[a] if a < len(self.undone_at) else 1000000
        return self.done_at[a] <= self.t and not (u <= self.t)

    def get_done(self, agent_id, **kwargs):
        d = self._done(self.idx[agent_id])
        return np.bool_(d) if self.np_flags else d

    def get_all_done(self, **kwargs):
        d = self.finish_at <= self.t
        return np.bool_(d) if self.np_flags else d

    info_fault_in = None      # (round 6) the n-th get_info from now raises, once (n = 0: the next one)

    def get_info(self, agent_id, **kwargs):
        if self.info_fault_in is not None:
            if self.info_fault_in <= 0:
                self.info_fault_in = None
                self.info_fault_fired = True
                raise RuntimeError("injected fault: the simulation could not produce this info just now")
            self.info_fault_in -= 1
        return {"t": self.t}

    # ghost (non-mutating)
    def ghost(self):
        nom = self.noms[self.t] if self.t < len(self.noms) else list(range(self.n))
        return [self.finish_at <= self.t,
                [self._done(a) for a in range(self.n)],
                list(self.pend), list(nom)]


class FusionStubSim(StubSim):
    """Fusion-aware variant (C20; Lean side: `stubComm` in lean/Abmarl/Model/Comm.lean).

    `get_obs(agent_id, fusion_matrix=None)` appends to the observation one bit per *other* agent
    (listing order) read from the fusion matrix it was handed, and records in `fusion_log`
    exactly what it was handed: (agent index, sorted [(other index, bit)] | None).  Everything
    else is `StubSim`; the base class is not changed.
    """
    UNKNOWN = 99            # index reported for a key that is not an agent id

    def __init__(self, script):
        super().__init__(script, discrete=False)
        for i, aid in enumerate(self.ids):
            if self.learning[i]:
                self.agents[aid].observation_space = MultiDiscrete([1000] * 4 + [2] * (self.n - 1))
        self.finalize()
        self.fusion_log = []

    def canon_row(self, d):
        """a {agent_id: bit} dictionary as a sorted list of [index, bool]"""
        return sorted([self.idx.get(k, self.UNKNOWN), bool(v)] for k, v in d.items())

    def get_obs(self, agent_id, fusion_matrix=None, **kwargs):
        a = self.idx[agent_id]
        given = fusion_matrix if isinstance(fusion_matrix, dict) else None
        self.fusion_log.append((a, None if given is None else self.canon_row(given)))
        o = [self.ep, self.t, a, self.reads[a]]
        self.reads[a] += 1
        for other in self.ids:
            if other != agent_id:
                o.append(1 if (given is not None and given.get(other, False)) else 0)
        return o


def script_to_wire(sc):
    w = [sc["n"], [bool(b) for b in sc["learning"]], list(sc["doneAt"]), sc["finishAt"],
         [list(x) for x in sc["noms"]]]
    if sc.get("undoneAt") or sc.get("unit", 1) != 1:
        w.append(list(sc.get("undoneAt") or []))
    if sc.get("unit", 1) != 1:
        w.append(int(sc["unit"]))
    return w




# ------------------------------------------------------------------------------------------------
# added for C06 (space-converting wrappers): the stub with generated nested spaces.  A subclass with
# its own constructor -- nothing above is changed.

def pt_weight(c):
    """what the reward accrual sees of an action: sum over the numbers of its canonical wire form
    (|i| for an integer-typed entry, |num| + den for a float-typed one); 0 for a non-canonical value.
    Lean: Pt.weight (Model/Wrappers.lean)"""
    def num(x):
        if isinstance(x, int):
            return abs(x)
        if isinstance(x, list) and len(x) == 2:
            return abs(x[0]) + x[1]
        return 0
    if not isinstance(c, list) or not c:
        return 0
    if c[0] == "s":
        return num(c[1])
    if c[0] == "a":
        return sum(num(x) for x in c[2])
    if c[0] == "m":
        return sum(pt_weight(p) for p in c[2])
    if c[0] == "t":
        return sum(pt_weight(p) for p in c[1])
    return 0


class SpaceStubSim(DynamicOrderSimulation):
    """The scripted stub whose learning agents have generated nested action / observation spaces
    (descriptions of harness/spc.py).  `get_obs` returns point number (7 t + 3 a + reads [+ shift])
    mod len of the agent's scripted list of observation points; `step` logs the canonical form of
    every action it receives and accrues rewards from `pt_weight` of it.  Everything else is StubSim.
    With `kw=True` the getters honour keyword arguments (`shift=`, the number of true entries of
    `fusion_matrix=`, `bonus=`), which is what CommunicationHandshakeWrapper relies on."""

    def __init__(self, script, spaces, obs_pts, flat_ep=False, kw=False, nulls=None):
        import spc
        self._spc = spc
        self.flat_ep = flat_ep
        self.kw = kw
        self.n = script["n"]
        self.learning = list(script["learning"])
        self.done_at = list(script["doneAt"])
        self.finish_at = script["finishAt"]
        self.noms = [list(x) for x in script["noms"]]
        self.undone_at = list(script.get("undoneAt", []))
        self.ids = [f"{'zwxbyvcuat'[i % 10]}{i}{'_' * (i % 3)}" for i in range(self.n)]
        self.idx = {aid: i for i, aid in enumerate(self.ids)}
        self.space_desc = [None if s is None else (s[0], s[1]) for s in spaces]
        self.obs_pts = [list(x) for x in obs_pts]
        agents = {}
        for i, aid in enumerate(self.ids):
            if self.learning[i]:
                kwargs = {}
                if nulls is not None and nulls[i] is not None:
                    na, no = nulls[i]
                    if na is not None:
                        kwargs["null_action"] = spc.to_py(self.space_desc[i][0], na)
                    if no is not None:
                        kwargs["null_observation"] = spc.to_py(self.space_desc[i][1], no)
                if script.get("seeded"):
                    kwargs["seed"] = 17 + i          # the optional `seed=`: finalize() seeds the agent's spaces
                agents[aid] = Agent(id=aid, observation_space=spc.to_gym(self.space_desc[i][1]),
                                    action_space=spc.to_gym(self.space_desc[i][0]), **kwargs)
            else:
                agents[aid] = PrincipleAgent(id=aid)
        self.agents = agents
        self.finalize()
        if script.get("seeded"):
            # ... and the simulation has already drawn from them (the generators are no longer in their seed state)
            for a in agents.values():
                if isinstance(a, Agent):
                    a.action_space.sample()
                    a.observation_space.sample()
        self.ep = 0
        self.t = 0
        self.reads = [0] * self.n
        self.pend = [0] * self.n
        self.step_log = []
        self.accrued_snapshot = [0] * self.n
        self._set_next()

    def _set_next(self):
        nom = self.noms[self.t] if self.t < len(self.noms) else list(range(self.n))
        self.next_agent = [self.ids[i] for i in nom]

    def reset(self, **kwargs):
        self.ep = 1 if self.flat_ep else self.ep + 1
        self.t = 0
        self.reads = [0] * self.n
        self.pend = [0] * self.n
        self.accrued_snapshot = list(self.pend)
        self._set_next()

    def step(self, action_dict, **kwargs):
        entry = []
        for k, v in action_dict.items():
            a = self.idx[k]
            sd = self.space_desc[a]
            entry.append((a, self._spc.canon_pt(sd[0], v) if sd is not None else "bad"))
        self.step_log.append(entry)
        # a simulation may write into the actions it receives (DriftMoveActor does: action_dict['move'] = ...): once
        # their canonical form is logged the received values are overwritten in place, so a wrapper that hands the
        # same decoded object over again later shows
        for v in action_dict.values():
            self._spc.scribble(v)
        self.t += 1
        got = dict(entry)
        for a in range(self.n):
            act = pt_weight(got[a]) if a in got else None
            self.pend[a] += accr(a, self.t, act)
        self.accrued_snapshot = list(self.pend)
        self._set_next()

    def render(self, **kwargs):
        pass

    def get_obs(self, agent_id, **kwargs):
        a = self.idx[agent_id]
        shift = 0
        if self.kw:
            shift = int(kwargs.get("shift", 0))
            fm = kwargs.get("fusion_matrix")
            if fm:
                shift += sum(1 for v in fm.values() if v)
        pts = self.obs_pts[a]
        reads = self.reads[a]
        self.reads[a] += 1
        if not pts:
            return ()
        pd = pts[(7 * self.t + 3 * a + reads + shift) % len(pts)]
        return self._spc.to_py(self.space_desc[a][1], pd)

    def get_reward(self, agent_id, **kwargs):
        a = self.idx[agent_id]
        r = self.pend[a]
        self.pend[a] = 0
        if self.kw:
            r += int(kwargs.get("bonus", 0))
        return r

    def _done(self, a):
        u = self.undone_at[a] if a < len(self.undone_at) else 1000000
        return self.done_at[a] <= self.t and not (u <= self.t)

    def get_done(self, agent_id, **kwargs):
        return self._done(self.idx[agent_id])

    def get_all_done(self, **kwargs):
        return self.finish_at <= self.t

    def get_info(self, agent_id, **kwargs):
        return {"t": self.t}

    def dump(self):
        """[ep, t] + reads + pend  (Lean: stubDump)"""
        return [self.ep, self.t] + list(self.reads) + list(self.pend)
