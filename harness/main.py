"""Entry point: ./check <Cxx> [--tier quick|thorough] [--replay FILE]"""
import argparse
import os
import sys


def get_prop(pid):
    if pid == "C02":
        import p_c02
        return p_c02.C02Prop()
    if pid in ("C01", "C07"):
        import p_mgr
        return p_mgr.MgrProp(pid)
    if pid == "C12":
        import p_grid
        return p_grid.MoveProp(pid)
    if pid == "C03":
        import p_c03
        return p_c03.C03Prop()
    if pid == "C16":
        import p_trainer
        return p_trainer.TrainerProp()
    if pid == "C18":
        import p_builders
        return p_builders.BuildersProp()
    if pid == "C10":
        import p_mask
        return p_mask.MaskProp()
    if pid == "C15":
        import p_adapters
        return p_adapters.AdapterProp()
    if pid == "C08":
        import p_reset
        return p_reset.C08Prop()
    if pid == "C19":
        import p_config
        return p_config.ConfigProp()
    if pid == "C09":
        import p_obs
        return p_obs.ObsProp()
    if pid == "C17":
        import p_done
        return p_done.DoneProp(pid)
    if pid == "C13":
        import p_place
        return p_place.PlaceProp()
    if pid in ("C04", "C05"):
        import p_spaces
        return p_spaces.SpacesProp(pid)
    if pid == "C11":
        import p_attack
        return p_attack.AttackProp("C11")
    if pid == "C14":
        import p_super
        return p_super.SuperProp()
    if pid == "C20":
        import p_comm
        return p_comm.CommProp()
    if pid == "C06":
        import p_wrap
        return p_wrap.WrapProp()
    raise SystemExit(f"unknown property {pid}")


def main():
    ap = argparse.ArgumentParser()
    ap.add_argument("pid")
    ap.add_argument("--tier", default=os.environ.get("VERIF_TIER", "quick"), choices=["quick", "thorough"])
    ap.add_argument("--replay", default=None)
    args = ap.parse_args()
    seed = int(os.environ.get("VERIF_SEED", "0"))
    import core
    prop = get_prop(args.pid)
    sys.exit(core.run_check(prop, args.tier, seed, replay=args.replay))


if __name__ == "__main__":
    main()
