"""C03, monitor stream "decimal": histories through the real components with DECIMAL healths and strengths
(0.1, 0.2, 0.7 ...), which are not dyadic: floating point rounds at every hit (1.0 - 10 x 0.1 leaves 1.4e-16), so
the exact-rational model cannot follow the real code step by step.  The invariant does not care how the health
was computed: every world the real code reaches is dumped (each float as the exact rational it is) and judged by
the Lean definition of WInv (driver op `gwinv`).  No model outcome is compared in this stream.
"""
import copy

import gridw
import wire
import p_c03

DEC_STRENGTHS = [[1, 10], [1, 5], [3, 10], [1, 3], [7, 10], [1, 100]]
DEC_HEALTHS = [[1, 1], [7, 10], [3, 10], [9, 10], [1, 5], [1, 10]]


def gen_decimal_cfg(rng):
    cfg = p_c03.gen_cfg(rng, max_side=4, max_agents=6)
    if not cfg.get("attack"):
        return None
    for a in cfg["world"]["agents"]:
        if a.get("attacking"):
            a["strength"] = rng.choice(DEC_STRENGTHS)
            a["accuracy"] = [1, 1]
            a["sim_attacks"] = max(1, a.get("sim_attacks", 1))
        if rng.random() < 0.8:
            a["init_health"] = rng.choice(DEC_HEALTHS)
    return cfg


def run(d, upto=None):
    """replays the operations of the description on a new real world; yields (k, status, stat, dyn)"""
    sess = p_c03.HistSession(copy.deepcopy(d["cfg"]))
    for k, op in enumerate(d["ops"]):
        if upto is not None and k > upto:
            return
        e, _ = sess.do(op)
        yield k, ("ok" if e[0] == "ok" else e[1]), sess.stat, (e[1] if e[0] == "ok" else sess.w.dyn_wire()), op[0]
        if e[0] != "ok":
            return


def make_case(d, k, status, stat, dyn, opkind):
    line = wire.enc(["gwinv", stat, dyn])
    failed_reset = opkind == "reset" and status in ("noCell", "assertion")
    tags = ["stream:decimal", "decimal-op:" + opkind, "judge:" + ("none" if failed_reset else "WInv")]
    if status != "ok":
        tags.append("decimal-err:%s:%s" % (opkind, status))
    bad = status != "ok" and not failed_reset
    c = p_c03.C03Case(dict(d, upto=k), line, "err:" + status if bad else "", key=p_c03._h(line), nontrivial=True, tags=tags)
    c.stream, c.inner = "decimal", None
    return c


def cases(rng, count):
    made = 0
    while made < count:
        cfg = gen_decimal_cfg(rng)
        if cfg is None:
            continue
        try:
            sess = p_c03.HistSession(copy.deepcopy(cfg))
        except (ValueError, AssertionError, KeyError, TypeError):
            continue
        # many hits in a row: the same attacker keeps attacking (10 x 0.1, 5 x 0.2, 7 x 0.1 from 0.7 ...)
        n = len(cfg["world"]["agents"])
        attackers = [i for i in range(n) if sess.stat[3][i][6]]
        if not attackers:
            continue
        main = rng.choice(attackers)
        ops, entries = [], []
        for k in range(rng.randint(15, 45)):
            al = sess.w.agent_list
            if k == 0 or rng.random() < 0.04:
                op = p_c03.gen_reset(rng, cfg["world"])
            elif rng.random() < 0.8:
                a = main if (al[main].active and rng.random() < 0.85) else rng.choice(attackers)
                op = p_c03.gen_attack(rng, sess, a)
            else:
                op = p_c03.gen_move(rng, sess, rng.randrange(n))
            e, _ = sess.do(op)
            ops.append(op)
            entries.append(e)
            if e[0] != "ok":
                break
        made += 1
        d = {"stream": "decimal", "cfg": cfg, "ops": ops}
        for k, (op, e) in enumerate(zip(ops, entries)):
            status = "ok" if e[0] == "ok" else e[1]
            dyn = e[1] if e[0] == "ok" else sess.w.dyn_wire()
            yield make_case(d, k, status, sess.stat, dyn, op[0])


def case_from_desc(d):
    last = None
    for k, status, stat, dyn, opkind in run(d, upto=d.get("upto")):
        last = (k, status, stat, dyn, opkind)
    return make_case({x: y for x, y in d.items() if x != "upto"}, *last)
