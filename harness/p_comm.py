"""C20: the real CommunicationHandshakeWrapper over the fusion-aware scripted stub.

A case is a history of wrapper calls (reset / step with an action dictionary for any subset of
agents / get_obs), played on the real wrapper; per call the canonical entry holds the result and
the ghost observations: the argument the wrapped `step` was called with (stub `step_log`), the
`fusion_matrix` the wrapped `get_obs` was called with (stub `fusion_log`), and the wrapper's two
dictionaries after the call.  The Lean driver (`comm`) answers with the model's trace and with the
proved judge `specC20` evaluated on the model's and on the implementation's trace.

Three sources of histories: exhaustive bit patterns on small scopes, seeded random histories
(<= 4 agents, <= 10 steps, any subset acting, resets mid-episode, second episode, interleaved
get_obs), and the wrapper under the real AllStepManager (the manager's calls on the wrapper are
recorded from outside and judged as one more call history).  Membership of every wrapped
observation in `agent.observation_space` and of every generated in-space action in
`agent.action_space` is checked on the real side (`in`); failures are runtime failures.
"""
import itertools
import random
import json

import numpy as np

import compat  # noqa: F401
import core
import mgr
import wire
from stub_sim import FusionStubSim, script_to_wire

from gymnasium.spaces import Dict, Discrete
from abmarl.sim import is_agent
from abmarl.sim.wrappers import CommunicationHandshakeWrapper
from abmarl.managers import AllStepManager

NEVER = mgr.NEVER

_ENC_CHECKS = [0]
_TR = str.maketrans({"[": "(", "]": ")", '"': None})


def fast_enc(x):
    """wire.enc for nested lists of ints / bools / atoms, through the C json encoder (the traces are the bulk of
    the run time); the first calls of every run are cross-checked against wire.enc"""
    s = json.dumps(x, separators=(" ", ":")).replace("true", "1").replace("false", "0").translate(_TR)
    if _ENC_CHECKS[0] < 50:
        _ENC_CHECKS[0] += 1
        assert s == wire.enc(x), "fast_enc differs from wire.enc"
    return s


def plain_script(n, learning=None):
    return {"n": n, "learning": list(learning) if learning else [True] * n, "doneAt": [NEVER] * n,
            "finishAt": NEVER, "noms": []}


def bit_value(b, style):
    """message / receive values are stored by the code as given: vary their Python type"""
    if style == 0:
        return bool(b)
    if style == 1:
        return int(b)
    return np.int64(int(b))


class Session:
    """the real wrapper over a fresh fusion-aware stub, driven call by call"""

    def __init__(self, script, style=0):
        self.script, self.style = script, style
        self.sim = FusionStubSim(script)
        self.w = CommunicationHandshakeWrapper(self.sim)
        self.n = script["n"]
        self.ops, self.trace = [], []
        self.dead = False
        self.mem_fail = []          # (what, op index)
        # a second wrapper in the same process over another simulation with the same agent ids, used in between:
        # the first one must not notice (no communication state shared between wrapper objects)
        self.shadow = None
        if script.get("shadow") is not None:
            self.srng = random.Random(script["shadow"])
            self.shadow = CommunicationHandshakeWrapper(FusionStubSim({k: v for k, v in script.items() if k != "shadow"}))
            self.shadow_started = False

    def _shadow_op(self):
        r, w2 = self.srng, self.shadow
        try:
            if not self.shadow_started or r.random() < 0.25:
                w2.reset()
                self.shadow_started = True
            else:
                ids = [i for i in range(self.n) if self.script["learning"][i]]
                ad = {}
                for a in ids:
                    if r.random() < 0.85:
                        others = [k for k in range(self.n) if k != a]
                        ad[self.aid(a)] = {"action": 0,
                                           "send": {self.aid(k): int(r.random() < 0.6) for k in others},
                                           "receive": {self.aid(k): int(r.random() < 0.6) for k in others}}
                w2.step(ad)
        except mgr.Hang:
            raise
        except Exception:  # noqa: BLE001
            pass

    def aid(self, i):
        return self.sim.ids[i] if 0 <= i < self.n else f"a{i}"

    def row_dict(self, row):
        return {self.aid(k): bit_value(b, self.style) for k, b in row}

    def action_dict(self, acts):
        return {self.aid(a): {"action": act, "send": self.row_dict(send), "receive": self.row_dict(recv)}
                for a, (act, send, recv) in acts}

    # -- ghost --------------------------------------------------------------------------------
    def matrix(self, name):
        m = getattr(self.w, name, None)
        if not isinstance(m, dict):
            return []
        return [self.sim.canon_row(m.get(i, {})) for i in self.sim.ids]

    def in_space(self, a, send, recv):
        others = [i for i in range(self.n) if i != a]
        return sorted(k for k, _ in send) == others and sorted(k for k, _ in recv) == others

    def record(self, op, status, value, log_before, flog_before):
        """canonical entry of one wrapper call that has just been made"""
        sim = self.sim
        if status != "ok":
            res = ["e", "hang" if status == "hang" else "crash"]
        elif op[0] == "r":
            res = ["r"]
        elif op[0] == "s":
            res = ["s"]
        else:
            try:
                res = ["o", [int(x) for x in value["obs"]], sim.canon_row(value["message_buffer"])]
            except Exception:  # noqa: BLE001  a result that is not {'obs':…, 'message_buffer':…}
                res = ["e", "crash"]
        sim_args = ["y", [[a, v] for a, v in sim.step_log[-1]]] if len(sim.step_log) > log_before else ["n"]
        if len(sim.fusion_log) > flog_before:
            row = sim.fusion_log[-1][1]
            fusion = ["y", row if row is not None else []]
        else:
            fusion = ["n"]
        self.ops.append(op)
        if res[0] == "e":
            # a call that raised: only the fact is compared (the state an exception leaves behind is incidental)
            self.trace.append([res, ["n"], ["n"], [], []])
            self.dead = True
        else:
            self.trace.append([res, sim_args, fusion, self.matrix("message_buffer"), self.matrix("received_message")])

    @staticmethod
    def _try(fn):
        """('ok', value) | ('crash', info); the watchdog's Hang passes through (one watchdog per history)"""
        try:
            return "ok", fn()
        except mgr.Hang:
            raise
        except Exception as e:  # noqa: BLE001
            return "crash", f"{type(e).__name__}: {e}"

    def apply(self, op):
        sim, w = self.sim, self.w
        if self.shadow is not None:
            self._shadow_op()
        lb, fb = len(sim.step_log), len(sim.fusion_log)
        if op[0] == "r":
            st, val = self._try(lambda: w.reset())
        elif op[0] == "s":
            ad = self.action_dict(op[1])
            for a, (act, send, recv) in op[1]:
                if 0 <= a < self.n and self.script["learning"][a] and self.in_space(a, send, recv):
                    if ad[self.aid(a)] not in w.agents[self.aid(a)].action_space:
                        self.mem_fail.append(("generated in-space action not in agent.action_space", len(self.ops)))
            self._failed_attempt(ad)
            st, val = self._try(lambda: w.step(ad))
        else:
            a = op[1]
            if len(self.ops) % 3 == 1:
                # a caller-supplied `fusion_matrix=` that claims every handshake: the wrapper fuses what IT tracked
                bogus = {self.aid(b): True for b in range(self.n) if b != a}
                st, val = self._try(lambda: w.get_obs(self.aid(a), fusion_matrix=bogus))
            else:
                st, val = self._try(lambda: w.get_obs(self.aid(a)))
            if st == "ok" and 0 <= a < self.n and self.script["learning"][a]:
                self.check_obs(a, val)
        self.record(op, st, val, lb, fb)
        if op[0] not in ("r", "s") and st == "ok":
            # the caller owns the observation it was handed: it overwrites the message buffer in place ("every sender
            # wrote to me"); the wrapper's own buffers are not the caller's to change
            try:
                mb = val["message_buffer"]
                for k in list(mb):
                    mb[k] = True
            except Exception:  # noqa: BLE001
                pass
        return st, val

    def _failed_attempt(self, ad):
        """round 6: a step that RAISES part-way, before the wrapped simulation is advanced, followed at once by the
        corrected step.  The attempt hands in the same action dictionary with one malformed item at the END - a plain
        number as the action of an agent that has a message pending (so that the receive loop itself trips over it; an
        agent without one is skipped by the short-circuit and the exception would come after the buffer was cleared).
        The unchanged wrapper has read, not written, its message buffer by then, and the corrected step recomputes every
        row the attempt touched: the attempt must be invisible.  One step in four, when such an agent exists."""
        self._attempts = getattr(self, "_attempts", 0) + 1
        if self._attempts % 4 != 1:
            return
        mb = getattr(self.w, "message_buffer", None)
        if not isinstance(mb, dict):
            return
        pending = [k for k in self.sim.ids if isinstance(mb.get(k), dict) and any(bool(v) for v in mb[k].values())]
        if not pending:
            return
        x = pending[self._attempts // 4 % len(pending)]
        bad = {k: v for k, v in ad.items() if k != x}
        bad[x] = 7                                           # last in the dictionary
        lb = len(self.sim.step_log)
        try:
            self.w.step(bad)
        except mgr.Hang:
            raise
        except Exception:  # noqa: BLE001
            pass
        if len(self.sim.step_log) > lb:
            # the malformed dictionary reached the simulation: not the situation this is about; let the trace show it
            return
        self.failed_attempts = getattr(self, "failed_attempts", 0) + 1

    def interrupted_last_step(self):
        """round 6, after the history (the trace is complete, nothing here reaches the model): one more step that is
        INTERRUPTED after the wrapped simulation was advanced - the last agent's 'send' names an agent that does not
        exist.  "Buffers are cleared every step": whatever the interrupted step leaves in the message buffer, a message
        from a sender that did not send in THIS step must not be there any more."""
        w, sim = self.w, self.sim
        mb = getattr(w, "message_buffer", None)
        if not isinstance(mb, dict) or not any(any(bool(v) for v in row.values()) for row in mb.values()
                                               if isinstance(row, dict)):
            return                                           # nothing pending: nothing could survive
        ids = [sim.ids[i] for i in range(self.n) if self.script["learning"][i]]
        try:
            ids = [k for k in ids if not sim.get_done(k)]
        except Exception:  # noqa: BLE001
            return
        if not ids:
            return
        ad = {k: {"action": 0, "send": {o: 0 for o in sim.ids if o != k}, "receive": {o: 0 for o in sim.ids if o != k}}
              for k in ids}
        ad[ids[-1]]["send"]["nobody_of_this_name"] = 1       # KeyError once the simulation has stepped
        try:
            w.step(ad)
            return                                           # accepted: not the situation this is about
        except mgr.Hang:
            raise
        except Exception:  # noqa: BLE001
            pass
        mb = getattr(w, "message_buffer", None)
        if isinstance(mb, dict) and any(any(bool(v) for v in row.values()) for row in mb.values() if isinstance(row, dict)):
            self.mem_fail.append(("a message sent in an earlier step is still in the message buffer after a step that "
                                  "was interrupted once the simulation had advanced (nobody sent in that step)",
                                  len(self.ops)))

    def check_obs(self, a, val):
        try:
            ok = val in self.w.agents[self.aid(a)].observation_space
        except Exception:  # noqa: BLE001
            ok = False
        if not ok:
            self.mem_fail.append(("wrapped observation not in agent.observation_space", len(self.ops)))


def watchdog(sess, fn, pending_op):
    """run fn() under one watchdog; a hang of the real code becomes the outcome of the call in progress"""
    st, info = mgr.guarded(fn, seconds=10.0)
    if st == "hang":
        sess.record(pending_op(), "hang", None, len(sess.sim.step_log), len(sess.sim.fusion_log))
    elif st != "ok":
        raise RuntimeError(f"harness error while driving the wrapper: {st} {info}")


def run_concrete(script, style, ops):
    s = Session(script, style)

    def go():
        for op in ops:
            if s.dead:
                break
            s.apply(op)
    watchdog(s, go, lambda: ops[len(s.ops)])
    if not s.dead and len(ops) % 2 == 0:
        mgr.guarded(s.interrupted_last_step, seconds=10.0)
    return s


# ------------------------------------------------------------------------------------------------
# the wrapper under the real AllStepManager: the manager's calls on the wrapper are the history

class ManagedSession(Session):
    """the wrapper under the real AllStepManager; every call the manager makes on the wrapper is recorded"""

    def __init__(self, script, style=0):
        super().__init__(script, style)
        w, sim, s = self.w, self.sim, self
        real_reset, real_step, real_get_obs = w.reset, w.step, w.get_obs

        def recorded(op_of, real):
            def f(*a, **kw):
                lb, fb = len(sim.step_log), len(sim.fusion_log)
                op = op_of(*a)
                try:
                    val = real(*a, **kw)
                except mgr.Hang:
                    raise
                except Exception:
                    s.record(op, "crash", None, lb, fb)
                    raise
                s.record(op, "ok", val, lb, fb)
                return val
            return f

        w.reset = recorded(lambda: ["r"], real_reset)
        w.step = recorded(lambda ad: ["s", [[sim.idx[k], [int(v["action"]), sim.canon_row(v["send"]),
                                                          sim.canon_row(v["receive"])]] for k, v in ad.items()]],
                          real_step)
        w.get_obs = recorded(lambda agent_id: ["g", sim.idx[agent_id]], real_get_obs)
        self.manager = AllStepManager(w)
        self.mops = []
        self.last = None

    def apply_m(self, mop):
        """one manager-level call ['r'] | ['s', acts]"""
        w, s = self.w, self
        if mop[0] == "r":
            st, val = self._try(lambda: self.manager.reset())
            obs = val if st == "ok" else {}
        else:
            ad = s.action_dict(mop[1])
            for a, (act, send, recv) in mop[1]:
                if ad[s.aid(a)] not in w.agents[s.aid(a)].action_space:
                    s.mem_fail.append(("generated in-space action not in agent.action_space", len(s.ops)))
            st, val = self._try(lambda: self.manager.step(ad))
            obs = val[0] if st == "ok" else {}
        self.mops.append(mop)
        self.last = (st, val)
        if st != "ok":
            s.mem_fail.append((f"manager call failed over the wrapper: {val}", len(s.ops)))
            self.dead = True
            return
        for k, o in obs.items():
            if o not in w.agents[k].observation_space:
                s.mem_fail.append(("observation returned by the manager not in agent.observation_space", len(s.ops)))


def run_under_manager(script, style, mops):
    s = ManagedSession(script, style)

    def go():
        for mop in mops:
            if s.dead:
                break
            s.apply_m(mop)
    watchdog(s, go, lambda: ["r"])
    return s


# ------------------------------------------------------------------------------------------------
# generators

def full_rows(n, a, send_bits, recv_bits):
    others = [i for i in range(n) if i != a]
    return [[o, b] for o, b in zip(others, send_bits)], [[o, b] for o, b in zip(others, recv_bits)]


def sweep(n):
    return [["g", a] for a in range(n)]


def step_patterns(n, subsets=True, send=True, recv=True):
    """every (acting subset, send rows, receive rows) of one step, as lists of (agent, send bits, recv bits);
    with send/recv False the respective rows are left to the caller (None)"""
    k = n - 1
    agents = range(n)
    subs = []
    for r in range(n + 1):
        subs += list(itertools.combinations(agents, r))
    if not subsets:
        subs = [tuple(agents)]
    for sub in subs:
        per_agent = []
        for a in sub:
            sb = list(itertools.product([False, True], repeat=k)) if send else [None]
            rb = list(itertools.product([False, True], repeat=k)) if recv else [None]
            per_agent.append([(a, s, r) for s in sb for r in rb])
        for combo in itertools.product(*per_agent):
            yield list(combo)


def mk_step(n, pattern, rng=None):
    acts = []
    for a, sb, rb in pattern:
        if sb is None:
            sb = [rng.random() < 0.5 for _ in range(n - 1)]
        if rb is None:
            rb = [rng.random() < 0.7 for _ in range(n - 1)]
        s, r = full_rows(n, a, list(sb), list(rb))
        acts.append([a, [(3 * a + len(acts)) % 10, s, r]])
    return ["s", acts]


def random_history(rng, n, max_steps, episodes, p_reset_mid=0.05, ood=False):
    ops = [["r"]]
    ep, steps = 1, 0
    total = rng.randint(1, max_steps)
    p_send = rng.choice([0.2, 0.5, 0.8])
    p_recv = rng.choice([0.3, 0.6, 0.9])
    p_act = rng.choice([0.5, 0.8, 1.0])
    p_obs = rng.choice([0.0, 0.3, 1.0])
    while steps < total:
        if rng.random() < p_reset_mid or (ep < episodes and steps == total // 2 and rng.random() < 0.5):
            ops.append(["r"])
            if rng.random() < 0.3:
                ops.append(["r"])
            ep += 1
        acting = [a for a in range(n) if rng.random() < p_act]
        if rng.random() < 0.3:
            rng.shuffle(acting)
        acts = []
        for a in acting:
            others = [i for i in range(n) if i != a]
            send = [[o, rng.random() < p_send] for o in others]
            recv = [[o, rng.random() < p_recv] for o in others]
            if rng.random() < 0.2:
                rng.shuffle(send)
                rng.shuffle(recv)
            if ood and rng.random() < 0.3:
                r = rng.random()
                if r < 0.35 and send:
                    send = [p for p in send if rng.random() < 0.6]           # partial send dictionary
                elif r < 0.7 and recv:
                    recv = [p for p in recv if rng.random() < 0.6]           # partial receive dictionary
                elif r < 0.8:
                    send = send + [[n + rng.randrange(2), True]]             # unknown receiver
                elif r < 0.9:
                    recv = recv + [[n, True]]                                # extra receive key (harmless)
            acts.append([a, [rng.randrange(10), send, recv]])
        if ood and rng.random() < 0.05:
            acts.append([n, [0, [], []]])                                    # unknown acting agent
        ops.append(["s", acts])
        steps += 1
        if rng.random() < p_obs:
            ops += sweep(n)
        else:
            for a in range(n):
                if rng.random() < 0.3:
                    ops.append(["g", a])
        if ood and rng.random() < 0.03:
            ops.append(["g", n])                                             # unknown agent
    return ops


def manager_history(rng, script, style, max_steps, episodes):
    """adaptive, played live: actions only for agents the manager reported as not done (a random subset of them);
    returns the ManagedSession (its `mops` replay it exactly)"""
    n = script["n"]
    s = ManagedSession(script, style)

    def go():
        s.apply_m(["r"])
        ep = 1
        for _ in range(max_steps):
            if s.dead:
                break
            val = s.last[1]
            if s.mops[-1][0] == "r":
                live = [s.sim.idx[k] for k in val]
            else:
                if val[2].get("__all__"):
                    if ep >= episodes:
                        break
                    s.apply_m(["r"])
                    ep += 1
                    continue
                live = [s.sim.idx[k] for k, d in val[2].items() if k != "__all__" and not d]
            if rng.random() < 0.05 and ep < episodes:
                s.apply_m(["r"])
                ep += 1
                continue
            acting = [a for a in live if rng.random() < 0.85] if rng.random() < 0.5 else list(live)
            acts = []
            for a in acting:
                others = [i for i in range(n) if i != a]
                acts.append([a, [rng.randrange(10), [[o, rng.random() < 0.5] for o in others],
                                 [[o, rng.random() < 0.7] for o in others]]])
            s.apply_m(["s", acts])
    watchdog(s, go, lambda: ["r"])
    return s


# ------------------------------------------------------------------------------------------------

class CommProp(core.Prop):
    pid = "C20"
    lean_targets = ["Abmarl.Props.C20"]
    rule = ("call histories (reset / step with any subset of acting agents and any send/receive bits / get_obs) "
            "played on the real CommunicationHandshakeWrapper over the fusion-aware scripted stub: exhaustive bit "
            "patterns on small scopes (quick: 2 agents x 3 steps all acting = 16^3, 2 agents x 2 steps over every "
            "acting subset = 25^2 followed by a third step; thorough: 2 agents x 3 steps over every acting subset = "
            "25^3, 3 agents x (every acting subset x send rows at step 1) x (every acting subset x receive rows at "
            "step 2) = 125^2 with the remaining rows and a third step drawn at random, twice), then seeded random "
            "histories (<= 4 agents incl. non-learning ones, <= 10 steps, 1-3 episodes, resets mid-episode, get_obs "
            "interleaved, three Python types of bit values), a malformed-input stream (partial send/receive "
            "dictionaries, unknown receivers / acting agents / observed agents) compared with the model's explicit "
            "raises-or-not results, and the wrapper under the "
            "real AllStepManager (the manager's calls on the wrapper are the history); distinct by (script, value "
            "style, concrete calls); non-trivial = at least one complete handshake (a fusion bit becomes true)")
    assumptions = [
        "theorems hold for every wrapped simulation, number of agents and history; the differential test drives the "
        "scripted stub family only",
        "a self-addressed send (outside the action space; the code adds the own id as a key) is not modelled and never "
        "generated",
        "that wrapping never alters the wrapped simulation's own agents (deep copy) is checked at run time, not modelled",
        "Discrete(2)/Dict membership is gymnasium's (implementation side); the model treats bits as Bool and the "
        "augmented spaces as key-set facts",
    ]

    def __init__(self):
        self.mem_failures = []

    # -- cases ------------------------------------------------------------------------------
    def _case(self, desc, sess, tags=()):
        ops = sess.ops
        impl = fast_enc(sess.trace)
        line = "(comm %s %s %s)" % (wire.enc(script_to_wire(desc["script"])), fast_enc([self._wop(o) for o in ops]), impl)
        fused = any(any(b for row in e[4] for _, b in row) for e in sess.trace)
        pending = any(any(b for row in e[3] for _, b in row) for e in sess.trace)
        t = ["n:%d" % desc["script"]["n"], "mode:" + desc["mode"], "style:%d" % desc["style"]] + list(tags)
        t.append("episodes:%d" % min(3, sum(1 for o in ops if o[0] == "r")))
        if fused:
            t.append("handshake")
        elif pending:
            t.append("pending-never-received")
        if any(o[0] == "s" and len(o[1]) < desc["script"]["n"] for o in ops):
            t.append("partial-acting")
        if any(e[0][0] == "e" for e in sess.trace):
            t.append("err:crash")
        for what, at in sess.mem_fail:
            self.mem_failures.append((what, dict(desc, failing_call=at)))
        return core.Case(desc, line, impl, key=json.dumps(desc, sort_keys=True), nontrivial=fused, tags=t)

    @staticmethod
    def _wop(op):
        if op[0] == "s":
            return ["s", [[a, [act, [list(p) for p in send], [list(p) for p in recv]]] for a, (act, send, recv) in op[1]]]
        return list(op)

    def _direct(self, script, style, ops, tags=()):
        sess = run_concrete(script, style, ops)
        desc = {"mode": "direct", "script": script, "style": style, "ops": sess.ops}
        return self._case(desc, sess, tags)

    def _managed(self, script, style, mops, tags=(), sess=None):
        if sess is None:
            sess = run_under_manager(script, style, mops)
        desc = {"mode": "manager", "script": script, "style": style, "ops": sess.mops}
        return self._case(desc, sess, list(tags) + ["under-AllStepManager"])

    def case_from_desc(self, desc):
        ops = [self._norm(o) for o in desc["ops"]]
        if desc["mode"] == "manager":
            return self._managed(desc["script"], desc["style"], ops)
        return self._direct(desc["script"], desc["style"], ops)

    @staticmethod
    def _norm(op):
        if op[0] == "s":
            return ["s", [[a, [x[0], [list(p) for p in x[1]], [list(p) for p in x[2]]]] for a, x in op[1]]]
        return list(op)

    def cases(self, tier, rng):
        quick = tier == "quick"
        # --- exhaustive, 2 agents --------------------------------------------------------------
        sc2 = plain_script(2)
        all_acting = list(step_patterns(2, subsets=False))          # 16
        with_subsets = list(step_patterns(2, subsets=True))         # 25
        if quick:
            for p1, p2, p3 in itertools.product(all_acting, repeat=3):
                ops = [["r"], mk_step(2, p1)] + sweep(2) + [mk_step(2, p2)] + sweep(2) + [mk_step(2, p3)] + sweep(2)
                yield self._direct(sc2, 0, ops, ["exhaustive-2x3-all-acting"])
            for p1, p2 in itertools.product(with_subsets, repeat=2):
                p3 = with_subsets[rng.randrange(len(with_subsets))]
                ops = [["r"], mk_step(2, p1)] + sweep(2) + [mk_step(2, p2)] + sweep(2) + [mk_step(2, p3)] + sweep(2)
                yield self._direct(sc2, 1, ops, ["exhaustive-2x2-subsets"])
        else:
            for p1, p2, p3 in itertools.product(with_subsets, repeat=3):
                ops = [["r"], mk_step(2, p1)] + sweep(2) + [mk_step(2, p2)] + sweep(2) + [mk_step(2, p3)] + sweep(2)
                yield self._direct(sc2, 0, ops, ["exhaustive-2x3-subsets"])
            # --- 3 agents: every (subset, send rows) at step 1 x every (subset, receive rows) at step 2 -------
            sc3 = plain_script(3)
            s1 = list(step_patterns(3, subsets=True, send=True, recv=False))     # 125
            s2 = list(step_patterns(3, subsets=True, send=False, recv=True))     # 125
            for rep in range(2):
                for p1, p2 in itertools.product(s1, s2):
                    p3 = [(a, None, None) for a in range(3) if rng.random() < 0.8]
                    ops = ([["r"], mk_step(3, p1, rng)] + (sweep(3) if rep % 2 == 0 else []) + [mk_step(3, p2, rng)]
                           + sweep(3) + [mk_step(3, p3, rng)] + sweep(3))
                    yield self._direct(sc3, rep % 3, ops, ["exhaustive-3-send-x-receive"])
        # --- a reset between two handshake halves, two episodes, exhaustively on 2 agents ----------------
        for p1, p2 in itertools.product(all_acting, repeat=2):
            ops = [["r"], mk_step(2, p1), ["r"]] + sweep(2) + [mk_step(2, p2)] + sweep(2) + [["r"], mk_step(2, p1)] + sweep(2)
            yield self._direct(sc2, 2, ops, ["exhaustive-reset-between"])
        # --- seeded random -----------------------------------------------------------------------------
        nrand = 2000 if quick else 100000
        for i in range(nrand):
            n = rng.choice([1, 2, 2, 3, 3, 3, 4, 4])
            big = rng.random() < 0.03
            if big:
                n = rng.randint(11, 12)             # what the small scopes never reach: two-digit agent indices
            learning = [rng.random() < 0.85 for _ in range(n)]
            script = plain_script(n, learning)
            tags = ["random"]
            if big:
                script["plainIds"] = True
                tags.append("eleven-and-more-agents-plain-ids")
            if rng.random() < 0.25:
                script["shadow"] = rng.randrange(10 ** 6)       # a second wrapper is used in between (see Session)
                tags.append("second-wrapper-in-process")
            ops = random_history(rng, n, 10, rng.randint(1, 3))
            yield self._direct(script, rng.randrange(3), ops, tags)
        # --- out-of-domain stream ----------------------------------------------------------------------
        for i in range(150 if quick else 5000):
            n = rng.choice([1, 2, 3, 4])
            script = plain_script(n, [rng.random() < 0.85 for _ in range(n)])
            ops = random_history(rng, n, 6, 2, ood=True)
            yield self._direct(script, rng.randrange(3), ops, ["out-of-domain"])
        # --- under the real AllStepManager -------------------------------------------------------------
        for i in range(250 if quick else 3000):
            script = mgr.gen_script(rng, max_agents=4, max_t=6)
            while script["n"] < 2 and rng.random() < 0.9:
                script = mgr.gen_script(rng, max_agents=4, max_t=6)
            script["noms"] = []
            if rng.random() < 0.6:      # let agents live long enough for a handshake
                script["doneAt"] = [d if d == NEVER else d + 2 for d in script["doneAt"]]
                script["finishAt"] = script["finishAt"] if script["finishAt"] == NEVER else script["finishAt"] + 2
            style = rng.randrange(3)
            sess = manager_history(rng, script, style, rng.randint(2, 8), rng.randint(1, 2))
            yield self._managed(script, style, sess.mops, sess=sess)

    # -- verdict ----------------------------------------------------------------------------
    def interpret(self, reply, case):
        model, ms, is_ = reply
        if is_ not in (0, 1):
            raise ValueError("driver could not parse the implementation trace")
        return core.Verdict(fast_enc(model), ms == 1, is_ == 1)

    def shrink_candidates(self, desc):
        ops = desc["ops"]
        for k in range(len(ops) - 1, 0, -1):
            yield dict(desc, ops=ops[:k])
        for i in range(1, len(ops)):
            yield dict(desc, ops=ops[:i] + ops[i + 1:])
        for i, op in enumerate(ops):
            if op[0] == "s":
                for j in range(len(op[1])):
                    yield dict(desc, ops=ops[:i] + [["s", op[1][:j] + op[1][j + 1:]]] + ops[i + 1:])
        for i, op in enumerate(ops):
            if op[0] == "s":
                for j, (a, (act, send, recv)) in enumerate(op[1]):
                    for which in (1, 2):
                        row = [send, recv][which - 1]
                        for q, (o, b) in enumerate(row):
                            if b:
                                row2 = row[:q] + [[o, False]] + row[q + 1:]
                                new = [act, row2, recv] if which == 1 else [act, send, row2]
                                yield dict(desc, ops=ops[:i] + [["s", op[1][:j] + [[a, new]] + op[1][j + 1:]]] + ops[i + 1:])
        if desc["style"] != 0:
            yield dict(desc, style=0)

    # -- runtime-only checks ------------------------------------------------------------------
    def runtime_failures_of_replay(self):
        return list(self.mem_failures)

    def extra_checks(self, tier, rng, report):
        seen = set()
        for what, desc in self.mem_failures:
            if what not in seen:            # one replay file per kind of failure
                seen.add(what)
                report.runtime_failure(what, desc)
        report.notes["membership_checks_failed"] = len(self.mem_failures)
        # the constructor: augmented spaces, and the wrapped simulation's own agents are left alone
        for n in (1, 2, 3, 4):
            for learning in itertools.product([True, False], repeat=n):
                script = plain_script(n, learning)
                sim = FusionStubSim(script)
                before = {k: (getattr(a, "action_space", None), getattr(a, "observation_space", None))
                          for k, a in sim.agents.items()}
                w = CommunicationHandshakeWrapper(sim)
                bad = None
                if w.unwrapped is not sim or list(w.agents) != list(sim.agents):
                    bad = "unwrapped / agent listing differs"
                for k, a in sim.agents.items():
                    if (getattr(a, "action_space", None), getattr(a, "observation_space", None)) != before[k]:
                        bad = "wrapping altered the wrapped simulation's own agent spaces"
                for k, a in w.agents.items():
                    if not is_agent(a):
                        continue
                    others = {o: Discrete(2) for o in sim.ids if o != k}
                    want_act = Dict({"action": before[k][0], "send": Dict(others), "receive": Dict(others)})
                    want_obs = Dict({"obs": before[k][1], "message_buffer": Dict(others)})
                    if a.action_space != want_act or a.observation_space != want_obs:
                        bad = "augmented spaces are not Dict(action/send/receive), Dict(obs/message_buffer) over the other agents"
                if bad:
                    report.runtime_failure(bad, {"script": script})
                    return
