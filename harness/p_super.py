"""C14: the real SuperAgentWrapper over the scripted stub, call by call and under the real managers.

Two kinds of case (driver ops `super` and `supermgr`):
* call-level sessions: a mapping (partition of learning agents into super agents and uncovered ones)
  is handed to the real constructor and a history of reset / step / get_obs / get_reward / get_done /
  get_all_done / get_info calls is played on the wrapper; after every call the ghost of the *inner*
  stub is recorded (done flags, pending rewards, the argument its `step` received, the `get_obs` reads
  it served).  Compared with `supSession (stubSim script) cfg` and judged by `specC14`;
* manager sessions: AllStepManager / TurnBasedManager over the wrapper over the stub, compared with
  the manager model instantiated on `superSim (stubSim script) cfg` and judged by specC01 / specC07
  (this is what ties `superSim_lawful` / `superSim_WF` to the real code).
Membership of every super observation in the super agent's observation space, of every joint action
in its action space and of every unravelled action in the covered agent's action space is checked on
the real side with `in` and reported through `runtime_failure`.
"""
import itertools
import json
import signal
import warnings

import compat  # noqa: F401
import core
import stub_sim
import mgr
import poke
import wire
from oracle import scripted, Tape
from stub_sim import StubSim, script_to_wire, encode_obs, decode_obs

from abmarl.sim.wrappers import SuperAgentWrapper

warnings.filterwarnings("ignore", message="Some covered agents in the SuperAgentWrapper")

NEVER = mgr.NEVER


def fenc(x):
    """wire.enc for plain lists of ints / bools / atoms, at C speed (same output format)"""
    return (json.dumps(x, separators=(" ", ":")).replace("[", "(").replace("]", ")").replace('"', "")
            .replace("true", "1").replace("false", "0"))


class LoggedStub(StubSim):
    """the stub plus ghost logs of the reads it serves (never consulted by the code under test)"""

    def __init__(self, script, discrete=False, null_obs=None):
        super().__init__(script, discrete=discrete, null_obs=null_obs)
        self.obs_log = []                 # (agent index, value) of every get_obs served
        self.rew_final = set()            # agents whose reward was read while they were done (this episode)
        self.rew_final_at_step = set()    # the same, as it was right after the last step/reset

    def reset(self, **kwargs):
        super().reset(**kwargs)
        self.rew_final = set()
        self.rew_final_at_step = set()

    def step(self, action_dict, **kwargs):
        super().step(action_dict, **kwargs)
        self.rew_final_at_step = set(self.rew_final)

    def get_obs(self, agent_id, **kwargs):
        o = super().get_obs(agent_id, **kwargs)
        self.obs_log.append((self.idx[agent_id], o))
        return o

    fault_for = None                      # (round 6) the agent whose next get_reward raises, once, before anything
    fault_fired = False

    def get_reward(self, agent_id, **kwargs):
        a = self.idx[agent_id]
        if self.fault_for == a:
            self.fault_for, self.fault_fired = None, True
            raise RuntimeError("injected fault: the simulation could not compute this reward just now")
        if self.done_at[a] <= self.t:
            self.rew_final.add(a)
        return super().get_reward(agent_id, **kwargs)


def _ints(o):
    """an observation of the stub (or a declared null observation) as a list of ints"""
    if isinstance(o, (list, tuple)) or hasattr(o, "__len__"):
        return [int(x) for x in o]
    return decode_obs(o)


def sid(i):
    return f"s{i}"


def ref_id(ref):
    return sid(ref[1]) if ref[0] == "S" else stub_sim.agent_id(ref[1])


class World:
    """stub + real wrapper for one mapping; `err` is set when the constructor rejects the mapping"""

    def __init__(self, script, groups, nulls, discrete):
        n = script["n"]
        null_obs = None
        if nulls is not None and any(x is not None for x in nulls):
            null_obs = [None if x is None else (encode_obs(x) if discrete else list(x)) for x in nulls]
        self.sim = LoggedStub(script, discrete=discrete, null_obs=null_obs)
        self.groups = [list(g) for g in groups]
        mapping = {sid(i): [stub_sim.agent_id(c) for c in g] for i, g in enumerate(groups)}
        self.err = None
        self.w = None
        build = lambda: SuperAgentWrapper(self.sim, super_agent_mapping=mapping)  # noqa: E731
        if script.get("remap") and len(groups) >= 1 and len(groups[0]) >= 1:
            # a history: the wrapper is built with ANOTHER partition (only the first covered agent, alone) and the
            # measured one is then assigned through the public `super_agent_mapping` setter
            first = {sid(0): [stub_sim.agent_id(groups[0][0])]}

            def build():
                w = SuperAgentWrapper(self.sim, super_agent_mapping=first)
                if script.get("remap") == "inplace":
                    # ... or the dictionary the wrapper hands out is EDITED IN PLACE (its lists too) until it says what
                    # the measured mapping says, and assigned back: the setter rebuilds from what it is given, it
                    # does not compare it with what it had
                    m = w.super_agent_mapping
                    for k in list(m):
                        if k not in mapping:
                            del m[k]
                    for k, v in mapping.items():
                        if k in m:
                            m[k][:] = v
                        else:
                            m[k] = list(v)
                    w.super_agent_mapping = m
                else:
                    w.super_agent_mapping = mapping
                return w
        st, val = mgr.guarded(build)
        if st != "ok":
            self.err = st
            self.uncovered = []
        else:
            self.w = val
            # the order of the wrapper's agents: super agents in mapping order, then the uncovered
            # agents in the iteration order of a Python set -- read here, at run time
            keys = list(self.w.agents.keys())
            if keys[:len(groups)] != [sid(i) for i in range(len(groups))] or \
                    any(k not in self.sim.idx for k in keys[len(groups):]):
                # the wrapper's agents are not the super agents of its mapping followed by simulation agents: it
                # cannot be driven; recorded as a construction that crashed (the model builds it)
                self.w, self.err, self.uncovered = None, "crash", []
            else:
                self.uncovered = [self.sim.idx[k] for k in keys[len(groups):]]
                poke.rejected(self.w, [script, groups])
                self.outer_ids = keys
                self.oidx = {k: i for i, k in enumerate(keys)}
        declared, truthy = [], []
        for i in range(n):
            ag = self.sim.agents[self.sim.ids[i]]
            no = getattr(ag, "null_observation", None)
            if nulls is not None and nulls[i] is not None and script["learning"][i]:
                declared.append([list(nulls[i])])
                # whether the wrapper treats the declared value as a null observation: since the repair of
                # S1 (c0b1a12) every declared value other than the empty dict counts, whatever its truth value
                truthy.append(not (type(no) is dict and len(no) == 0))
            else:
                declared.append([])
                truthy.append(False)
        self.cfg_wire = [self.groups, list(self.uncovered), declared, truthy]
        self.failures = []

    # ---- canonical values ------------------------------------------------------------------
    def enc_obs(self, ref, o):
        sim = self.sim
        if ref[0] == "S" and isinstance(o, dict) and "mask" in o:
            mask = [[sim.idx[c], bool(v[0])] for c, v in o["mask"].items()]
            obs = [[sim.idx[c], _ints(v)] for c, v in o.items() if c != "mask"]
            return ["s", mask, obs]
        return ["p", _ints(o)]

    def enc_info(self, ref, i):
        sim = self.sim
        if ref[0] == "S":
            return ["s", [[sim.idx[c], [int(v["t"])]] for c, v in i.items()]]
        return ["p", [int(i["t"])]]

    def py_action(self, act):
        if act[0] == "p":
            return act[1]
        return {stub_sim.agent_id(c): v for c, v in act[1]}

    def check_obs_member(self, agent_id, o, where):
        try:
            ok = o in self.w.agents[agent_id].observation_space
        except Exception as ex:  # noqa: BLE001
            ok = False
            where = f"{where} ({type(ex).__name__}: {ex})"
        if not ok:
            self.failures.append(f"observation of {agent_id} is not a member of its observation space: "
                                 f"{o!r} {where}")

    def check_step_members(self, action_dict, before):
        sim = self.sim
        for k, v in action_dict.items():
            if k in self.w.super_agent_mapping and isinstance(v, dict):
                if set(v) == set(self.w.super_agent_mapping[k]) and v not in self.w.agents[k].action_space:
                    self.failures.append(f"joint action {v!r} of {k} is not in its action space")
        if len(sim.step_log) > before:
            for a, v in sim.step_log[-1]:
                ag = sim.agents[sim.ids[a]]
                if hasattr(ag, "action_space") and v not in ag.action_space:
                    self.failures.append(f"unravelled action {v!r} for {sim.ids[a]} is not in its action space")


def _call(fn):
    """one wrapper call; the watchdog is armed once per session (see run_calls)"""
    try:
        return "ok", fn()
    except mgr.Hang:
        raise
    except AssertionError as e:
        return "rejected", str(e)
    except Exception as e:  # noqa: BLE001
        return "crash", f"{type(e).__name__}: {e}"


def run_calls(script, groups, nulls, discrete, calls, seconds=10.0):
    """play the calls on the real wrapper; returns (world, outcome, calls actually made)"""
    wd = World(script, groups, nulls, discrete)
    if wd.err is not None:
        return wd, ["e", wd.err], []
    sim, w = wd.sim, wd.w
    entries, used = [], []
    infos_of = {}
    sent = {}      # action dictionaries already handed over: the same OBJECT is passed again for the same content
    old = signal.signal(signal.SIGALRM, mgr._alarm)
    signal.setitimer(signal.ITIMER_REAL, seconds)
    try:
        for call in calls:
            kind = call[0]
            log_before, pend_before, obs_before = len(sim.step_log), list(sim.pend), len(sim.obs_log)
            try:
                if kind == "r":
                    st, val = _call(w.reset)
                elif kind == "s":
                    key = json.dumps(call[1])
                    if key not in sent:
                        sent[key] = {ref_id(r): wd.py_action(a) for r, a in call[1]}
                    ad = sent[key]          # (a wrapper that edits the caller's dictionary shows on the next use)
                    st, val = _call(lambda: w.step(ad))
                    wd.check_step_members(ad, log_before)
                elif kind == "o":
                    st, val = _call(lambda: w.get_obs(ref_id(call[1])))
                elif kind == "w":
                    # (round 6) a fault at a particular point: one read in three of a super agent's reward is first
                    # attempted while the simulation fails on the reward of the FIRST agent that super agent covers
                    # (nothing has been read by then); the caller catches that and asks again.  The attempt must be
                    # invisible: only the second call is recorded and compared with the model.
                    ref = call[1]
                    if isinstance(ref, list) and ref and ref[0] == "S" and (len(used) + int(ref[1])) % 3 == 0 \
                            and 0 <= int(ref[1]) < len(groups) and groups[int(ref[1])]:
                        sim.fault_for, sim.fault_fired = int(groups[int(ref[1])][0]), False
                        st, val = _call(lambda: w.get_reward(ref_id(ref)))
                        fired, sim.fault_for = sim.fault_fired, None
                        if fired:
                            st, val = _call(lambda: w.get_reward(ref_id(ref)))
                        # (not fired: the wrapper did not ask for that reward - already handed over -, the attempt
                        # WAS the call)
                    else:
                        st, val = _call(lambda: w.get_reward(ref_id(call[1])))
                elif kind == "d":
                    st, val = _call(lambda: w.get_done(ref_id(call[1])))
                elif kind == "a":
                    st, val = _call(w.get_all_done)
                elif kind == "i":
                    st, val = _call(lambda: w.get_info(ref_id(call[1])))
                else:
                    raise ValueError(call)
            except mgr.Hang:
                st, val = "hang", None
            if st == "ok":
                try:
                    if kind in ("r", "s"):
                        res = ["u"]
                    elif kind == "o":
                        res = ["o", wd.enc_obs(call[1], val)]
                        if hasattr(w.agents.get(ref_id(call[1])), "observation_space"):
                            wd.check_obs_member(ref_id(call[1]), val, f"call #{len(used)}")
                    elif kind == "w":
                        res = ["w", int(val)]
                    elif kind in ("d", "a"):
                        res = ["d", bool(val)]
                    else:
                        res = ["i", wd.enc_info(call[1], val)]
                except Exception as ex:  # noqa: BLE001  a value of the wrong shape is an outcome, not a harness error
                    res = ["e", "crash"]
                    wd.failures.append(f"malformed return value of call #{len(used)} {call!r}: {val!r} ({ex})")
            else:
                res = ["e", st]
            stepped = len(sim.step_log) > log_before
            sim_args = [[[a, v] for a, v in sim.step_log[-1]]] if stepped else []
            accrued = list(sim.accrued_snapshot) if (stepped or (kind == "r" and st == "ok")) else pend_before
            reads = [[a, _ints(o)] for a, o in sim.obs_log[obs_before:]]
            gh = sim.ghost()
            if sim.t not in infos_of:
                infos_of[sim.t] = [[sim.t]] * sim.n
            entries.append([res, sim_args, accrued, reads, gh[1], gh[2], gh[0], infos_of[sim.t]])
            used.append(call)
            if st == "hang":
                break
    finally:
        signal.setitimer(signal.ITIMER_REAL, 0)
        signal.signal(signal.SIGALRM, old)
    try:
        _remap_after_done(wd, sim, w, groups, len(used))
    except mgr.Hang:
        pass
    return wd, ["ok", entries], used


def _remap_after_done(wd, sim, w, groups, ncalls):
    """after the calls (nothing here reaches the model; seeded change C14-r6m2): a super agent all of whose covered
    agents are done has been asked `get_done`; the mapping is then re-assigned through the public setter so that it also
    covers a learning agent that is NOT done; "a super agent is done exactly when all its covered agents are done" -
    `get_done` must answer False at once, whatever it answered before."""
    if ncalls % 2 or not groups:
        return
    covered = {c for g in groups for c in g}
    live = [i for i in range(sim.n) if sim.learning[i] and i not in covered and not sim.get_done(stub_sim.agent_id(i))]
    if not live:
        return
    for gi, g in enumerate(groups):
        if g and all(sim.get_done(stub_sim.agent_id(c)) for c in g):
            st, val = _call(lambda: w.get_done(sid(gi)))
            if st != "ok" or not val:
                return
            mapping = {sid(i): [stub_sim.agent_id(c) for c in gg] for i, gg in enumerate(groups)}
            mapping[sid(gi)] = mapping[sid(gi)] + [stub_sim.agent_id(live[0])]
            st, _ = _call(lambda: setattr(w, "super_agent_mapping", mapping))
            if st != "ok":
                return
            st, val = _call(lambda: w.get_done(sid(gi)))
            if st == "ok" and val:
                wd.failures.append("a super agent that was done is still reported done after its mapping was re-assigned "
                                   "to cover an agent that is not done (super agent %d, agent %d)" % (gi, live[0]))
            return


# ---------------------------------------------------------------------------------------------
# manager sessions

class MgrWorld:
    def __init__(self, kind, shuffle, script, groups, nulls, tape):
        self.wd = World(script, groups, nulls, False)
        assert self.wd.err is None
        self.kind, self.shuffle = kind, shuffle
        w = self.wd.w
        self.outer_log = []
        real_step = w.step

        def logged_step(action_dict, **kwargs):
            self.outer_log.append([(self.wd.oidx[k], self._enc_act(k, v)) for k, v in action_dict.items()])
            return real_step(action_dict, **kwargs)
        w.step = logged_step
        self.mgr = mgr.make_manager(kind, w, shuffle)
        self.tape = Tape(tape)
        self.ops, self.trace = [], []
        self.last, self.dead = None, False

    def _enc_act(self, k, v):
        if isinstance(v, dict):
            return ["j", [[self.wd.sim.idx[c], int(x)] for c, x in v.items()]]
        return ["p", int(v)]

    def outer_pending(self, pend, final):
        sim, out = self.wd.sim, []
        for g in self.wd.groups:
            out.append(sum(pend[c] for c in g if not (sim.done_at[c] <= sim.t and c in final)))
        for a in self.wd.uncovered:
            out.append(pend[a])
        return out

    def ghost(self):
        sim = self.wd.sim
        done = [sim.done_at[a] <= sim.t for a in range(sim.n)]
        od = [all(done[c] for c in g) for g in self.wd.groups] + [done[a] for a in self.wd.uncovered]
        return [sim.finish_at <= sim.t, od, self.outer_pending(sim.pend, sim.rew_final), []]

    def _obs(self, k, o):
        return self.wd.enc_obs(["S", 0] if k in self.wd.w.super_agent_mapping else ["I", 0], o)

    def _info(self, k, i):
        return self.wd.enc_info(["S", 0] if k in self.wd.w.super_agent_mapping else ["I", 0], i)

    def apply(self, op):
        wd, sim, oidx = self.wd, self.wd.sim, self.wd.oidx
        log_before, pend_before, final_before = len(self.outer_log), list(sim.pend), set(sim.rew_final)
        inner_before = len(sim.step_log)
        with scripted(self.tape):
            if op[0] == "r":
                st, val = mgr.guarded(lambda: self.mgr.reset())
            else:
                ad = {wd.outer_ids[x]: wd.py_action(a) for x, a in op[1]}
                st, val = mgr.guarded(lambda: self.mgr.step(ad))
                wd.check_step_members(ad, inner_before)
        if st == "ok":
            try:
                res = self._canon(op, val)
            except Exception as ex:  # noqa: BLE001
                res, st = ["e", "crash"], "crash"
                wd.failures.append(f"malformed manager output over the wrapper: {val!r} ({ex})")
        else:
            res = ["e", st]
        stepped = len(self.outer_log) > log_before
        sim_args = ["y", [[x, a] for x, a in self.outer_log[-1]]] if stepped else ["n"]
        if stepped or (op[0] == "r" and st == "ok"):
            accrued = self.outer_pending(sim.accrued_snapshot, sim.rew_final_at_step)
        else:
            accrued = self.outer_pending(pend_before, final_before)
        self.ops.append(op)
        self.trace.append([res, sim_args, accrued, self.ghost()])
        if st == "ok":
            self.last = (op[0], val)
        elif st != "rejected":
            self.dead = True
        return st, val

    def _canon(self, op, val):
        wd, oidx = self.wd, self.wd.oidx
        if op[0] == "r":
            for k, v in val.items():
                if hasattr(wd.w.agents[k], "observation_space"):
                    wd.check_obs_member(k, v, "manager reset")
            return ["r", [[oidx[k], self._obs(k, v)] for k, v in val.items()]]
        obs, rew, done, info = val
        for k, v in obs.items():
            if hasattr(wd.w.agents[k], "observation_space"):
                wd.check_obs_member(k, v, "manager step")
        return ["s", [[oidx[k], self._obs(k, v)] for k, v in obs.items()],
                [[oidx[k], int(v)] for k, v in rew.items()],
                [[oidx[k], bool(v)] for k, v in done.items() if k != "__all__"],
                [[oidx[k], self._info(k, v)] for k, v in info.items()],
                bool(done.get("__all__"))]


def run_mgr(kind, shuffle, script, groups, nulls, tape, ops):
    s = MgrWorld(kind, shuffle, script, groups, nulls, tape)
    for op in ops:
        if s.dead:
            break
        s.apply(op)
    return s


def gen_mgr_history(rng, kind, shuffle, script, groups, nulls, tape, max_ops, episodes, p_bad=0.12, p_reset=0.05):
    s = MgrWorld(kind, shuffle, script, groups, nulls, tape)
    wd = s.wd
    reported_done = set()
    s.apply(["r"])
    ep = 1
    while len(s.ops) < max_ops and not s.dead and s.last is not None:
        lk, val = s.last
        over = lk == "s" and val[2].get("__all__")
        if s.ops[-1][0] == "r":
            reported_done = set()
        if over or rng.random() < p_reset:
            if ep >= episodes:
                break
            s.apply(["r"])
            reported_done = set()
            ep += 1
            continue
        if lk == "s":
            live = [wd.oidx[k] for k, d in val[2].items() if k != "__all__" and not d]
            reported_done |= {wd.oidx[k] for k, d in val[2].items() if k != "__all__" and d}
        else:
            live = [wd.oidx[k] for k in val]
        if kind == 1:
            base = live[-1:]
        else:
            base = [x for x in live if rng.random() < 0.8] if rng.random() < 0.5 else list(live)
        r = rng.random()
        if r < p_bad and reported_done:
            base = base + [rng.choice(sorted(reported_done))]
            if rng.random() < 0.5:
                rng.shuffle(base)
        elif r < 2 * p_bad:
            others = [x for x in range(len(wd.outer_ids)) if x not in base and x not in reported_done]
            if others:
                base = base + [rng.choice(others)]
        acts = []
        for x in dict.fromkeys(base):
            if x < len(groups):
                g = list(groups[x])
                if rng.random() < 0.3:
                    rng.shuffle(g)
                acts.append([x, ["j", [[c, rng.randrange(10)] for c in g]]])
            else:
                acts.append([x, ["p", rng.randrange(10)]])
        s.apply(["s", acts])
    return s


# ---------------------------------------------------------------------------------------------
# generation of partitions, schedules, call sequences

def set_partitions(items):
    """all partitions of a list into non-empty blocks (restricted growth strings)"""
    items = list(items)
    if not items:
        yield []
        return

    def rec(i, blocks):
        if i == len(items):
            yield [list(b) for b in blocks]
            return
        for b in blocks:
            b.append(items[i])
            yield from rec(i + 1, blocks)
            b.pop()
        blocks.append([items[i]])
        yield from rec(i + 1, blocks)
        blocks.pop()
    yield from rec(0, [])


def mappings(learners):
    """every way to cover a subset of the learning agents by disjoint non-empty super agents"""
    for k in range(len(learners) + 1):
        for cov in itertools.combinations(learners, k):
            for p in set_partitions(cov):
                yield p


def outer_refs(groups, n):
    cov = {c for g in groups for c in g}
    return [["S", i] for i in range(len(groups))] + [["I", a] for a in range(n) if a not in cov]


def getter_block(name, refs, rng=None):
    sup = [r for r in refs if r[0] == "S"]
    if name == "none":
        return []
    if name == "full":          # the order a manager reports in
        return [[k, r] for r in refs for k in ("o", "w", "d", "i")] + [["a"]]
    if name == "rev":           # reward before observation, agents in reverse order
        return [[k, r] for r in reversed(refs) for k in ("w", "o")]
    if name == "double":        # every effectful getter twice in a row
        return [[k, r] for r in sup for k in ("o", "o", "w", "w")]
    if name == "obs":
        return [["o", r] for r in refs]
    if name == "rew":
        return [["w", r] for r in refs]
    if name == "pure":
        return [["d", r] for r in refs] + [["a"]] + [["i", r] for r in refs]
    if name == "rand":
        out = []
        for _ in range(rng.randint(0, 6)):
            k = rng.choice("oowwdia")
            out.append(["a"] if k == "a" else [k, rng.choice(refs)])
        return out
    raise ValueError(name)


BLOCKS = ["none", "rev", "double", "obs", "rew", "pure", "full"]


def step_call(rng, groups, n, learning, reverse_joint=False):
    acts = []
    cov = {c for g in groups for c in g}
    for i, g in enumerate(groups):
        if rng.random() < 0.85:
            gg = list(reversed(g)) if reverse_joint else list(g)
            acts.append([["S", i], ["j", [[c, rng.randrange(10)] for c in gg]]])
    for a in range(n):
        if a not in cov and rng.random() < (0.7 if learning[a] else 0.3):
            acts.append([["I", a], ["p", rng.randrange(10)]])
    if rng.random() < 0.3:
        rng.shuffle(acts)
    return ["s", acts]


def structured_calls(rng, variant, idx, script, groups, steps, steps2):
    n, learning = script["n"], script["learning"]
    refs = outer_refs(groups, n)
    calls = []
    for ep, k in enumerate((steps, steps2)):
        calls.append(["r"])
        for slot in range(k + 1):
            if variant == 0:
                name = "full"
            elif variant == 1:
                name = BLOCKS[(idx + slot + 3 * ep) % len(BLOCKS)]
            else:
                name = "rand"
            calls += getter_block(name, refs, rng)
            if slot < k:
                calls.append(step_call(rng, groups, n, learning, reverse_joint=(variant == 1)))
    return calls


def random_calls(rng, script, groups, length, p_ood):
    n, learning = script["n"], script["learning"]
    refs = outer_refs(groups, n)
    cov = [c for g in groups for c in g]
    calls = [] if rng.random() < 0.04 else [["r"]]       # a few histories start before the first reset
    while len(calls) < length:
        r = rng.random()
        if r < 0.05:
            calls.append(["r"])
        elif r < 0.30:
            calls.append(step_call(rng, groups, n, learning, reverse_joint=rng.random() < 0.3))
        elif r < 0.30 + p_ood and cov:
            c = rng.choice(cov)
            k = rng.choice("owdis")
            if k == "s":
                st = step_call(rng, groups, n, learning)
                bad = [["I", c], ["p", rng.randrange(10)]] if rng.random() < 0.6 or not groups \
                    else [["S", rng.randrange(len(groups))], ["p", rng.randrange(10)]]
                st[1] = [x for x in st[1] if x[0] != bad[0]]
                st[1].insert(rng.randint(0, len(st[1])), bad)
                calls.append(st)
            else:
                calls.append([k, ["I", c]])
        else:
            k = rng.choice("ooowwwdai")
            calls.append(["a"] if k == "a" else [k, rng.choice(refs)] if refs else ["a"])
    return calls


def null_for(a, style, rng=None):
    """declared null observation of agent a: a point of the observation space no real read produces"""
    if style == "all" or (style == "even" and a % 2 == 0) or (style == "rand" and rng.random() < 0.6):
        return [999, 99, a, 0]
    return None


def _falsy_real_read(groups, falsy, calls, entries):
    """the way finding S1 fails: a super observation serves a real inner read for a covered agent that
    is done, has already had its report after done, and declares a (falsy) null observation"""
    rep, done = set(), None
    for call, e in zip(calls, entries):
        if call[0] == "r":
            rep = set()
        elif call[0] == "o" and call[1][0] == "S" and e[0][0] == "o" and done is not None \
                and call[1][1] < len(groups):
            g = groups[call[1][1]]
            read = {r[0] for r in e[3]}
            if any(done[c] and c in rep and c in falsy and c in read for c in g):
                return True
            rep |= {c for c in g if done[c]}
        done = e[4]
    return False


class SuperProp(core.Prop):
    pid = "C14"
    lean_targets = ["Abmarl.Props.C14"]
    rule = ("(1) call-level sessions of the real SuperAgentWrapper over the scripted stub: every partition of the "
            "learning agents (<=3 quick, <=4 thorough, with and without a non-learning entity) into super agents and "
            "uncovered agents x every done schedule (each learning agent done at 0..L or never; L=4 quick, 6 thorough, "
            "with four learners 0..3 or never inside 6-step histories; so some/all/none and simultaneous finishes) x three call patterns (manager-like full report after every "
            "step; a rotating family of sparse/duplicated/reordered getter blocks; random getters) x two episodes, "
            "with declared / undeclared null observations; then seeded random sessions (random scripts, mappings in "
            "random order, resets at random points, calls naming covered agents, ill-shaped actions, calls before the "
            "first reset, falsy null observations, non-partition mappings); (2) AllStep/TurnBased managers over the "
            "wrapper over the stub with adaptive random histories. distinct by (script, mapping, nulls, calls); "
            "non-trivial = some super observation carries a false mask bit, or a step drops the action of a done "
            "covered agent, or a call is rejected")
    assumptions = [
        "theorems quantify over every inner SimIface satisfying the frame conditions Lawful; the differential test "
        "drives the scripted stub family only",
        "the one-time warnings.warn of _get_null_obs is not modelled",
        "membership of super observations / unravelled actions in the gymnasium spaces is a run-time check on the real "
        "side (`in`), not a Lean theorem",
        "an unknown agent id or an action outside the action space is outside the modelled domain (the inner "
        "simulation's exception decides); only covered ids and plain actions for super agents are generated",
    ]

    def __init__(self):
        self._failures = []

    # -- call-level ------------------------------------------------------------------------------
    def _case(self, script, groups, nulls, discrete, calls, tags=()):
        wd, outcome, used = run_calls(script, groups, nulls, discrete, calls)
        for f in wd.failures[:2]:
            self._failures.append((f, {"mode": "calls", "script": script, "groups": groups, "nulls": nulls,
                                       "discrete": discrete, "calls": used}))
        enc_out = fenc(outcome)
        line = "(super %s %s %s %s)" % (fenc(script_to_wire(script)), fenc(wd.cfg_wire), fenc(used), enc_out)
        desc = {"mode": "calls", "script": script, "groups": groups, "nulls": nulls, "discrete": discrete,
                "calls": used if outcome[0] == "ok" else calls}
        nontrivial = False
        tags = [t for t in tags if t != "falsy-null"]
        cov = {c for g in groups for c in g}
        falsy = {a for a in cov if a < len(wd.cfg_wire[2]) and wd.cfg_wire[2][a] and not wd.cfg_wire[3][a]}
        if falsy:
            # outside the theorems' domain (CfgWF.null_truthy): the spec need not hold of the model either
            tags.append("ood:falsy-null")
            if outcome[0] == "ok" and _falsy_real_read(groups, falsy, used, outcome[1]):
                tags.append("falsy-null-read-after-handover")
        if outcome[0] == "e":
            tags.append("ctor:" + outcome[1])
            nontrivial = True
        else:
            for call, e in zip(used, outcome[1]):
                res = e[0]
                if res[0] == "e":
                    tags.append("err:" + res[1])
                    nontrivial = True
                elif res[0] == "o" and res[1][0] == "s" and any(not b for _, b in res[1][1]):
                    nontrivial = True
                elif call[0] == "s" and e[1]:
                    sent = sum(len(a[1]) if a[0] == "j" else 1 for _, a in call[1])
                    if len(e[1][0]) < sent:
                        nontrivial = True
                        tags.append("filtered")
            tags.append("eps:%d" % sum(1 for c in used if c[0] == "r"))
        return core.Case(desc, line, enc_out, key=json.dumps(desc, sort_keys=True),
                         nontrivial=nontrivial, tags=tags)

    # -- manager-level ---------------------------------------------------------------------------
    def _mgr_case(self, sess, script, groups, nulls, tape):
        wd = sess.wd
        for f in wd.failures[:2]:
            self._failures.append((f, {"mode": "mgr", "kind": sess.kind, "script": script, "groups": groups,
                                       "ops": sess.ops}))
        enc_tr = fenc(sess.trace)
        line = "(supermgr %d %d %s %s %s %s %s)" % (sess.kind, int(bool(sess.shuffle)), fenc(script_to_wire(script)),
                                                    fenc(wd.cfg_wire), fenc(list(tape)), fenc(sess.ops), enc_tr)
        desc = {"mode": "mgr", "kind": sess.kind, "shuffle": bool(sess.shuffle), "script": script, "groups": groups,
                "nulls": nulls, "tape": list(tape), "ops": sess.ops}
        fin = any(e[0][0] == "s" and (e[0][5] or any(d for _, d in e[0][3])) for e in sess.trace)
        tags = ["mgr:" + mgr.KINDS[sess.kind]] + ["err:" + e[0][1] for e in sess.trace if e[0][0] == "e"]
        return core.Case(desc, line, enc_tr, key=json.dumps(desc, sort_keys=True), nontrivial=fin,
                         tags=tags)

    def case_from_desc(self, d):
        if d.get("mode") == "mgr":
            sess = run_mgr(d["kind"], d["shuffle"], d["script"], d["groups"], d["nulls"], d["tape"], d["ops"])
            return self._mgr_case(sess, d["script"], d["groups"], d["nulls"], d["tape"])
        return self._case(d["script"], d["groups"], d["nulls"], d.get("discrete", False), d["calls"])

    def cases(self, tier, rng):
        quick = tier == "quick"
        max_l, steps = (3, 4) if quick else (4, 6)
        idx = 0
        for nl in range(1, max_l + 1):
            # done times: every step of the history or never; with four learners (thorough) 0..3 or never,
            # still within histories of `steps` steps, and without the extra non-learning entity
            times = (list(range(0, steps + 1)) if nl < 4 else [0, 1, 2, 3]) + [NEVER]
            for extra in ((0, 1) if nl < 4 else (0,)):
                n = nl + extra
                learning = [True] * nl + [False] * extra
                learners = list(range(nl))
                maps = list(mappings(learners))
                for done_at in itertools.product(times, repeat=nl):
                    for groups in maps:
                        if (not groups and idx % 7) or (extra and nl >= 3 and idx % 3):
                            idx += 1
                            continue        # the empty mapping: one schedule in seven; three learners plus a
                                            # non-learning entity: every third (partition, schedule)
                        idx += 1
                        script = {"n": n, "learning": learning, "doneAt": list(done_at) + [1] * extra,
                                  "finishAt": [2, NEVER][idx % 2], "noms": []}
                        # thorough, four learners: one pattern per (partition, schedule), rotating
                        variants = (0, 1, 2) if (quick or nl < 4) else (idx % 3,)
                        for variant in variants:
                            style = ["all", "even", "rand"][variant]
                            nulls = [null_for(a, style, rng) if learning[a] else None for a in range(n)]
                            g = [list(reversed(b)) for b in reversed(groups)] if variant == 1 else groups
                            calls = structured_calls(rng, variant, idx, script, g, steps if variant == 0 else
                                                     min(steps, 3 + idx % 2), 2)
                            yield self._case(script, g, nulls, False, calls, tags=["exh", "pat%d" % variant])
        # seeded random sessions
        for i in range(1500 if quick else 50000):
            script = mgr.gen_script(rng, max_agents=5, max_t=6)
            script.pop("undoneAt", None)   # C14 domain: done flags of covered agents are monotone within an episode
            if rng.random() < 0.25:
                # built with another partition, re-assigned through the setter (World): a new dictionary, or the old
                # one edited in place
                script["remap"] = rng.choice([True, "inplace"])
            script["noms"] = []
            n, learning = script["n"], script["learning"]
            learners = [a for a in range(n) if learning[a]]
            rng.shuffle(learners)
            k = rng.randint(0, len(learners))
            cov = learners[:k]
            groups = []
            for c in cov:
                if groups and rng.random() < 0.55:
                    rng.choice(groups).append(c)
                else:
                    groups.append([c])
            tags = ["rand"]
            if rng.random() < 0.03:
                groups.insert(rng.randint(0, len(groups)), [])     # a super agent that covers nobody
                tags.append("empty-group")
            discrete = rng.random() < 0.15
            nulls = [null_for(a, "rand", rng) if learning[a] else None for a in range(n)]
            r = rng.random()
            if discrete and r < 0.5 and cov:
                nulls[rng.choice(cov)] = [0, 0, 0, 0]      # declared but falsy once ravelled to the integer 0
                tags.append("falsy-null")
            elif r > 0.97:
                # not a partition: an agent covered twice or a non-learning entity covered
                non = [a for a in range(n) if not learning[a]]
                if non and rng.random() < 0.5:
                    groups.append([rng.choice(non)])
                elif cov:
                    groups.append([rng.choice(cov)])
                tags.append("bad-mapping")
            calls = random_calls(rng, script, groups, rng.randint(2, 40), 0.04 if rng.random() < 0.4 else 0.0)
            yield self._case(script, groups, nulls, discrete, calls, tags=tags)
        # managers over the wrapper
        for i in range(300 if quick else 6000):
            script = mgr.gen_script(rng, max_agents=5, max_t=6)
            script.pop("undoneAt", None)   # C14 domain: done flags of covered agents are monotone within an episode
            script["noms"] = []
            n, learning = script["n"], script["learning"]
            learners = [a for a in range(n) if learning[a]]
            rng.shuffle(learners)
            cov = learners[:rng.randint(0, len(learners))]
            groups = []
            for c in cov:
                if groups and rng.random() < 0.55:
                    rng.choice(groups).append(c)
                else:
                    groups.append([c])
            if rng.random() < 0.03:
                groups.insert(rng.randint(0, len(groups)), [])
            nulls = [null_for(a, "rand", rng) if learning[a] else None for a in range(n)]
            kind = rng.randrange(2)
            shuffle = kind == 0 and rng.random() < 0.3
            tape = [rng.randrange(1000) for _ in range(rng.randint(0, 40))] if shuffle else []
            sess = gen_mgr_history(rng, kind, shuffle, script, groups, nulls, tape, rng.randint(2, 14),
                                   rng.randint(1, 3))
            yield self._mgr_case(sess, script, groups, nulls, tape)

    def extra_checks(self, tier, rng, report):
        seen = set()
        for what, desc in self._failures:
            k = " ".join(what.split()[:2])        # one report per kind of failure
            if k in seen:
                continue
            seen.add(k)
            report.runtime_failure(what, desc)
        report.notes["membership_failures"] = len(self._failures)

    # -- verdict -----------------------------------------------------------------------------------
    def interpret(self, reply, case):
        if case.desc.get("mode") == "mgr":
            trace, m1, m7, i1, i7 = reply
            if i1 not in (0, 1) or i7 not in (0, 1):
                raise ValueError("driver could not parse the implementation trace")
            return core.Verdict(fenc(trace), m1 == 1 and m7 == 1, i1 == 1 and i7 == 1)
        model, ms, is_ = reply
        if is_ not in (0, 1):
            raise ValueError("driver could not parse the implementation outcome")
        ood = "ood:falsy-null" in case.tags
        return core.Verdict(fenc(model), None if ood else ms == 1, is_ == 1)

    def shrink_candidates(self, desc):
        key = "ops" if desc.get("mode") == "mgr" else "calls"
        calls = desc[key]
        for k in range(len(calls) - 1, 0, -1):
            yield dict(desc, **{key: calls[:k]})
        for i in range(1, len(calls)):
            yield dict(desc, **{key: calls[:i] + calls[i + 1:]})

    def finding_matchers(self):
        # S1: input shape = a covered agent declares a null observation whose Python truth value is False;
        # way it fails = the only deviation from the specification is the real read served after the
        # hand-over for such an agent (the model, which mirrors the truthiness test, agrees with the code)
        return {"S1": lambda c, v: ("ood:falsy-null" in c.tags and "falsy-null-read-after-handover" in c.tags
                                    and v.model == c.impl)}
