"""PacmanSim / PacmanSimSimple (abmarl/examples/sim/pacman.py) against the model of their own step / reset / getters
(lean/Abmarl/Model/Pacman.lean).  Its cases ride in the streams of harness/p_examples.py with `which == "pacman"`.

desc["p"] = {"simple": bool, "src": "array" | "file" | "agents", "grid": [row strings] | None (the packaged layout),
             "extra": [[kind, [r, c] | None, orient | None]...] (agents beyond the layout: several on one cell),
             "overlap": [[enc, [enc...]]...] | None, "view": pacman's view range, "observers": [class names],
             "scheme": None | {event: [num, den, "int" | "float"]}}
ops = ["reset", [comp names in reset order], tape] | ["step", [[agent, move, form]...], tape] | ["obs", a, tape] |
      ["rew", a] | ["done", a] | ["alldone"];  `agent` = index in sim.agents (an index >= n: an id that does not exist).
Unlike the other examples the object is dumped after a call that RAISED too (entry = [res, dyn, ledger, step_count]) and
the history goes on (Model/Pacman.lean returns the state a raising step leaves); only a raising reset ends it.
"""
import copy
import json
import os

import compat  # noqa: F401
import numpy as np

import core
import oracle
import wire
from p_attack import fenc
from p_place import guarded

KINDS = "PWFB"
ENC = {"P": 1, "W": 2, "F": 3, "B": 4}
EVENTS = ["bad_move", "entropy", "eat_food", "kill", "die"]
OVERLAPS = [
    [[1, [3, 4]], [4, [3, 4]]],          # the packaged configuration (examples/rllib_pacman.py)
    [[1, [3, 4]], [4, [3]]],             # baddies may not share a cell: refused teleports
    [[1, [3]], [4, [3, 4]]],             # pacman and baddies never meet
    [[1, [3, 4]], [4, [3, 4]], [2, [4]]],  # baddies walk through walls
]


def _examples_dir():
    import abmarl
    return os.path.join(os.path.dirname(os.path.dirname(abmarl.__file__)), "examples")


def _registry(p):
    from abmarl.examples.sim.pacman import PacmanAgent, WallAgent, FoodAgent, BaddieAgent
    view = p.get("view", 2)
    return {
        "P": lambda n: PacmanAgent(id="pacman", encoding=1, view_range=view),
        "W": lambda n: WallAgent(id=f"wall_{n}", encoding=2),
        "F": lambda n: FoodAgent(id=f"food_{n}", encoding=3),
        "B": lambda n: BaddieAgent(id=f"baddie_{n}", encoding=4),
    }


def _scheme(p):
    s = p.get("scheme")
    if s is None:
        return None
    return {k: (int(v[0] // v[1]) if v[2] == "int" else v[0] / v[1]) for k, v in s.items()}


def build(p):
    from abmarl.examples.sim.pacman import PacmanSim, PacmanSimSimple
    cls = PacmanSimSimple if p["simple"] else PacmanSim
    reg = _registry(p)
    kw = dict(states=set(p.get("states", ["PositionState", "OrientationState", "HealthState"])),
              observers=set(p.get("observers", ["AbsoluteEncodingObserver"])))
    if p.get("overlap") is not None:
        kw["overlapping"] = {int(e): set(int(x) for x in s) for e, s in p["overlap"]}
    sch = _scheme(p)
    if sch is not None:
        kw["reward_scheme"] = sch
    extra = {}
    counts = {}
    if p.get("grid") is not None:
        for row in p["grid"]:
            for ch in row:
                counts[ch] = counts.get(ch, 0) + 1
    for kind, pos, orient in p.get("extra", []):
        n = 1000 + len(extra) if kind != "B" else counts.get("B", 0)
        if kind == "B":
            counts["B"] = n + 1
        a = reg[kind](n)
        if a.id in extra:
            continue
        if pos is not None:
            a.initial_position = np.array(pos)
        if orient is not None and hasattr(a, "initial_orientation"):
            a.initial_orientation = orient
        extra[a.id] = a
    if p.get("grid") is None:
        if p["simple"]:
            return cls.build_sim_from_array(PacmanSimSimple.example_grid, reg, extra_agents=extra or None, **kw)
        return cls.build_sim_from_file(os.path.join(_examples_dir(), "pacman.txt"), reg, extra_agents=extra or None, **kw)
    arr = np.array([list(r) for r in p["grid"]])
    return cls.build_sim_from_array(arr, reg, extra_agents=extra or None, **kw)


def session(p, scribble=False):
    import p_examples
    from abmarl.examples.sim.pacman import FoodAgent, BaddieAgent
    p_examples.BUILD.setdefault("pacman", build)

    class PMSession(p_examples.ExSession):
        def __init__(self, p, scribble=False):
            super().__init__("pacman", p, 0, scribble=scribble)
            self.n = len(self.al)
            self.simple = bool(p["simple"])

        def cfg_wire(self):
            sim = self.sim
            obs = [] if self.observers is None else [[[p_examples.OBS_KIND[type(o)], bool(getattr(o, "observe_self", True))]
                                                      for o in self.observers]]
            sch = sim.reward_scheme
            sw = [([p_examples.units(sch[k])] if k in sch else []) for k in EVENTS]
            named = [([self.idx[f"baddie_{i}"]] if f"baddie_{i}" in self.idx else []) for i in range(5)]
            return ["pacman", self.simple, self.learning, [self.comp_wire(c) for c in self.comp_names], obs,
                    self.idx["pacman"], [i for i, a in enumerate(self.al) if isinstance(a, FoodAgent)],
                    [i for i, a in enumerate(self.al) if isinstance(a, BaddieAgent)], sw, named]

        def count(self):
            return int(getattr(self.sim, "step_count", 0)) if self.simple else 0

        def act_wire(self, acts):
            return [[int(a), int(m)] for a, m, _ in acts]

        def op_wire(self, op):
            if op[0] == "step":
                return ["step", self.act_wire(op[1]), list(op[2])]
            return super().op_wire(op)

        def aid(self, a):
            return self.al[a].id if a < self.n else f"ghost_{a}"

        def do(self, op):
            sim = self.sim
            kind = op[0]
            res = None
            if kind == "reset":
                sim._states = [self.states[c] for c in op[1]]
                with self._scripted(op[2]):
                    st, val = guarded(sim.reset, seconds=30.0)
                if st != "ok":
                    return [["err", st], [], [], 0]          # a raising reset: no dump, the history ends
                res = ["unit"]
            elif kind == "step":
                ad = {}
                for a, m, f in op[1]:
                    ad[self.aid(a)] = {"move": int(m) if f & 1 == 0 else np.int64(m)}
                with self._scripted(op[2]):
                    st, val = guarded(lambda: sim.step(ad), seconds=30.0)
                res = ["unit"] if st == "ok" else ["err", st]
                if self.scribble:
                    for v in ad.values():
                        v["move"] = 7
                    ad.clear()
            elif kind == "obs":
                with self._scripted(op[2]):
                    st, val = guarded(lambda: sim.get_obs(self.aid(op[1])))
                if st == "ok":
                    items = self.obs_items(val)
                    res = ["obs", items] if items is not None else ["err", "other"]
                    if self.scribble and isinstance(val, dict):
                        for v in val.values():
                            if isinstance(v, np.ndarray) and v.flags.writeable:
                                v[...] = -77
                        val.clear()
            elif kind == "rew":
                st, val = guarded(lambda: sim.get_reward(self.aid(op[1])))
                if st == "ok":
                    res = ["int", p_examples.units(val)]
            elif kind == "done":
                st, val = guarded(lambda: sim.get_done(self.aid(op[1])))
                if st == "ok":
                    res = ["bool", bool(val)]
            else:
                st, val = guarded(sim.get_all_done)
                if st == "ok":
                    res = ["bool", bool(val)]
            if res is None:
                res = ["err", st]
            dyn, led = self.snap()
            return [res, dyn, led, self.count()]
    return PMSession(p, scribble)


# ----------------------------------------------------------------------------------------------
# parameters

def _corridor_grid(rng, simple):
    """rows 10-12 with row 9 a corridor; the far column inside, on the edge of, or outside the grid"""
    far = 18 if simple else 20
    cols = rng.choice([far + 1, far + 1, far + 1, far + 2, far, far - 1, rng.randint(2, 8)])
    rows = rng.randint(10, 12)
    g = [["W" if rng.random() < 0.7 else "_" for _ in range(cols)] for _ in range(rows)]
    for c in range(cols):
        g[9][c] = "_" if rng.random() < 0.8 else "F"
    if rng.random() < 0.5:
        for c in range(cols):
            g[8][c] = rng.choice("_F_W")
    r = rng.random()
    if r < 0.12 and far < cols:
        g[9][far] = "W"                                    # the teleport target occupied by a wall
    elif r < 0.2:
        g[9][0] = "W"
    elif r < 0.3 and far < cols:
        g[9][far] = "F"
    pc = rng.choice([1, 1, 2, min(cols - 1, far - 1), min(cols - 1, max(0, far - 2)), rng.randrange(cols)])
    g[9][min(pc, cols - 1)] = "P"
    nb = rng.choice([0, 1, 2, 3, 5, 5, 6])
    for _ in range(nb):
        r_, c_ = (9, rng.randrange(cols)) if rng.random() < 0.7 else (rng.randrange(rows), rng.randrange(cols))
        if g[r_][c_] != "P":
            g[r_][c_] = "B"
    return ["".join(r) for r in g]


def _small_grid(rng):
    rows, cols = rng.randint(1, 9), rng.randint(1, 9)
    if rows * cols < 2:
        cols = 2
    g = [[rng.choice("__FFW_B") if rng.random() < 0.8 else "_" for _ in range(cols)] for _ in range(rows)]
    if rng.random() < 0.2:
        g = [[("F" if ch == "B" else ch) for ch in row] for row in g]          # no baddies
    if rng.random() < 0.2:
        g = [[("_" if ch == "F" else ch) for ch in row] for row in g]          # no food
    g[rng.randrange(rows)][rng.randrange(cols)] = "P"
    return ["".join(r) for r in g]


def gen_params(rng, packaged=False):
    simple = rng.random() < 0.5
    p = {"simple": simple, "view": rng.choice([0, 1, 2, 2, 3]),
         "observers": rng.choice([["AbsoluteEncodingObserver"], ["PositionCenteredEncodingObserver"],
                                  ["AbsoluteEncodingObserver", "AbsolutePositionObserver"]])}
    if packaged:
        p["grid"] = None
        p["overlap"] = OVERLAPS[0]
        p["view"] = 2
    else:
        p["grid"] = _corridor_grid(rng, simple) if rng.random() < 0.7 else _small_grid(rng)
        r = rng.random()
        p["overlap"] = OVERLAPS[0] if r < 0.6 else (None if r < 0.65 else rng.choice(OVERLAPS[1:]))
    extra = []
    if not packaged and rng.random() < 0.35:
        rows, cols = len(p["grid"]), len(p["grid"][0])
        ppos = next(([r, c] for r in range(rows) for c in range(cols) if p["grid"][r][c] == "P"))
        for _ in range(rng.randint(1, 3)):
            k = rng.random()
            pos = list(ppos) if k < 0.5 else ([rng.randrange(rows), rng.randrange(cols)] if k < 0.8 else None)
            extra.append([rng.choice("BBBF"), pos, rng.choice([None, 1, 2, 3, 4])])
    p["extra"] = extra
    r = rng.random()
    if r < 0.45:
        p["scheme"] = None
    else:
        ev = [e for e in EVENTS if not (simple and e == "kill")]
        vals = {"bad_move": [[0, 1, "int"], [-1, 10, "float"], [-1, 1, "int"], [-25, 100, "float"]],
                "entropy": [[-1, 100, "float"], [0, 1, "int"], [-2, 100, "float"]],
                "eat_food": [[2, 10, "float"], [1, 10, "float"], [1, 1, "int"]],
                "kill": [[1, 1, "int"], [5, 10, "float"], [2, 1, "float"]],
                "die": [[-1, 1, "int"], [-1, 1, "float"], [-3, 2, "float"]]}
        sch = {e: rng.choice(vals[e]) for e in ev}
        if r > 0.93:
            sch.pop(rng.choice(sorted(sch)))             # a scheme without one of the events: KeyError when it occurs
        p["scheme"] = sch
    return p


def tape_of(rng, n=24):
    return [rng.randrange(4096) for _ in range(n)]


ORDERS = [["health", "orient", "position"], ["position", "orient", "health"], ["orient", "position", "health"],
          ["health", "position", "orient"]]


def gen_history(rng, sess, n_ops, episodes, protocol=False):
    ops, entries = [], []
    n = sess.n
    pm = sess.idx["pacman"]
    movers = [a for a in sess.actors if a != pm]

    def push(op):
        e = sess.do(op)
        ops.append(op)
        entries.append(e)
        return not (op[0] == "reset" and e[0][0] == "err")

    def reset_op():
        order = [c for c in rng.choice(ORDERS) if c in sess.comp_names]
        return ["reset", order, tape_of(rng, 2 * n + 40)]
    ep = 1
    if not push(reset_op()):
        return ops, entries
    while len(ops) < n_ops:
        r = rng.random()
        if r < 0.04 and ep < episodes:
            ep += 1
            if not push(reset_op()):
                break
            continue
        if r < 0.62:
            if protocol or rng.random() < 0.6:
                who = [pm] + list(movers)
            else:
                who = ([pm] if rng.random() < 0.9 else []) + [a for a in movers if rng.random() < 0.7]
                k = rng.random()
                if k < 0.12 and n > len(sess.actors):
                    who.append(rng.choice([a for a in range(n) if a not in sess.actors]))    # a wall / a piece of food
                elif k < 0.16:
                    who.append(n + rng.randrange(3))                                          # an id that does not exist
            if not protocol and rng.random() < 0.5:
                rng.shuffle(who)
            acts = []
            for a in who:
                m = rng.randrange(5)
                if a == pm and rng.random() < 0.5:
                    # steer pacman along the corridor towards a teleport cell
                    m = rng.choice([1, 3, 0, 0])
                if not protocol and rng.random() < 0.02:
                    m = rng.choice([5, -1, 7])
                acts.append([a, m, rng.randrange(2)])
            push(["step", acts, []])
        elif r < 0.75:
            push(["obs", rng.choice(sess.actors) if rng.random() < 0.9 else rng.randrange(n + 1), tape_of(rng, 8)])
        elif r < 0.87:
            push(["rew", rng.choice(sess.actors) if rng.random() < 0.9 else rng.randrange(n + 1)])
        elif r < 0.94:
            push(["done", rng.randrange(n + 1)])
        else:
            push(["alldone"])
    return ops, entries


class PMCase(core.Case):
    __slots__ = ("stream",)


def make_case(desc, sess, ops, entries):
    opw = [sess.op_wire(op) for op in ops[:len(entries)]]
    head = "(gexample " + fenc(sess.cfg_wire()) + " " + wire.enc(sess.stat) + " " + fenc(sess.dyn0) + " " + fenc(opw)
    outs = fenc(entries)
    tags = ["stream:" + desc["stream"], "example:pacman", "pm-simple" if sess.simple else "pm-full"]
    if desc["p"].get("grid") is None:
        tags.append("pm-packaged-layout")
    if desc.get("scribble"):
        tags.append("ex-caller-overwrites-returned-values")
    tags.append("ex-episodes:%d" % min(sum(1 for op in ops if op[0] == "reset"), 4))
    far = 18 if sess.simple else 20
    changed = False
    prev = None
    for op, e in zip(ops, entries):
        tags.append("ex-op:" + op[0])
        if e[0][0] == "err":
            tags.append("ex-err:%s:%s" % (op[0], e[0][1]))
        if op[0] == "step" and prev is not None and e[1]:
            if e[1] != prev:
                changed = True
            for i, (q0, q1) in enumerate(zip(prev[1], e[1][1])):
                if q0[0][0] == 9 and q1[0][0] == 9 and abs(q0[0][1] - q1[0][1]) >= far - 1 and far > 2:
                    tags.append("pm-teleported")
                if q0[2] and not q1[2]:
                    tags.append("pm-pacman-died" if i == sess.idx["pacman"] else "pm-food-eaten")
            placed = set(a for cell in e[1][0] for a in cell)
            if any(q[2] and i not in placed for i, q in enumerate(e[1][1])):
                tags.append("pm-active-agent-in-no-cell")            # refused / out-of-grid teleport
            if any((not q[2]) and i in placed for i, q in enumerate(e[1][1])):
                tags.append("pm-dead-agent-left-in-cell")            # a step that raised after pacman was eaten
        if op[0] == "rew" and e[0][0] == "int" and e[0][1] != 0:
            tags.append("ex-nonzero-reward-read")
        if e[1]:
            prev = e[1]
    import p_examples
    if any(p_examples.BAD_REWARD in [x for _, x in (e[2][0] if e[2] else [])] for e in entries):
        tags.append("ex-reward-not-a-hundredth")
    c = PMCase(desc, head + " " + outs + ")", outs, key=core._hash(head), nontrivial=changed, tags=sorted(set(tags)))
    c.stream = desc["stream"]
    return c


def run_ops(sess, ops):
    entries = []
    for op in ops:
        e = sess.do(op)
        entries.append(e)
        if op[0] == "reset" and e[0][0] == "err":
            break
    return entries


def case_from_desc(d):
    sess = session(copy.deepcopy(d["p"]), scribble=bool(d.get("scribble")))
    other = session(copy.deepcopy(d["p"])) if d.get("twin") else None
    entries = []
    for k, op in enumerate(d["ops"]):
        if other is not None and k % 3 == 1:
            other.do(d["ops"][0] if k < 3 else op)
        e = sess.do(op)
        entries.append(e)
        if op[0] == "reset" and e[0][0] == "err":
            break
    return make_case(d, sess, d["ops"][:len(entries)], entries)


def gen_cases(rng, stream, count, quick=True):
    made = 0
    while made < count:
        packaged = made < 2
        p = gen_params(rng, packaged=packaged)
        if packaged:
            p["simple"] = made == 0
            if p["scheme"] is not None and p["simple"]:
                p["scheme"].pop("kill", None)
        scribble = rng.random() < 0.15
        try:
            sess = session(copy.deepcopy(p), scribble=scribble)
        except (AssertionError, ValueError, KeyError, TypeError, IndexError):
            continue
        ops, entries = gen_history(rng, sess, (rng.randint(8, 40) if not packaged else 45), rng.randint(1, 3),
                                   protocol=packaged or rng.random() < 0.4)
        if len(entries) == 1 and entries[0][0][0] == "err" and rng.random() < 0.8:
            continue
        d = {"stream": stream, "which": "pacman", "p": p, "ops": ops[:len(entries)]}
        if scribble:
            d["scribble"] = True
        if rng.random() < 0.2 and not packaged:
            d["twin"] = True
            yield case_from_desc(d)
        else:
            yield make_case(d, sess, ops, entries)
        made += 1


def interpret(reply, case):
    model, ms, is_, pre = reply
    if is_ not in (0, 1):
        raise ValueError("driver could not parse the implementation's trace")
    detail = {"pre": pre, "spec_on_impl": is_, "spec_on_model": ms}
    case.tags.append("ex-pre:%d" % pre)
    ms_ = fenc(model)
    impl = wire.dec(case.impl)
    ops = case.desc.get("ops") or case.desc.get("fops") or []
    raised = [[ops[k][0], e[0][1]] for k, e in enumerate(impl) if e[0][0] == "err" and k < len(ops)]
    if raised:
        detail["raised"] = raised[:4]
    if ms_ != case.impl:
        k = next((i for i, (x, y) in enumerate(zip(model, impl)) if x != y), min(len(model), len(impl)))
        detail["first_differing_call"] = k
        detail["op_at_that_call"] = ops[k] if k < len(ops) else None
        if k < len(model) and k < len(impl):
            for name, j in (("result", 0), ("world", 1), ("ledger", 2), ("step_count", 3)):
                if model[k][j] != impl[k][j]:
                    detail["differs_in"] = name
                    detail["model_" + name] = fenc(model[k][j])[:600]
                    detail["impl_" + name] = fenc(impl[k][j])[:600]
                    break
    return core.Verdict(ms_, (ms == 1) if pre == 1 else None, is_ == 1, detail)


def shrink_candidates(d):
    import p_examples
    yield from p_examples._shrink_candidates(d)


# ----------------------------------------------------------------------------------------------
# managers over the real object

class _CopyLog(list):
    def append(self, items):
        super().append([(k, dict(v)) for k, v in items])


def mgr_session(d):
    import p_examples

    class PMMgrSession(p_examples.MgrSession):
        def __init__(self, d):
            from abmarl.managers import AllStepManager, TurnBasedManager
            self.d = d
            self.sess = session(copy.deepcopy(d["p"]))
            sim = self.sess.sim
            sim._states = [self.sess.states[c] for c in self.sess.comp_names]
            self.log = p_examples._Logged(self.sess)
            # the DriftMoveActor overwrites `action_dict['move']` of the dicts it is handed (observation O4): the log keeps
            # what `step` was CALLED with
            self.log.step_log = _CopyLog()
            self.mgr = AllStepManager(sim, randomize_action_input=bool(d["shuffle"])) if d["kind"] == 0 \
                else TurnBasedManager(sim)
            self.stape = oracle.Tape(d["stape"])
            self.mtape = oracle.Tape(d["mtape"])
            self.trace, self.ops = [], []
            self.last = None
            self.dead = False
            # ExSession.py_action is called as (a, m, k, f): adapt the three-field items of this class
            s = self.sess
            s.py_action = lambda a, m, k, f: {"move": int(m) if f & 1 == 0 else np.int64(m)}

        def sim_args(self, logged):
            s = self.sess
            return [[s.idx[k], int(v["move"]) if "move" in v else 0] for k, v in logged]
    return PMMgrSession(d)


def _mgr_ops(ops):
    return [op if op[0] == "r" else ["s", [[a, m, 0, f] for a, m, f in op[1]]] for op in ops]


def mgr_case(d, ms):
    import p_examples
    s = ms.sess
    # MgrSession.apply consumed four-field items; the wire wants (agent move)
    real_ops = ms.ops
    ms.ops = [op if op[0] == "r" else ["s", [[a, m, f] for a, m, _, f in op[1]]] for op in real_ops]
    try:
        c = p_examples.mgr_case(d, ms)
    finally:
        pass
    return c


def mgr_case_from_desc(d):
    ms = mgr_session(d)
    for op in _mgr_ops(d["ops"]):
        if ms.dead:
            break
        ms.apply(op)
    return mgr_case(d, ms)


def gen_mgr_cases(rng, count):
    made = 0
    while made < count:
        p = gen_params(rng, packaged=(made == 0))
        if made == 0 and p["scheme"] is not None and p["simple"]:
            p["scheme"].pop("kill", None)
        kind = 0 if rng.random() < 0.8 else 1
        shuffle = kind == 0 and rng.random() < 0.5
        d = {"stream": "example-mgr", "which": "pacman", "p": p, "order": 0, "kind": kind, "shuffle": shuffle,
             "mtape": [rng.randrange(1000) for _ in range(400)] if shuffle else [],
             "stape": [rng.randrange(4096) for _ in range(1500)]}
        try:
            ms = mgr_session(d)
        except (AssertionError, ValueError, KeyError, TypeError, IndexError):
            continue
        s = ms.sess
        episodes, ep = rng.randint(1, 3), 0
        max_ops = rng.randint(3, 25) if made else 40
        reported = set()
        st, _ = ms.apply(["r"])
        ep += 1
        while st == "ok" and len(ms.ops) < max_ops and not ms.dead and ms.last is not None:
            lk, val = ms.last
            over = lk == "s" and val[2].get("__all__")
            if over or rng.random() < 0.05:
                if ep >= episodes:
                    break
                ms.apply(["r"])
                reported = set()
                ep += 1
                continue
            if lk == "r":
                live = [s.idx[k] for k in val]
            else:
                for k, dn in val[2].items():
                    if k != "__all__" and dn:
                        reported.add(s.idx[k])
                live = [s.idx[k] for k, dn in val[2].items() if k != "__all__" and not dn]
            if kind == 1:
                who = live[-1:]
            else:
                who = [a for a in live if rng.random() < 0.85] if rng.random() < 0.15 else list(live)
            if rng.random() < 0.08 and reported:
                who = who + [rng.choice(sorted(reported))]
            rng.shuffle(who)
            acts = [[a, rng.choice([1, 3, 0, rng.randrange(5)]), 0, rng.randrange(2)] for a in who]
            ms.apply(["s", acts])
        if not ms.trace or (ms.trace[0][0][0] == "e" and rng.random() < 0.8):
            continue
        made += 1
        yield mgr_case(d, ms)


# ----------------------------------------------------------------------------------------------
# C08: used versus fresh twin

def twin_case(d):
    """the used object plays `pops` then `fops` (a reset first); a newly built one plays `fops` alone under the same
    tapes; the model runs `fops` from the fresh object's dump: all three traces must be equal"""
    used = session(copy.deepcopy(d["p"]))
    pent = run_ops(used, d["pops"])
    uent = run_ops(used, d["fops"])
    fresh = session(copy.deepcopy(d["p"]))
    fent = run_ops(fresh, d["fops"])
    fops = d["fops"][:len(uent)]
    c = make_case(dict(d, ops=fops, stream="example-twin"), fresh, fops, uent)
    c.desc = d
    same = fenc(uent) == fenc(fent)
    c.tags = [t for t in c.tags if not t.startswith("stream:")] + [
        "layer:example", "twin:" + ("same" if same else "DIFFERENT"),
        "prefix-len:" + ("0" if not d["pops"] else "1-5" if len(d["pops"]) <= 5 else "6+")]
    if any(e[0][0] == "err" for e in pent):
        c.tags.append("prefix-had-a-raising-call")
    c.nontrivial = len(d["pops"]) > 1
    c.key = core._hash(json.dumps(d, sort_keys=True))
    return c


def gen_twin_cases(rng, count):
    made = 0
    while made < count:
        p = gen_params(rng)
        try:
            used = session(copy.deepcopy(p))
        except (AssertionError, ValueError, KeyError, TypeError, IndexError):
            continue
        pops, pent = gen_history(rng, used, rng.randint(1, 30), rng.randint(1, 3))
        if pent and pent[-1][0][0] == "err" and pops[-1][0] == "reset":
            continue
        fops, fent = gen_history(rng, used, rng.randint(2, 12), 1)
        made += 1
        yield twin_case({"layer": "example", "which": "pacman", "p": p, "order": 0, "pops": pops[:len(pent)],
                         "fops": fops[:len(fent)]})


RULE = (" PacmanSim / PacmanSimSimple (`which: pacman`, model lean/Abmarl/Model/Pacman.lean) ride in the same streams: "
        "the packaged layouts (examples/pacman.txt 21x21 for PacmanSim, PacmanSimSimple.example_grid 21x19; first two "
        "cases of every stream) and generated ones — corridor grids of 10-12 rows whose far teleport column lies "
        "inside, on the edge of or outside the grid (fewer than 19 / 21 columns), teleport cells occupied by a wall or "
        "food, 1-9 x 1-9 grids with fewer than 10 rows, no baddies, no food, extra baddies / food on pacman's cell or "
        "at random positions, four overlap tables (incl. baddies that may not share a cell: refused teleports) or "
        "none, reward schemes with int / float values and with a missing event, three observer sets, state "
        "components reset in four orders; action dicts as the managers hand them on (40%) or ANY: subsets, shuffled, "
        "without pacman, with walls / food / ids that do not exist, values outside Discrete(5), int / numpy "
        "representations, the caller overwriting its dicts and the returned observations; several episodes on one "
        "object, steps after pacman died. The object is dumped after EVERY call, raised or not (world, reward dict, "
        "step_count), and compared with the model, which returns the exact state a raising step leaves; judged by "
        "PM.specPM (WInv after reset, WInvFloat after every step, WInv after a step from a state satisfying PM.stepPre, "
        "which must not raise; observations in the declared space; read-and-reset rewards; get_done = get_all_done).")
