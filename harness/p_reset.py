"""C08: used-versus-fresh twins on the real code (managers, OpenSpiel adapter, GymABS; the grid-world
state components and the wrappers are added by their own modules once merged)."""
import json

import compat  # noqa: F401
import gymnasium
from gymnasium.spaces import Discrete

import core
import gridw
import mgr
import wire
from oracle import scripted, Tape
from stub_sim import StubSim, script_to_wire
import p_adapters

from abmarl.external import OpenSpielWrapper, gym_to_abmarl


# --- managers -----------------------------------------------------------------------------------
class FlatSession(mgr.Session):
    def __init__(self, kind, shuffle, script, tape):
        self.kind, self.shuffle, self.script = kind, shuffle, script
        self.sim = StubSim(script, flat_ep=True)
        self.mgr = mgr.make_manager(kind, self.sim, shuffle)
        self.tape = Tape(tape)
        self.ops, self.trace, self.last, self.dead = [], [], None, False
        self._init_shadow(kind, script)


def play_random(rng, sess, max_ops, reported_done=None):
    """adaptive random history on a live session (mirrors mgr.gen_history); returns concrete ops"""
    n = sess.script["n"]
    done = set()
    start = len(sess.ops)
    while len(sess.ops) - start < max_ops and not sess.dead:
        if sess.last is None:
            sess.apply(["r"])
            done = set()
            continue
        lk, val = sess.last
        over = lk == "s" and val[2].get("__all__")
        if over or rng.random() < 0.08:
            sess.apply(["r"])
            done = set()
            continue
        if lk == "s":
            for k, d in val[2].items():
                if k != "__all__" and d:
                    done.add(sess.sim.idx[k])
        live, _ = mgr.live_and_done(sess)
        if sess.kind == 1:
            base = live[-1:]
        else:
            base = [a for a in live if rng.random() < 0.85]
        acts = [[a, rng.randrange(10)] for a in base]
        sess.apply(["s", acts])
    return sess.ops[start:]


class C08Prop(core.Prop):
    pid = "C08"
    lean_targets = ["Abmarl.Props.C08", "Abmarl.Props.C03", "Abmarl.Props.C13", "Abmarl.Props.C14", "Abmarl.Props.C20"]
    rule = ("used-versus-fresh twins on the real code: a manager / OpenSpiel adapter / GymABS is dirtied by a generated "
            "prefix history (1-3 episodes, each cut mid-turn, after finishes, after all-done), then reset and a follow-up "
            "episode are played under a fresh seed; a newly built copy plays the same follow-up under the same seed; the "
            "two traces must be identical and identical to the model's; grid-world state components: a real world is "
            "dirtied by a history of moves, attacks, deaths and resets, then a full reset (components in a random order) "
            "and a follow-up are played; a newly built world plays the follow-up under the same tapes; the model runs it "
            "from the fresh world's dump; wrappers and repeated placement resets: the multi-episode cases of the C13, "
            "C14 and C20 modules, judged by their trace specifications; distinct by (layer, configuration, prefix, "
            "follow-up); non-trivial = the prefix contains at least one step and is cut before or after a finish; "
            "layer example: real TeamBattleSim / PredatorPreyResourcesSim / MazeNavigationSim / MultiMazeNavigationSim / "
            "TrafficCorridorSimulation objects dirtied by a history of direct calls (1-3 episodes), then reset under a "
            "fresh seed and a follow-up; a newly built object plays the follow-up under the same tapes; both traces "
            "must be identical and equal to the model's (Model/Examples.lean) run from the FRESH object's dump")
    assumptions = ["the wrapped simulation's own reset forgets (stub with constant episode number; scripted gym env)",
                   "aliasing and object identity are outside the pure model; compared through observable traces only"]

    # -- managers
    def _mgr_case(self, kind, shuffle, script, ptape, pops, seed, fops=None, rng=None):
        used = FlatSession(kind, shuffle, script, ptape)
        for op in pops:
            if used.dead:
                break
            used.apply(op)
        used.tape = Tape(seed)
        n0 = len(used.trace)
        if fops is None:
            used.ops_before = len(used.ops)
            used.apply(["r"])
            play_random(rng, used, rng.randint(1, 8))
            fops = used.ops[len(pops):]
        else:
            for op in fops:
                if used.dead:
                    break
                used.apply(op)
        fresh = FlatSession(kind, shuffle, script, seed)
        for op in fops:
            if fresh.dead:
                break
            fresh.apply(op)
        iu, ifr = used.trace[n0:], fresh.trace
        line = wire.enc(["twin", kind, bool(shuffle), script_to_wire(script), list(ptape), pops, list(seed), fops, iu, ifr])
        desc = {"layer": "manager", "kind": kind, "shuffle": bool(shuffle), "script": script, "ptape": list(ptape),
                "pops": pops, "seed": list(seed), "fops": fops}
        nontriv = any(op[0] == "s" for op in pops)
        return core.Case(desc, line, wire.enc(iu), key=json.dumps(desc, sort_keys=True), nontrivial=nontriv,
                         tags=["manager:" + mgr.KINDS[kind], "prefix-len:%d" % min(len(pops), 9)])

    # -- OpenSpiel
    def _os_case(self, kind, script, pcalls, fcalls):
        def run(calls_a, calls_b):
            sim, manager, trace = p_adapters._mk(kind, script, True)
            sim.flat_ep = True
            env = OpenSpielWrapper(manager)
            out = []
            for calls, keep in ((calls_a, False), (calls_b, True)):
                for c in calls:
                    before = len(trace)
                    if c[0] == "r":
                        st, val = mgr.guarded(lambda: env.reset())
                    else:
                        st, val = mgr.guarded(lambda: env.step(list(c[1])))
                    ents = [[op, p_adapters._decode_entry(e)] for op, e in trace[before:]]
                    res = p_adapters.canon_ts(sim, val) if st == "ok" else ["err", st]
                    if keep:
                        out.append([res, ents])
            return out
        iu = run(pcalls, fcalls)
        ifr = run([], fcalls)
        w = lambda cs: [["r"] if c[0] == "r" else ["s", list(c[1])] for c in cs]  # noqa: E731
        line = wire.enc(["ostwin", kind, script_to_wire(script), w(pcalls), w(fcalls), iu, ifr])
        desc = {"layer": "openspiel", "kind": kind, "script": script, "pcalls": pcalls, "fcalls": fcalls}
        return core.Case(desc, line, wire.enc(iu), key=json.dumps(desc, sort_keys=True),
                         nontrivial=any(c[0] == "s" for c in pcalls), tags=["openspiel:" + mgr.KINDS[kind]])

    # -- GymABS
    def _gymabs_case(self, done_at, calls):
        class Env(gymnasium.Env):
            observation_space = Discrete(1000)
            action_space = Discrete(10)

            def reset(self, **kw):
                self.c = 0
                return 0, 0

            def step(self, a):
                self.c += 1
                return self.c, self.c * int(a), self.c >= done_at, False, self.c

        sim = gym_to_abmarl(Env())
        snaps = []
        for c in calls:
            if c[0] == "r":
                sim.reset()
            else:
                sim.step({"agent": c[1]})
            o, r, d, i = sim.get_obs("agent"), sim.get_reward("agent"), sim.get_done("agent"), sim.get_info("agent")
            snaps.append([[] if o is None else [int(o)], [] if r is None else [int(r)],
                          [] if d is None else [bool(d)], [] if i is None else [int(i)]])
        wc = [["r"] if c[0] == "r" else ["s", c[1]] for c in calls]
        line = wire.enc(["gymabs", done_at, wc, snaps])
        desc = {"layer": "gymabs", "doneAt": done_at, "calls": calls}
        return core.Case(desc, line, wire.enc(snaps), key=json.dumps(desc, sort_keys=True),
                         nontrivial=sum(1 for c in calls if c[0] == "r") > 1, tags=["gymabs"])

    # -- layers whose models live in other property modules: their multi-episode cases are forwarded -------
    def _subs(self):
        if not hasattr(self, "_sub_props"):
            import p_place
            import p_comm
            import p_super
            self._sub_props = {"C13": p_place.PlaceProp(), "C20": p_comm.CommProp(), "C14": p_super.SuperProp()}
        return self._sub_props

    @staticmethod
    def _wrap(name, c):
        return core.Case({"layer": "sub", "sub": name, "desc": c.desc}, c.line, c.impl,
                         key=json.dumps(["sub", name, c.key if c.key is not None else c.line], default=str),
                         nontrivial=c.nontrivial, tags=["layer:" + name] + list(c.tags))

    def _sub_cases(self, tier, rng):
        """(1) placement states: every reset after the first one on the same state object (any options, dirty
        prior world); (2) communication wrapper: histories with several episodes (incl. a reset between the two
        halves of a handshake); (3) super-agent wrapper: several episodes on one wrapper object.  Cases in the
        out-of-domain streams of those modules (open findings) are left to their own checks."""
        quick = tier == "quick"
        subs = self._subs()
        n = 0
        for c in subs["C13"].cases(tier, rng):
            if any(t.startswith("reset#") and t != "reset#0" for t in c.tags) and \
                    not any(t.startswith("ood:") for t in c.tags) and rng.random() < 0.3:
                # a sample across the whole stream (exhaustive small scopes and random worlds alike)
                yield self._wrap("C13", c)
                n += 1
                if n >= (4000 if quick else 40000):
                    break
        n = 0
        for c in subs["C20"].cases(tier, rng):
            ops = c.desc.get("ops") if isinstance(c.desc, dict) else None
            if ops and sum(1 for o in ops if o and o[0] == "r") >= 2 and not any(t.startswith("ood") for t in c.tags):
                yield self._wrap("C20", c)
                n += 1
                if n >= (800 if quick else 20000):
                    break
        n = 0
        for c in subs["C14"].cases(tier, rng):
            if any(t.startswith("eps:") and t not in ("eps:0", "eps:1") for t in c.tags) and \
                    not any(t.startswith("ood") for t in c.tags):
                yield self._wrap("C14", c)
                n += 1
                if n >= (400 if quick else 8000):
                    break

    # -- grid-world state components: used world versus fresh world, through the history model of C03 -------
    def _grid_case(self, cfg, pops, fops):
        """the used world plays the prefix `pops` (episodes cut anywhere: moves, attacks, deaths, resets), then the
        follow-up `fops` (a full reset first); a newly built world plays the follow-up alone under the same tapes.
        The model runs the follow-up from the FRESH world's dump; its trace, the used world's and the fresh
        world's must all be equal."""
        import p_c03
        used = p_c03.HistSession(cfg)
        pent, _ = p_c03.run_ops(used, pops)
        uent, _ = p_c03.run_ops(used, fops)
        fresh = p_c03.HistSession(cfg)
        fent, _ = p_c03.run_ops(fresh, fops)
        fops_run = fops[:len(uent)]
        line = "(ghist " + fresh.stat_s + " " + p_c03.fenc(fresh.dyn0) + " " + \
               p_c03.fenc([fresh.op_wire(op) for op in fops_run]) + " " + p_c03.fenc(uent) + ")"
        desc = {"layer": "grid", "cfg": cfg, "pops": pops, "fops": fops}
        same = p_c03.fenc(uent) == p_c03.fenc(fent)
        tags = ["layer:grid", "place:" + cfg["place"]["kind"], "prefix-resets:%d" % min(3, sum(1 for o in pops if o[0] == "reset")),
                "prefix-len:" + ("0" if not pops else "1-5" if len(pops) <= 5 else "6+"),
                "twin:" + ("same" if same else "DIFFERENT")]
        if pent and pent[-1][0] != "ok":
            tags.append("prefix-ended-in-error")
        if any(not s[2] for e in pent if e[0] == "ok" for s in e[1][1]):
            tags.append("prefix-with-deaths")
        c = core.Case(desc, line, p_c03.fenc(uent), key=json.dumps(["grid", line], default=str),
                      nontrivial=len(pops) > 1, tags=tags)
        return c

    def _grid_cases(self, tier, rng):
        import p_c03
        quick = tier == "quick"
        # what random histories rarely do on a BIG grid (9x9 .. 12x12): X walks to a cell, Y joins it there and leaves
        # again, then the reset - X has to be gone from the cell it walked to (a grid that keeps track of "cells in
        # use" may lose track of a cell that is still occupied when one of two occupants leaves)
        for k in range(3 if quick else 12):
            side = rng.randint(9, 12)
            r0 = rng.randint(1, side - 2)
            c0 = rng.randint(1, side - 4)
            mover = dict(gridw.AG_DEFAULT, enc=1, moving=True, move_range=1)
            world = {"rows": side, "cols": side, "overlap": [[1, [1]]],
                     "agents": [dict(mover, init_pos=[r0, c0]), dict(mover, init_pos=[r0, c0 + 2])] +
                               [dict(gridw.AG_DEFAULT, enc=1) for _ in range(k % 3)]}
            cfg = {"world": world, "attack": None,
                   "place": {"kind": "position", "opts": {"no": False, "rand": False, "cluster": False, "scatter": False,
                                                          "target": 0, "by_id": False, "barrier": [], "free": []}}}
            pops = [p_c03.gen_reset(rng, world), ["move", "move", 0, [0, 1]], ["move", "move", 1, [0, -1]],
                    ["move", "move", 1, [0, 1]]]
            fops = [p_c03.gen_reset(rng, world), ["move", "move", 0, [0, 1]], ["move", "move", 1, [1, 0]]]
            yield self._grid_case(cfg, pops, fops)
        made = 0
        while made < (250 if quick else 8000):
            cfg = p_c03.gen_cfg(rng)
            try:
                used = p_c03.HistSession(cfg)
            except (ValueError, AssertionError, KeyError, TypeError):
                continue
            pops, pent, _ = p_c03.gen_history(rng, used, rng.randint(0, 18))
            if rng.random() < 0.9 and pent and pent[-1][0] != "ok":
                continue                                   # mostly prefixes that ran (a failed reset leaves a partial grid)
            fops, _, _ = p_c03.gen_history(rng, used, rng.randint(0, 8))
            made += 1
            yield self._grid_case(cfg, pops, fops)

    def case_from_desc(self, d):
        if d["layer"] == "example":
            import p_examples
            return p_examples.twin_case(d)
        if d["layer"] == "grid":
            return self._grid_case(d["cfg"], d["pops"], d["fops"])
        if d["layer"] == "sub":
            return self._wrap(d["sub"], self._subs()[d["sub"]].case_from_desc(d["desc"]))
        if d["layer"] == "manager":
            return self._mgr_case(d["kind"], d["shuffle"], d["script"], d["ptape"], d["pops"], d["seed"], d["fops"])
        if d["layer"] == "openspiel":
            return self._os_case(d["kind"], d["script"], d["pcalls"], d["fcalls"])
        if d["layer"] == "gymabs":
            return self._gymabs_case(d["doneAt"], d["calls"])
        raise ValueError(d["layer"])

    def cases(self, tier, rng):
        quick = tier == "quick"
        for _ in range(600 if quick else 20000):
            r = rng.random()
            if r < 0.6:
                kind = rng.randrange(3)
                shuffle = kind == 0 and rng.random() < 0.4
                script = mgr.gen_script(rng)
                ptape = [rng.randrange(1000) for _ in range(30)] if shuffle else []
                seed = [rng.randrange(1000) for _ in range(30)] if shuffle else []
                pre = FlatSession(kind, shuffle, script, ptape)
                pops = play_random(rng, pre, rng.randint(0, 14))
                yield self._mgr_case(kind, shuffle, script, ptape, pops, seed, rng=rng)
            elif r < 0.85:
                kind = rng.randrange(2)
                script = mgr.gen_script(rng)
                script["noms"] = []
                pcalls = p_adapters.AdapterProp._os_calls(rng, kind, script, rng.randint(0, 20), p_reset=0.05)
                fcalls = [["r"]] + p_adapters.AdapterProp._os_calls(rng, kind, script, rng.randint(1, 12), p_reset=0.0)
                yield self._os_case(kind, script, pcalls, fcalls)
            else:
                calls = [["r"]]
                for _ in range(rng.randint(1, 14)):
                    calls.append(["r"] if rng.random() < 0.25 else ["s", rng.randrange(10)])
                yield self._gymabs_case(rng.randint(1, 5), calls)
        yield from self._grid_cases(tier, rng)
        # the packaged example simulations that are modelled: used object versus newly built twin (examples_reset_forgets)
        import p_examples
        yield from p_examples.gen_twin_cases(rng, 150 if quick else 3000)
        yield from self._sub_cases(tier, rng)

    def interpret(self, reply, case):
        if case.desc.get("layer") == "example":
            import p_examples
            return p_examples.twin_interpret(reply, case)
        if case.desc.get("layer") == "grid":
            import p_c03
            model, ms, is_, pre, diag = reply
            if is_ not in (0, 1):
                raise ValueError("driver could not parse the implementation's trace")
            twin_same = "twin:same" in case.tags
            detail = {"pre": pre, "used_equals_fresh_twin": twin_same}
            ms_ = p_c03.fenc(model)
            if ms_ != case.impl:
                impl = wire.dec(case.impl)
                k = next((i for i, (x, y) in enumerate(zip(model, impl)) if x != y), min(len(model), len(impl)))
                detail["first_differing_step_of_the_follow_up"] = k
                detail["model_from_fresh_world"] = p_c03.fenc(model[k]) if k < len(model) else None
                detail["used_world"] = p_c03.fenc(impl[k]) if k < len(impl) else None
            # C08 on the implementation: the used world's follow-up equals the fresh twin's (and the invariant holds)
            return core.Verdict(ms_, (ms == 1) if pre == 1 else None, twin_same and is_ == 1, detail)
        if case.desc.get("layer") == "sub":
            inner = core.Case(case.desc["desc"], case.line, case.impl, tags=case.tags)
            v = self._subs()[case.desc["sub"]].interpret(reply, inner)
            case.tags[:] = inner.tags
            return v
        model, ms, is_ = reply
        return core.Verdict(wire.enc(model), ms == 1, is_ == 1)

    def shrink_candidates(self, desc):
        if desc["layer"] == "example":
            import p_examples
            yield from p_examples.twin_shrink_candidates(desc)
            return
        if desc["layer"] == "grid":
            for k in range(len(desc["pops"]) - 1, 0, -1):
                yield dict(desc, pops=desc["pops"][:k] + desc["pops"][k + 1:])
            for k in range(len(desc["fops"]) - 1, 0, -1):
                yield dict(desc, fops=desc["fops"][:k])
            return
        if desc["layer"] == "sub":
            for d in self._subs()[desc["sub"]].shrink_candidates(desc["desc"]):
                yield {"layer": "sub", "sub": desc["sub"], "desc": d}
            return
        if desc["layer"] == "manager":
            for k in range(len(desc["pops"])):
                yield dict(desc, pops=desc["pops"][:k] + desc["pops"][k + 1:])
            for k in range(len(desc["fops"]) - 1, 0, -1):
                yield dict(desc, fops=desc["fops"][:k])
