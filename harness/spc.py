"""Real ravel / flatten functions on generated nested gymnasium spaces (C04, C05).

Descriptions (json-able, what replay files and the corpus hold)
  space  ["d", n, start] | ["mb", n] | ["md", [r..]] | ["box", shape, lo, hi, wide]
         | ["fbox", shape, [[num, den]..], [[num, den]..], bits] | ["ubox", shape, which]
         | ["dict", [[key, space]..]]   (creation order, *unsorted*; gymnasium sorts)
         | ["tup", [space..]]
  point  ["s", x] | ["a", [x..]] | ["m", [[key, point]..]] (insertion order of the Python dict)
         | ["t", [point..]]          x = int (integer-typed) or [num, den] (float-typed)

On the wire (lean/Abmarl/Model/SpacesDriver.lean) a Dict is its sorted key *indices* (rank of
the key among all the keys of the whole space) and its children in that order; arrays carry
their shape.
"""
import itertools
import warnings
from fractions import Fraction

import compat  # noqa: F401
import numpy as np
import gymnasium
from gymnasium.spaces import Discrete, MultiDiscrete, MultiBinary, Dict, Tuple
from gymnasium.spaces import Box as GymBox

from abmarl.sim.wrappers import ravel_discrete_wrapper as RW
from abmarl.sim.wrappers import flatten_wrapper as FW

gymnasium.logger.min_level = gymnasium.logger.ERROR
warnings.filterwarnings("ignore")

# keys whose Python sort order differs from insertion order, from "natural" order (a10 < a2) and
# from case-insensitive order (B < a)
VOCAB = sorted(["a", "B", "b", "a10", "a2", "key", "Z", "z", "_x", "obs", "pos", "0"])


def key_index(sd):
    """key -> index for every Dict key occurring anywhere in the space: its rank in the sorted set of those
    keys (computed with Python's own sort, not read from gymnasium)"""
    keys = set()

    def walk(x):
        if x[0] == "dict":
            for key, sub in x[1]:
                keys.add(key)
                walk(sub)
        elif x[0] == "tup":
            for sub in x[1]:
                walk(sub)
    walk(sd)
    return {k: i for i, k in enumerate(sorted(keys))}

BAD = "bad"          # an outcome that has no canonical form (wrong type / shape / NaN ...)
ERR = ["e", "err"]   # the call raised


def prod(xs):
    r = 1
    for x in xs:
        r *= x
    return r


def frac(x):
    return Fraction(x[0], x[1]) if isinstance(x, (list, tuple)) else Fraction(x)


def fwire(q):
    q = Fraction(q)
    return [q.numerator, q.denominator]


# ---- descriptions -> gymnasium / python objects ----------------------------------------------

def sorted_items(sd):
    """children of a dict description in gymnasium's (sorted) key order"""
    return sorted(sd[1], key=lambda kv: kv[0])


def to_gym(sd):
    k = sd[0]
    if k == "d":
        return Discrete(sd[1]) if sd[2] == 0 else Discrete(sd[1], start=sd[2])
    if k == "mb":
        return MultiBinary(sd[1])
    if k == "md":
        return MultiDiscrete(np.array(sd[1], dtype=np.int64))
    if k == "box":
        shape, lo, hi, wide = sd[1], sd[2], sd[3], sd[4]
        dt = np.int64 if wide else np.int32
        lo_a, hi_a = np.array(lo, dtype=dt).reshape(shape), np.array(hi, dtype=dt).reshape(shape)
        if len(shape) >= 2 and (sum(lo) + sum(hi) + len(lo)) % 3 == 0:
            # the bound arrays in Fortran order (what `Box(low.T, high.T)` of transposed tables gives): gymnasium keeps
            # the layout, the Box equals the C-ordered one (round 6: a size list read in memory order)
            lo_a, hi_a = np.asfortranarray(lo_a), np.asfortranarray(hi_a)
        return GymBox(lo_a, hi_a, dtype=dt)
    if k == "fbox":
        shape, lo, hi, bits = sd[1], sd[2], sd[3], sd[4]
        dt = np.float64 if bits == 64 else np.float32
        return GymBox(np.array([float(frac(x)) for x in lo], dtype=dt).reshape(shape),
                      np.array([float(frac(x)) for x in hi], dtype=dt).reshape(shape), dtype=dt)
    if k == "ubox":
        shape, which = sd[1], sd[2]
        low = -np.inf if which in (0, 2) else -3
        high = np.inf if which in (1, 2) else 4
        return GymBox(low, high, tuple(shape), dtype=int)
    if k == "dict":
        return Dict({key: to_gym(sub) for key, sub in sd[1]})
    if k == "tup":
        return Tuple(tuple(to_gym(sub) for sub in sd[1]))
    raise ValueError(sd)


def _as_list(vals):
    """deterministic variety: about a third of the array points are handed over as (nested) Python lists, which
    gymnasium accepts as members just like arrays (simulations often return lists)"""
    return sum(int(x) if isinstance(x, int) else x[0] for x in vals) % 3 == 1


def _layout(vals):
    """deterministic variety for arrays of rank >= 2: 0 = C order, 1 = Fortran order, 2 = a transposed view --
    equal as values and members alike, another memory layout"""
    return (sum(int(x) if isinstance(x, int) else x[0] for x in vals) + len(vals)) % 4


def to_py(sd, pd):
    """the Python object handed to the real code for a point description"""
    r = _to_py(sd, pd)
    if isinstance(r, np.ndarray) and _as_list(pd[1]):
        return r.tolist()
    if isinstance(r, np.ndarray) and r.ndim >= 2:
        lay = _layout(pd[1])
        if lay == 1:
            return np.asfortranarray(r)
        if lay == 2:
            return np.ascontiguousarray(r.T).T
    return r


def scribble(obj):
    """overwrite, in place, a value the real code has returned (after it was canonicalised): what a receiver that
    edits its point in place does.  A function that hands the same object to a later caller then shows it."""
    if isinstance(obj, np.ndarray):
        if obj.flags.writeable and obj.size:
            obj.fill(-7 if np.issubdtype(obj.dtype, np.signedinteger) or np.issubdtype(obj.dtype, np.floating) else 1)
    elif isinstance(obj, list):
        for i, x in enumerate(obj):
            if isinstance(x, (list, dict, np.ndarray)):
                scribble(x)
            else:
                obj[i] = -7
    elif isinstance(obj, dict):
        for k, x in list(obj.items()):
            if isinstance(x, (list, dict, np.ndarray, tuple)):
                scribble(x)
            else:
                obj[k] = -7
    elif isinstance(obj, tuple):
        for x in obj:
            scribble(x)


def used_space(sd):
    """the gymnasium space handed to the real code.  For about half of the Dict spaces it is an object with a
    history: a channel was first replaced by another sub-space (public Dict.__setitem__), the real functions were
    called on that, and the channel was put back -- equal to a freshly built space, but not a fresh object"""
    sp = to_gym(sd)

    def use(root):
        try:
            x = root.sample()
        except Exception:  # noqa: BLE001
            return
        for fn in (lambda: FW.unflatten(root, FW.flatten(root, x)), lambda: FW.flatten_space(root),
                   lambda: FW.flatdim(root),
                   lambda: RW.unravel(root, RW.ravel(root, x)), lambda: RW.ravel_space(root)):
            try:
                fn()
            except Exception:  # noqa: BLE001
                pass

    def dict_nodes(space, desc, out):
        if desc[0] == "dict":
            out.append((space, desc))
            for key, sub in desc[1]:
                dict_nodes(space[key], sub, out)
        elif desc[0] == "tup":
            for sub_sp, sub in zip(space.spaces, desc[1]):
                dict_nodes(sub_sp, sub, out)
        return out

    # every Dict node of the tree, nested ones too (round 6: a size remembered on a space object that is a CHILD of
    # the space in use); the functions are called on the ROOT while the channel is replaced, so that whatever any
    # level remembers was computed for another space
    for node, nd in dict_nodes(sp, sd, []):
        if nd[1] and (len(repr(nd)) % 2 == 0):
            keys = sorted(k for k, _ in nd[1])
            key = keys[len(repr(nd)) // 2 % len(keys)]      # not always the first channel
            orig = node[key]
            try:
                node[key] = Tuple((Discrete(3), MultiBinary(2)))
                use(sp)
            finally:
                node[key] = orig
    return sp


def _to_py(sd, pd):
    k = sd[0]
    if k == "d":
        v = pd[1]
        if isinstance(v, list):
            return float(frac(v))
        return int(v) if v % 2 == 0 else np.int64(v)
    if k == "mb":
        if (sum(pd[1]) + len(pd[1])) % 3 == 1:
            return np.array(pd[1], dtype=bool)       # a boolean mask: a member of MultiBinary like the int8 array
        return np.array(pd[1], dtype=np.int8)
    if k == "md":
        return np.array(pd[1], dtype=np.int64)
    if k in ("box", "ubox"):
        dt = np.int64 if (k == "ubox" or sd[4]) else np.int32
        return np.array(pd[1], dtype=dt).reshape(sd[1])
    if k == "fbox":
        if all(isinstance(x, int) for x in pd[1]):
            return np.array(pd[1], dtype=np.int64).reshape(sd[1])
        dt = np.float64 if sd[4] == 64 else np.float32
        return np.array([float(frac(x)) for x in pd[1]], dtype=dt).reshape(sd[1])
    if k == "dict":
        sub = dict(sd[1])
        return {key: to_py(sub[key], p) for key, p in pd[1]}
    if k == "tup":
        return tuple(to_py(s, p) for s, p in zip(sd[1], pd[1]))
    raise ValueError(sd)


# ---- descriptions -> wire --------------------------------------------------------------------

def space_wire(sd, kx=None):
    kx = key_index(sd) if kx is None else kx
    k = sd[0]
    if k == "d":
        return ["d", sd[1], sd[2]]
    if k == "mb":
        return ["mb", sd[1]]
    if k == "md":
        return ["md", list(sd[1])]
    if k == "box":
        return ["box", list(sd[1]), list(sd[2]), list(sd[3]), 1 if sd[4] else 0]
    if k == "fbox":
        return ["fbox", list(sd[1]), [fwire(frac(x)) for x in sd[2]], [fwire(frac(x)) for x in sd[3]]]
    if k == "ubox":
        return ["ubox", list(sd[1])]
    if k == "dict":
        items = sorted_items(sd)
        return ["dict", [kx[key] for key, _ in items], [space_wire(sub, kx) for _, sub in items]]
    if k == "tup":
        return ["tup", [space_wire(sub, kx) for sub in sd[1]]]
    raise ValueError(sd)


def leaf_shape(sd):
    k = sd[0]
    if k == "mb":
        return [sd[1]]
    if k == "md":
        return [len(sd[1])]
    return list(sd[1])


def num_wire(x):
    return fwire(frac(x)) if isinstance(x, list) else int(x)


def pt_wire(sd, pd, kx=None):
    kx = key_index(sd) if kx is None else kx
    k = sd[0]
    if k == "d":
        return ["s", num_wire(pd[1])]
    if k == "dict":
        sub = dict(sd[1])
        items = sorted(pd[1], key=lambda kv: kv[0])
        return ["m", [kx[key] for key, _ in items], [pt_wire(sub[key], p, kx) for key, p in items]]
    if k == "tup":
        return ["t", [pt_wire(s, p, kx) for s, p in zip(sd[1], pd[1])]]
    vals = pd[1]
    if k == "fbox" and not all(isinstance(x, int) for x in vals):
        vals = [fwire(frac(x)) for x in vals]
    else:
        vals = [num_wire(x) for x in vals]
    return ["a", leaf_shape(sd), vals]


# ---- python objects -> wire (canonical outcome) ------------------------------------------------

def canon_scalar(x):
    if isinstance(x, bool) or isinstance(x, np.bool_):
        return BAD
    if isinstance(x, (int, np.integer)):
        return int(x)
    if isinstance(x, (float, np.floating)):
        f = float(x)
        if f != f or f in (float("inf"), float("-inf")):
            return BAD
        return fwire(Fraction(f))
    return BAD


def canon_array(x):
    """(a shape vals) for an ndarray / list of numbers; BAD otherwise"""
    if isinstance(x, (list, tuple)):
        try:
            x = np.asarray(x)
        except Exception:  # noqa: BLE001
            return BAD
    if isinstance(x, np.generic):
        x = np.asarray(x)          # a numpy scalar is a 0-d array (what numpy returns for shape ())
    if not isinstance(x, np.ndarray):
        return BAD
    if x.dtype.kind in "iub":                   # (b: a boolean mask reads as 0 / 1, as gymnasium and numpy read it)
        vals = [int(v) for v in x.flatten().tolist()]
    elif x.dtype.kind == "f":
        vals = []
        for v in x.flatten().tolist():
            if v != v or v in (float("inf"), float("-inf")):
                return BAD
            vals.append(fwire(Fraction(v)))
    else:
        return BAD
    return ["a", [int(d) for d in x.shape], vals]


def canon_pt(sd, obj, kx=None):
    kx = key_index(sd) if kx is None else kx
    k = sd[0]
    if k == "d":
        c = canon_scalar(obj)
        return BAD if c == BAD else ["s", c]
    if k == "dict":
        if not isinstance(obj, dict):
            return BAD
        sub = dict(sd[1])
        if any(key not in sub for key in obj):
            return BAD
        items = sorted(obj.items(), key=lambda kv: kv[0])
        return ["m", [kx[key] for key, _ in items], [canon_pt(sub[key], v, kx) for key, v in items]]
    if k == "tup":
        if not isinstance(obj, (tuple, list)) or len(obj) != len(sd[1]):
            return BAD
        return ["t", [canon_pt(s, v, kx) for s, v in zip(sd[1], obj)]]
    return canon_array(obj)


# ---- python mirrors used by the generators and the finding matchers only -------------------------

def py_card(sd):
    k = sd[0]
    if k == "d":
        return sd[1]
    if k == "mb":
        return 2 ** sd[1]
    if k == "md":
        return prod(sd[1])
    if k == "box":
        return prod(h + 1 - l for l, h in zip(sd[2], sd[3]))
    if k in ("fbox", "ubox"):
        return 0
    if k == "dict":
        return prod(py_card(sub) for _, sub in sd[1])
    return prod(py_card(sub) for sub in sd[1])


def py_flatdim(sd):
    k = sd[0]
    if k == "d":
        return 1
    if k == "dict":
        return sum(py_flatdim(sub) for _, sub in sd[1])
    if k == "tup":
        return sum(py_flatdim(sub) for sub in sd[1])
    return prod(leaf_shape(sd))


def leaves(sd):
    k = sd[0]
    if k == "dict":
        for _, sub in sd[1]:
            yield from leaves(sub)
    elif k == "tup":
        for sub in sd[1]:
            yield from leaves(sub)
    else:
        yield sd


def all_leaves_int(sd):
    return all(l[0] != "fbox" for l in leaves(sd))


def has_start(sd):
    return any(l[0] == "d" and l[2] != 0 for l in leaves(sd))


def has_narrow(sd):
    return any(l[0] == "box" and not l[4] for l in leaves(sd))


def is_nested(sd):
    return sd[0] in ("dict", "tup")


def kind_tag(sd):
    return sd[0]


# ---- the real calls ------------------------------------------------------------------------------

def _guard(fn):
    try:
        return fn()
    except Exception:  # noqa: BLE001  (every exception of the real code is the outcome `err`)
        return ERR


def _in(x, space):
    try:
        return bool(x in space)
    except Exception:  # noqa: BLE001
        return False


def run_ravel(sd, pd):
    def go():
        r = RW.ravel(used_space(sd), to_py(sd, pd))
        c = canon_scalar(r)
        return ["ok", c if isinstance(c, int) else BAD]
    return _guard(go)


def run_unravel(sd, k):
    def go():
        sp = used_space(sd)
        scribble(RW.unravel(sp, int(k)))        # an earlier caller got the same point and edited it in place
        q = RW.unravel(sp, int(k) if (k % 2 == 0 or k >= 2 ** 63) else np.int64(k))
        out = ["ok", canon_pt(sd, q), _in(q, sp)]
        scribble(q)
        return out
    return _guard(go)


def run_ravelspace(sd):
    def go():
        r = RW.ravel_space(to_gym(sd))
        if not isinstance(r, Discrete):
            return ["ok", BAD]
        return ["ok", int(r.n), int(r.start)]
    return _guard(go)


def run_checkspace(sd):
    def go():
        r = RW.check_space(to_gym(sd))
        if isinstance(r, (bool, np.bool_)):
            return ["ok", bool(r)]
        return ["ok", BAD]
    return _guard(go)


def run_flatten(sd, pd):
    def go():
        sp = used_space(sd)
        scribble(FW.flatten(sp, to_py(sd, pd)))
        a = FW.flatten(sp, to_py(sd, pd))
        out = ["ok", canon_array(a), _in(a, FW.flatten_space(sp))]
        scribble(a)
        return out
    return _guard(go)


def run_unflatten(sd, pd):
    def go():
        sp = used_space(sd)
        scribble(FW.unflatten(sp, FW.flatten(sp, to_py(sd, pd))))
        q = FW.unflatten(sp, FW.flatten(sp, to_py(sd, pd)))
        flag = (1 if _in(q, sp) else 0) if all_leaves_int(sd) else 2
        out = ["ok", canon_pt(sd, q), flag]
        scribble(q)
        return out
    return _guard(go)


def run_flatspace(sd):
    def go():
        sp = to_gym(sd)
        b = FW.flatten_space(sp)
        d = FW.flatdim(sp)
        if not isinstance(b, GymBox) or not isinstance(d, int) or isinstance(d, bool):
            return ["ok", BAD]
        if b.dtype == int:
            kind = "i64"
        elif np.issubdtype(b.dtype, np.integer):
            kind = "narrow"
        elif np.issubdtype(b.dtype, np.floating):
            kind = "f"
        else:
            return ["ok", BAD]
        lo, hi = canon_array(b.low), canon_array(b.high)
        if lo == BAD or hi == BAD or len(lo[1]) != 1 or len(hi[1]) != 1:
            return ["ok", BAD]
        return ["ok", kind, [fwire(frac(x)) for x in lo[2]], [fwire(frac(x)) for x in hi[2]], d]
    return _guard(go)


RUN = {"ravel": lambda d: run_ravel(d["space"], d["point"]),
       "unravel": lambda d: run_unravel(d["space"], d["k"]),
       "ravelspace": lambda d: run_ravelspace(d["space"]),
       "checkspace": lambda d: run_checkspace(d["space"]),
       "flatten": lambda d: run_flatten(d["space"], d["point"]),
       "unflatten": lambda d: run_unflatten(d["space"], d["point"]),
       "flatspace": lambda d: run_flatspace(d["space"])}


def request(desc, impl):
    """the wire request (as nested lists) for a case description and its implementation outcome"""
    op, sw = desc["op"], space_wire(desc["space"])
    if op in ("ravel", "flatten", "unflatten"):
        return [op, sw, pt_wire(desc["space"], desc["point"]), impl]
    if op == "unravel":
        return [op, sw, desc["k"], impl]
    return [op, sw, impl]


# ---- generators ----------------------------------------------------------------------------------

INT_SHAPES = [[], [1], [2], [3], [4], [1, 2], [2, 2], [3, 1], [2, 3], [1, 2, 2], [2, 1, 2]]
FLT_SHAPES = [[], [1], [2], [3], [5], [2, 2], [1, 3], [2, 1, 2]]


def gen_leaf(rng, floats):
    kinds = ["d", "mb", "md", "box", "box"] + (["fbox", "fbox"] if floats else [])
    k = rng.choice(kinds)
    big = rng.random() < 0.04          # what the small scopes never reach: wide and long leaves, values beyond 2^24
    if k == "d":
        return ["d", rng.choice([300, 70000, 20000001]) if big else rng.randint(1, 6), 0]
    if k == "mb":
        return ["mb", rng.randint(33, 40) if big else rng.randint(1, 4)]
    if k == "md":
        if big:
            return ["md", [rng.randint(1, 3) for _ in range(rng.randint(11, 14))]]
        return ["md", [rng.randint(1, 5) for _ in range(rng.randint(1, 4))]]
    if k == "box":
        shape = rng.choice(INT_SHAPES)
        lo = [rng.randint(-4, 3) for _ in range(prod(shape))]
        hi = [l + rng.choice([0, 1, 1, 2, 3]) for l in lo]
        return ["box", shape, lo, hi, 1]
    shape = rng.choice(FLT_SHAPES)
    lo = [rng.randint(-4096, 4096) for _ in range(prod(shape))]
    hi = [l + rng.choice([0, 1, 512, 1024, rng.randint(0, 4096)]) for l in lo]
    return ["fbox", shape, [fwire(Fraction(l, 1024)) for l in lo], [fwire(Fraction(h, 1024)) for h in hi],
            rng.choice([64, 64, 32])]


def gen_space(rng, depth, floats, p_leaf=0.3):
    """nested space: depth <= `depth`, <= 4 children, every leaf kind, unsorted Dict keys, sibling
    flat dimensions pairwise different whenever a few retries achieve it"""
    if depth == 0 or rng.random() < p_leaf:
        return gen_leaf(rng, floats)
    if rng.random() < 0.04:
        # eleven and more components: positional order and the lexicographic order of "0", "1", "10", "11", "2" differ
        n = rng.randint(11, 13)
        children = [rng.choice([["d", 2, 0], ["d", 3, 0], ["mb", 1], ["md", [2, 2]], ["box", [1], [0], [2], 1]])
                    for _ in range(n)]
        if rng.random() < 0.5:
            return ["tup", children]
        keys = ["k%d" % i for i in range(n)]
        rng.shuffle(keys)
        return ["dict", [[key, c] for key, c in zip(keys, children)]]
    n = rng.randint(1, 4)
    children, dims = [], set()
    for _ in range(n):
        for _attempt in range(6):
            c = gen_space(rng, depth - 1, floats, p_leaf + 0.2)
            if py_flatdim(c) not in dims:
                break
        dims.add(py_flatdim(c))
        children.append(c)
    if rng.random() < 0.5:
        return ["tup", children]
    keys = rng.sample(VOCAB, n)
    return ["dict", [[key, c] for key, c in zip(keys, children)]]


def leaf_cells(sd):
    """per scalar cell of a leaf: the (lazy) range of its integer values (integer leaves only)"""
    k = sd[0]
    if k == "d":
        return [range(sd[2], sd[2] + sd[1])]
    if k == "mb":
        return [range(2)] * sd[1]
    if k == "md":
        return [range(r) for r in sd[1]]
    if k == "box":
        return [range(l, h + 1) for l, h in zip(sd[2], sd[3])]
    raise ValueError(sd)


def leaf_point(sd, vals):
    return ["s", vals[0]] if sd[0] == "d" else ["a", list(vals)]


def shuffled_dict_point(rng, keys_pts):
    keys_pts = list(keys_pts)
    if rng is not None:
        rng.shuffle(keys_pts)
    else:
        keys_pts.reverse()
    return ["m", [[key, p] for key, p in keys_pts]]


def build_point(sd, pick, rng=None):
    """point whose every leaf is `pick(leaf description)`; Dict points get a shuffled insertion order"""
    k = sd[0]
    if k == "dict":
        return shuffled_dict_point(rng, [(key, build_point(sub, pick, rng)) for key, sub in sd[1]])
    if k == "tup":
        return ["t", [build_point(sub, pick, rng) for sub in sd[1]]]
    return pick(sd)


def enum_points(sd, rng=None):
    """every point of an integer space (independent of ravel: product of the leaf cells)"""
    ls = list(leaves(sd))
    cells = [leaf_cells(l) for l in ls]
    flat = [c for cs in cells for c in cs]
    for combo in itertools.product(*flat):
        it = iter(combo)
        per_leaf = {}
        for i, (l, cs) in enumerate(zip(ls, cells)):
            per_leaf[i] = leaf_point(l, [next(it) for _ in cs])
        idx = iter(range(len(ls)))
        yield build_point(sd, lambda _l: per_leaf[next(idx)], rng)


def sample_leaf(rng, sd, mode="rand"):
    """mode: rand | lo | hi"""
    k = sd[0]
    if k == "fbox":
        vals = []
        for l, h in zip(sd[2], sd[3]):
            l, h = frac(l), frac(h)
            if mode == "lo":
                q = l
            elif mode == "hi":
                q = h
            else:
                lo_k, hi_k = int(l * 1024), int(h * 1024)
                q = Fraction(rng.randint(lo_k, hi_k), 1024)
            vals.append(fwire(q))
        if mode == "int":
            pass
        return ["a", vals]
    cells = leaf_cells(sd)
    if mode == "lo":
        return leaf_point(sd, [c[0] for c in cells])
    if mode == "hi":
        return leaf_point(sd, [c[-1] for c in cells])
    def pick(c):
        if c[-1] - c[0] > 2 ** 24 and rng.random() < 0.5:
            return c[-1] - rng.randrange(0, 1000)        # near the top: beyond what a float32 holds exactly
        return rng.randrange(c[0], c[-1] + 1)
    return leaf_point(sd, [pick(c) for c in cells])


def extreme_spaces(floats):
    """what the small scopes never reach, as fixed spaces of the example stream: an integer leaf with values beyond
    2^24 next to float32 Boxes; two Boxes of 32x32 cells with per-cell bounds that differ in ONE interior cell (their
    printed forms are equal: numpy summarises arrays of more than 1000 elements); bounds that differ past the
    eighth digit"""
    out = []
    if floats:
        f32 = ["fbox", [2], [fwire(Fraction(-1)), fwire(Fraction(0))], [fwire(Fraction(1)), fwire(Fraction(3, 2))], 32]
        out.append(["tup", [["d", 20000001, 0], f32]])
        out.append(["dict", [["obs", f32], ["count", ["md", [20000001, 3]]]]])
        out.append(["tup", [["box", [1], [16777000], [16778000], 1], f32, ["mb", 2]]])
    lo = [0] * 1024
    hi1 = [3 + (i % 2) for i in range(1024)]              # per-cell bounds (not uniform: printed as arrays)
    hi2 = list(hi1)
    hi2[500] = 9
    out.append(["box", [32, 32], lo, hi1, 1])
    out.append(["box", [32, 32], lo, hi2, 1])
    if floats:
        a = Fraction(2)
        b = Fraction(2) + Fraction(1, 2 ** 30)
        out.append(["fbox", [1], [fwire(Fraction(0))], [fwire(a)], 64])
        out.append(["fbox", [1], [fwire(Fraction(0))], [fwire(b)], 64])
    return out


def int_point_for_fbox(sd):
    """an integer-typed point of a float Box (or None if some cell contains no integer)"""
    vals = []
    for l, h in zip(sd[2], sd[3]):
        l, h = frac(l), frac(h)
        c = -((-l.numerator) // l.denominator)  # ceil
        if c > h:
            return None
        vals.append(int(c))
    return ["a", vals]


def corner_points(rng, sd):
    """all-low, all-high and every single-cell-maximal point"""
    yield build_point(sd, lambda l: sample_leaf(rng, l, "lo"), rng)
    yield build_point(sd, lambda l: sample_leaf(rng, l, "hi"), rng)
    ls = list(leaves(sd))
    for i, l in enumerate(ls):
        ncell = len(l[2]) if l[0] == "fbox" else len(leaf_cells(l))
        for j in range(ncell):
            idx = iter(range(len(ls)))

            def pick(leaf, i=i, j=j, idx=idx):
                me = next(idx)
                base = sample_leaf(rng, leaf, "lo")
                if me != i:
                    return base
                top = sample_leaf(rng, leaf, "hi")
                if leaf[0] == "d":
                    return top
                vals = list(base[1])
                vals[j] = top[1][j]
                return ["a", vals]
            yield build_point(sd, pick, rng)


def random_point(rng, sd):
    return build_point(sd, lambda l: sample_leaf(rng, l, "rand"), rng)


# ---- the spaces of the packaged example simulations ------------------------------------------------

def from_gym(sp):
    """description of a gymnasium space (None if it is outside what the model represents)"""
    if isinstance(sp, Discrete):
        return ["d", int(sp.n), int(sp.start)]
    if isinstance(sp, MultiBinary):
        return ["mb", int(sp.n)] if isinstance(sp.n, (int, np.integer)) else None
    if isinstance(sp, MultiDiscrete):
        return ["md", [int(x) for x in sp.nvec]] if sp.nvec.ndim == 1 else None
    if isinstance(sp, GymBox):
        shape = [int(d) for d in sp.shape]
        if not sp.is_bounded():
            return None
        if np.issubdtype(sp.dtype, np.integer):
            return ["box", shape, [int(x) for x in sp.low.flatten()], [int(x) for x in sp.high.flatten()],
                    1 if sp.dtype == int else 0]
        if sp.dtype in (np.float32, np.float64):
            lo = [Fraction(float(x)) for x in sp.low.flatten()]
            hi = [Fraction(float(x)) for x in sp.high.flatten()]
            if any(q.denominator > 1024 for q in lo + hi):
                return None
            return ["fbox", shape, [fwire(q) for q in lo], [fwire(q) for q in hi], 64 if sp.dtype == np.float64 else 32]
        return None
    if isinstance(sp, Dict):
        kids = [[key, from_gym(sub)] for key, sub in sp.spaces.items()]
        if any(c is None for _, c in kids):
            return None
        kids.reverse()      # creation order of the rebuilt space differs from gymnasium's sorted order
        return ["dict", kids]
    if isinstance(sp, Tuple):
        kids = [from_gym(sub) for sub in sp.spaces]
        return None if any(c is None for c in kids) else ["tup", kids]
    return None


def example_spaces():
    """observation and action spaces of the example simulations that can be built without arguments"""
    from abmarl.examples.sim import multi_agent_sim, multi_corridor
    sims = [multi_agent_sim.MultiAgentGymSpacesSim(), multi_agent_sim.MultiAgentContinuousGymSpaceSim(),
            multi_agent_sim.MultiAgentSameSpacesSim(), multi_corridor.MultiCorridor()]
    out, seen = [], set()
    for sim in sims:
        for agent in sim.agents.values():
            for name in ("observation_space", "action_space"):
                sp = getattr(agent, name, None)
                if sp is None:
                    continue
                sd = from_gym(sp)
                if sd is None:
                    continue
                key = repr(sd)
                if key not in seen:
                    seen.add(key)
                    out.append(sd)
    return out
