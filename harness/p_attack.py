"""C11 (the four attack actors) and the attack part of C03: per-call refinement of the real
`process_action(agent, {'attack': action})` under the scripted oracle tape.

One case = (static world, dynamic pre-world, actor kind + attack mapping + stacked flag, attacker,
action, tape) -> (status, attacked agents in order, dynamic post-world) | error kind.
The driver op is `gattack` (lean/Abmarl/Model/AttacksDriver.lean).

Layouts are asymmetric by construction (rows != cols, attacker off-centre, most victims at
offsets with |dr| != |dc|), so that a row/column mix-up cannot cancel.
"""
import copy
import hashlib
import itertools
import json
import signal

import compat  # noqa: F401
import numpy as np

import core
import gridw
import poke
import wire
from mgr import Hang, _alarm
from oracle import scripted
from p_grid import MoveProp

from abmarl.sim.gridworld.actor import (
    BinaryAttackActor, EncodingBasedAttackActor, SelectiveAttackActor, RestrictedSelectiveAttackActor
)

KINDS = ["binary", "encoding", "selective", "restricted"]
ACTORS = {"binary": BinaryAttackActor, "encoding": EncodingBasedAttackActor,
          "selective": SelectiveAttackActor, "restricted": RestrictedSelectiveAttackActor}
ENUM_LIMIT = 2000          # action spaces with at most this many points are enumerated completely


def guarded_call(fn, seconds=5.0):
    """run fn() under a watchdog; ('ok', value) | (error kind of the model's enum, info)"""
    old = signal.signal(signal.SIGALRM, _alarm)
    signal.setitimer(signal.ITIMER_REAL, seconds)
    try:
        return "ok", fn()
    except Hang:
        return "hang", None
    except KeyError as e:
        return "keyError", repr(e)
    except IndexError as e:
        return "badIndex", repr(e)
    except AssertionError as e:
        return "assertion", repr(e)
    except Exception as e:  # noqa: BLE001
        return "other", f"{type(e).__name__}: {e}"
    finally:
        signal.setitimer(signal.ITIMER_REAL, 0)
        signal.signal(signal.SIGALRM, old)


def _h(s):
    return hashlib.sha1(s.encode()).hexdigest()[:16]


_TR = str.maketrans({"[": "(", "]": ")", ",": None, "'": None})


def fenc(x):
    """wire.enc for nested lists of python ints / bools / atoms, via repr (10x faster);
    produces exactly the format of wire.enc"""
    return repr(x).translate(_TR).replace("True", "1").replace("False", "0")


_FR = {}


def _fr(x):
    v = _FR.get(x)
    if v is None:
        v = _FR[x] = gridw.fr(x)
    return v


def dyn_fast(w):
    """same value as gridw.RealWorld.dyn_wire (attack worlds have no orientation agents)"""
    idx = w.idx
    cells = [[idx[k] for k in cell] if cell else [] for cell in w.grid[:, :].reshape(-1)]
    sts = []
    for a in w.agent_list:
        pos = a.position
        sts.append([[int(pos[0]), int(pos[1])], _fr(a.health), bool(a.active),
                    int(getattr(a, "ammo", 0)), 0])
    return [cells, sts]


class AttackSession:
    """a real attack actor over a real grid with real agents"""

    def __init__(self, desc, actor):
        self.desc, self.actor_desc = desc, actor
        self.w = gridw.RealWorld(desc)
        self.kind = actor["kind"]
        mapping = {int(e): (set(int(x) for x in s) if isinstance(s, list) else int(s)) for e, s in actor["mapping"]}
        self.actor = ACTORS[self.kind](grid=self.w.grid, agents=self.w.agents, attack_mapping=mapping,
                                       stacked_attacks=bool(actor["stacked"]))
        self.w.finish()
        # after the constructor: "FULL" ranges are resolved, integer rows of the mapping are sets
        self.stat = self.w.stat_wire()
        self.stat_s = wire.enc(self.stat)
        self.mapping_wire = [[int(e), sorted(int(x) for x in s)] for e, s in sorted(self.actor.attack_mapping.items())]
        self.head = [self.kind, self.mapping_wire, bool(actor["stacked"])]
        # rejected assignments on the live actor (the configuration has been read: what is in force must stay in force)
        poke.rejected(self.actor, [desc, actor])

    def space(self, a):
        return self.w.agent_list[a].action_space["attack"]

    def width(self, a):
        return 2 * self.stat[3][a][7] + 1

    def py_action(self, a, aw):
        """wire form of an action -> the python value handed to process_action"""
        if self.kind == "binary":
            return int(aw)
        if self.kind == "encoding":
            return {int(e): int(k) for e, k in aw}          # insertion order = the order sent to the model
        if self.kind == "selective":
            W = self.width(a)
            arr = np.array(aw, dtype=int).reshape((W, W))   # numpy's row-major reshape: on the implementation side
            lay = (sum(aw) + len(aw)) % 4                   # the same values in another memory layout
            if lay == 1:
                return np.asfortranarray(arr)
            if lay == 2:
                return np.ascontiguousarray(arr.T).T
            if lay == 3:
                return np.ascontiguousarray(arr[::-1, ::-1])[::-1, ::-1]
            return arr
        return np.array(aw, dtype=int)

    def call(self, a, aw, tape, check_space=True, pre=None):
        """returns (pre_dyn, call_wire, outcome_wire, in_space)"""
        agent = self.w.agent_list[a]
        if pre is None:
            pre = dyn_fast(self.w)
        action = self.py_action(a, aw)
        in_space = True
        if check_space:
            try:
                in_space = bool(self.space(a).contains(action))
            except Exception:  # noqa: BLE001
                in_space = False
        with scripted(list(tape)):
            st, val = guarded_call(lambda: self.actor.process_action(agent, {"attack": action}))
        if st == "ok":
            status, attacked = val
            hits = [self.w.idx[x.id] for x in attacked]
            out = ["ok", bool(status), hits, dyn_fast(self.w)]
        else:
            out = ["err", st]
        return pre, self.head + [a, aw], out, in_space


# ----------------------------------------------------------------------------------------------
# action spaces: size, enumeration, sampling (all derived from the *declared* gymnasium space)

def space_dims(sess, a):
    """per-coordinate number of values of the declared space, in wire order; None if no space"""
    try:
        sp = sess.space(a)
    except KeyError:
        return None
    if sess.kind == "binary":
        return [int(sp.n)]
    if sess.kind == "encoding":
        return [int(s.n) for s in sp.spaces.values()]
    if sess.kind == "selective":
        return [int(h - l + 1) for l, h in zip(sp.low.reshape(-1), sp.high.reshape(-1))]
    return [int(x) for x in sp.nvec.reshape(-1)]


def enc_keys(sess, a, rng):
    keys = [int(k) for k in sess.space(a).spaces.keys()]
    rng.shuffle(keys)                 # the iteration order of the action dict is an input
    return keys


def to_wire(sess, a, point, keys=None):
    if sess.kind == "binary":
        return int(point[0])
    if sess.kind == "encoding":
        return [[k, int(v)] for k, v in zip(keys, point)]
    return [int(v) for v in point]


def occupied_window_cells(sess, a):
    """window cell numbers (row-major, 0-based) that hold somebody -- to aim sampled actions"""
    W = sess.width(a)
    R = (W - 1) // 2
    me = sess.w.agent_list[a]
    out = []
    for b in sess.w.agent_list:
        if b is me or not b.active:
            continue
        dr, dc = int(b.position[0] - me.position[0]), int(b.position[1] - me.position[1])
        if -R <= dr <= R and -R <= dc <= R:
            out.append((dr + R) * W + (dc + R))
    return out


def sample_point(sess, a, dims, rng):
    if sess.kind in ("binary", "encoding"):
        return [rng.randrange(d) for d in dims]
    occ = occupied_window_cells(sess, a)
    if sess.kind == "selective":
        mode = rng.random()
        if mode < 0.3:
            return [rng.randrange(d) for d in dims]
        p = [0] * len(dims)
        targets = [q for q in occ if rng.random() < 0.8] + [rng.randrange(len(dims)) for _ in range(rng.randint(0, 3))]
        for q in targets:
            p[q] = rng.randrange(dims[q])
        return p
    # restricted: cell numbers 0..W*W
    p = []
    for d in dims:
        if occ and rng.random() < 0.6:
            p.append(rng.choice(occ) + 1)
        else:
            p.append(rng.randrange(d))
    return p


_SPECIAL = [0, 1, 511, 512, 513, 1023, 1024, 1536]


def gen_tape(rng, n=28):
    """naturals below 4096; a quarter of them boundary values of the accuracy test (u = 1/2 etc.)"""
    out = []
    g = rng.getrandbits
    for _ in range(n):
        x = g(14)
        out.append(_SPECIAL[x & 7] if x >> 12 == 0 else x & 4095)
    return out


# ----------------------------------------------------------------------------------------------
# worlds

HEALTHS = [[1, 1], [1, 1], [1, 2], [1, 4], [3, 4], [1, 1024], [5, 8]]
STRENGTHS = [[0, 1], [1, 4], [1, 2], [1, 1], [1, 2]]
ACCS = [[0, 1], [1, 2], [1, 1], [1, 1], [1, 1]]


def gen_attack_world(rng, big=False):
    """legal world description (state set directly), asymmetric by construction, + actor description"""
    huge = rng.random() < 0.05          # what the small scopes never reach: sizes, counts and ranges of 8 and more
    while True:
        rows, cols = rng.randint(1, 6 if big else 5), rng.randint(1, 6)
        if huge:
            rows, cols = rng.randint(9, 14), rng.randint(8, 13)
        if rows != cols:
            break
    nenc = rng.randint(4, 11) if huge else rng.randint(1, 3)
    encs = list(range(1, nenc + 1))
    overlap = gridw.gen_overlap(rng, encs)
    if rng.random() < 0.35:      # pile-ups need a permissive table
        overlap = [[e, list(encs)] for e in encs]
    sym = gridw.closed(overlap)
    n = rng.randint(10, 14) if huge else rng.randint(2, 7)
    # the main attacker: off-centre
    cells = [(r, c) for r in range(rows) for c in range(cols) if (2 * r != rows - 1 or 2 * c != cols - 1)]
    apos = rng.choice(cells)
    agents, state, occ = [], [], {}
    for i in range(n):
        a = dict(gridw.AG_DEFAULT)
        a["enc"] = rng.choice(encs)
        a["blocking"] = rng.random() < 0.25
        if i == 0 or rng.random() < 0.45:
            a["attacking"] = True
            a["attack_range"] = rng.choice([0, 1, 1, 1, 2, 2, "FULL"])
            a["strength"] = rng.choice(STRENGTHS)
            a["accuracy"] = rng.choice(ACCS)
            a["sim_attacks"] = rng.choice([0, 1, 1, 2, 2, 3])
            if huge:
                a["attack_range"] = rng.choice([4, 5, 8, 9, 12, "FULL", max(rows, cols) + 1])
                a["sim_attacks"] = rng.choice([1, 2, 3, 9, 10, 12])
        ammo = 0
        if rng.random() < 0.5:
            a["has_ammo"] = True
            a["init_ammo"] = rng.choice([9, 10, 11, 99, 100]) if huge else rng.randint(0, 4)
            ammo = rng.randint(0, a["init_ammo"])
        health = rng.choice(HEALTHS)
        if i > 0 and rng.random() < 0.12:
            health = [0, 1]
        pos = None
        if health[0] > 0:
            for _ in range(30):
                if i == 0:
                    p = apos
                else:
                    lim = (rng.choice([2, 5, 8, 12]) if huge else 2) if rng.random() < 0.7 else 3
                    dr, dc = rng.randint(-lim, lim), rng.randint(-lim, lim)
                    if abs(dr) == abs(dc) and rng.random() < 0.8:
                        continue          # most victims at offsets with |dr| != |dc|
                    p = (apos[0] + dr, apos[1] + dc)
                if not (0 <= p[0] < rows and 0 <= p[1] < cols):
                    continue
                if gridw.may_join(sym, a["enc"], occ.get(p, [])):
                    pos = p
                    break
            if pos is None:
                if i == 0:
                    pos = apos
                    occ.clear()
                else:
                    health = [0, 1]
        if pos is None:
            pos = (rng.randrange(rows), rng.randrange(cols))
        else:
            occ.setdefault(pos, []).append(a["enc"])
        agents.append(a)
        state.append({"pos": list(pos), "health": health, "ammo": ammo, "orient": 1})
    desc = {"rows": rows, "cols": cols, "overlap": overlap, "agents": agents, "state": state}
    if huge and n > 10 and rng.random() < 0.7:
        # the main attacker gets a two-digit index (its id then contains the id of agent k - 10 as a substring)
        k = rng.randrange(10, n)
        agents[0], agents[k] = agents[k], agents[0]
        state[0], state[k] = state[k], state[0]
        desc["main"] = k
    present = sorted({a["enc"] for a in agents})
    mapping = []
    for e in present:
        row = [x for x in present if rng.random() < 0.75]
        if len(row) == 1 and rng.random() < 0.3:
            mapping.append([e, row[0]])      # "attackable provided as integer"
        else:
            mapping.append([e, row])
    actor = {"kind": rng.choice(KINDS), "mapping": mapping, "stacked": rng.random() < 0.5}
    return desc, actor


def f6_desc():
    """the F6 layout: 3x3, attacker in the centre, victims to the right and below, attack [6]"""
    att = dict(gridw.AG_DEFAULT, enc=1, attacking=True, attack_range=1, strength=[1, 1], accuracy=[1, 1], sim_attacks=1)
    vic = dict(gridw.AG_DEFAULT, enc=2)
    world = {"rows": 3, "cols": 3, "overlap": [], "agents": [att, dict(vic), dict(vic)],
             "state": [{"pos": [1, 1], "health": [1, 1], "ammo": 0, "orient": 1},
                       {"pos": [1, 2], "health": [1, 1], "ammo": 0, "orient": 1},
                       {"pos": [2, 1], "health": [1, 1], "ammo": 0, "orient": 1}]}
    return {"world": world, "actor": {"kind": "restricted", "mapping": [[1, [2]]], "stacked": False},
            "pre": None, "call": {"a": 0, "action": [6]}, "tape": [0, 0, 0, 0]}


# ----------------------------------------------------------------------------------------------

def _perturb(sess, rng):
    """between two attacks: a blocking (or any other) agent steps to an empty cell, or dies and leaves the grid,
    the way the move actors / a lethal hit would do it -- through the real Grid"""
    w = sess.w
    alive = [ag for ag in w.agent_list[1:] if ag.active]
    if not alive:
        return
    blockers = [ag for ag in alive if ag.blocking]
    ag = rng.choice(blockers) if blockers and rng.random() < 0.7 else rng.choice(alive)
    pos = tuple(int(x) for x in ag.position)
    u = rng.random()
    if u < 0.2:
        # a gate closes or opens: the blocking flag is switched through the public setter, after the actor was built
        ag.blocking = not ag.blocking
        sess.stat = w.stat_wire()
        sess.stat_s = wire.enc(sess.stat)
        return
    if u < 0.5:
        ag.health = 0
        w.grid.remove(ag, pos)
        return
    empty = [(r, c) for r in range(w.grid.rows) for c in range(w.grid.cols) if not w.grid[r, c]]
    if empty:
        w.grid.remove(ag, pos)
        assert w.grid.place(ag, rng.choice(empty))


class AttackProp(core.Prop):
    def __init__(self, pid="C11"):
        self.pid = pid
        self.spec_idx = {"C11": 0, "C03": 1}[pid]
        self.lean_targets = ["Abmarl.Props." + pid]
        self.rule = (
            "legal grid worlds, asymmetric by construction (rows != cols up to 6x6 incl. single row/column, attacker "
            "off-centre, most victims at offsets with |dr| != |dc|), overlap pile-ups, blockers, dead agents, dyadic "
            "healths; all four actors, random attack mappings (set- and int-valued rows), stacked on/off, ranges "
            "0..2 and FULL, strengths {0,1/4,1/2,1}, accuracies {0,1/2,1}, simultaneous attacks 0..3, ammunition "
            "0..4; per world EVERY action of the attacker's declared action space when it has <= 2000 points "
            "(sampled otherwise, aimed at occupied cells half of the time), each under its own random tape, then "
            "2-4 successive attacks on the same world (deaths and ammunition depletion chain); each real "
            "process_action call is one case (pre-world, actor, attacker, action, tape -> status, hits, "
            "post-world); distinct by (world, actor, call, tape); non-trivial = at least one agent was hit")
        self.assumptions = [
            "health, strength, accuracy are exact rationals (dyadic test values, on which IEEE arithmetic is exact)",
            "np.random.uniform/choice are the scripted oracle tape (DESIGN.md 3.1); the model consumes the same tape",
            "worlds are built by setting agent state directly and filling the cells in insertion order",
            "the iteration order of the EncodingBased action dictionary is pinned by the harness and sent as input",
            "the shadow mask is the integer model of C10 (float<->integer step: paper argument of DESIGN.md 5 C10)",
            "hits on a victim that an earlier hit of the same call killed are listed and cost ammunition but change "
            "nothing (formalised as: only hits taken while alive lower the health)",
        ]

    # ---- cases -----------------------------------------------------------------------------
    def _case(self, sess, pre, cw, tape, out, in_space, extra_tags=()):
        head = "(gattack " + sess.stat_s + " " + fenc(pre) + " " + fenc(cw) + " " + fenc(tape)
        outs = fenc(out)
        line = head + " " + outs + ")"
        d = {"world": sess.desc, "actor": sess.actor_desc, "pre": pre,
             "call": {"a": cw[3], "action": cw[4]}, "tape": list(tape)}
        tags = [sess.kind, "stacked" if cw[2] else "unstacked"] + list(extra_tags)
        now = [bool(ag.blocking) for ag in sess.w.agent_list]
        if now != [bool(a.get("blocking", False)) for a in sess.desc["agents"]]:
            d["blocking_now"] = now              # switched through the setter after the actor was built
            tags.append("blocking-switched-after-construction")
        nontrivial = False
        if out[0] != "ok":
            tags.append("err:" + out[1])
        else:
            hits = out[2]
            nontrivial = len(hits) > 0
            tags.append("hits:%d" % min(len(hits), 4))
            tags.append("attempted" if out[1] else "not-attempted")
            if len(set(hits)) < len(hits):
                tags.append("repeated-victim")
            died = sum(1 for b, s in enumerate(out[3][1]) if pre[1][b][2] and not s[2])
            if died:
                tags.append("died")
            cfg = sess.stat[3][cw[3]]
            if cfg[11] and out[1] and pre[1][cw[3]][3] == len(hits) and len(hits) > 0:
                tags.append("ammo-exhausted")
            tags.append("acc:%d/%d" % tuple(cfg[9]))
            tags.append("range:%d" % cfg[7])
        if not in_space:
            tags.append("outside-action-space")
        return core.Case(d, line, outs, key=_h(head), nontrivial=nontrivial, tags=tags)

    def case_from_desc(self, d):
        sess = AttackSession(copy.deepcopy(d["world"]), copy.deepcopy(d["actor"]))
        if d.get("pre") is not None:
            MoveProp._load_dyn(sess, d["pre"])
        if d.get("blocking_now") is not None:
            for ag, b in zip(sess.w.agent_list, d["blocking_now"]):
                if bool(ag.blocking) != bool(b):
                    ag.blocking = bool(b)
            sess.stat = sess.w.stat_wire()
            sess.stat_s = wire.enc(sess.stat)
        pre, cw, out, ins = sess.call(d["call"]["a"], d["call"]["action"], d["tape"])
        return self._case(sess, pre, cw, d["tape"], out, ins)

    def cases(self, tier, rng):
        quick = tier == "quick"
        nworlds = 1500 if quick else 40000
        nsample = 16 if quick else 24
        p_heavy = 0.3 if quick else 0.06      # share of the 200..2000-point enumerations that is kept
        made = 0
        while made < nworlds:
            desc, actor = gen_attack_world(rng, big=not quick)
            gridw.maybe_enc0(rng, desc, 0.08)
            gridw.maybe_late(rng, desc, 0.08)
            actor["kind"] = KINDS[made % 4]          # the four actors in equal shares
            ood = False
            if actor["kind"] != "encoding" and rng.random() < 0.04:
                # out-of-domain stream: the mapping has no row for the attacker's encoding
                e0 = desc["agents"][0]["enc"]
                actor["mapping"] = [r for r in actor["mapping"] if r[0] != e0]
                ood = True
            try:
                sess = AttackSession(desc, actor)
            except (ValueError, AssertionError, KeyError, TypeError):
                continue          # illegal description / configuration rejected by the constructors
            a = main = desc.get("main", 0)
            dims = space_dims(sess, a)
            npoints = 1
            for dd in dims:
                npoints *= dd
                if npoints > 10 ** 9:
                    break
            if 200 < npoints <= ENUM_LIMIT and rng.random() > p_heavy:
                continue          # keeps the run inside its time budget; kept worlds are enumerated completely
            made += 1
            extra = ["no-mapping-row"] if ood else []
            pre0 = dyn_fast(sess.w)
            keys = enc_keys(sess, a, rng) if sess.kind == "encoding" else None
            if npoints <= ENUM_LIMIT:
                # every action of the declared space; small spaces under several tapes each
                reps = 6 if npoints <= 4 else (3 if npoints <= 64 else 1)
                points = (pt for pt in itertools.product(*[range(dd) for dd in dims]) for _ in range(reps))
                extra2 = extra + ["space-enumerated"]
            else:
                points = (sample_point(sess, a, dims, rng) for _ in range(nsample))
                extra2 = extra + ["space-sampled"]
            first = True
            for pt in points:
                if not first:
                    MoveProp._load_dyn(sess, pre0)
                first = False
                tape = gen_tape(rng)
                pre, cw, out, ins = sess.call(a, to_wire(sess, a, pt, keys), tape, pre=pre0)
                if not ins:
                    raise RuntimeError("harness bug: generated action outside the declared space: %r" % (cw,))
                yield self._case(sess, pre, cw, tape, out, ins, extra2)
            # successive attacks on the same world (no restore in between)
            MoveProp._load_dyn(sess, pre0)
            for _ in range(rng.randint(2, 6)):
                attackers = [i for i, ag in enumerate(sess.w.agent_list)
                             if ag.active and sess.stat[3][i][6]]
                if not attackers:
                    break
                if rng.random() < 0.5:
                    _perturb(sess, rng)      # the layout changes between two attacks of the same actor object
                a = main if (main in attackers and rng.random() < 0.6) else rng.choice(attackers)
                dims = space_dims(sess, a)
                keys = enc_keys(sess, a, rng) if sess.kind == "encoding" else None
                tape = gen_tape(rng)
                pre, cw, out, ins = sess.call(a, to_wire(sess, a, sample_point(sess, a, dims, rng), keys), tape)
                yield self._case(sess, pre, cw, tape, out, ins, extra + ["successive"])
                if out[0] != "ok":
                    break
            # an agent that is not an AttackingAgent: (False, []) and nothing changes
            others = [i for i, ag in enumerate(sess.w.agent_list) if ag.active and not sess.stat[3][i][6]]
            if others and rng.random() < 0.15:
                b = rng.choice(others)
                aw = {"binary": 1, "encoding": [], "selective": [1], "restricted": [1]}[sess.kind]
                tape = gen_tape(rng)
                pre, cw, out, ins = sess.call(b, aw, tape, check_space=False)
                yield self._case(sess, pre, cw, tape, out, True, extra + ["not-an-attacker"])

    def interpret(self, reply, case):
        model, ms, is_ = reply
        if is_[self.spec_idx] not in (0, 1):
            raise ValueError("driver could not parse the implementation outcome")
        case.tags.append("pre:%d" % ms[2])
        if ms[3] != 1:
            case.tags.append("preWInv:0")
        return core.Verdict(fenc(model), ms[self.spec_idx] == 1, is_[self.spec_idx] == 1)

    # ---- shrinking -------------------------------------------------------------------------
    def shrink_candidates(self, d):
        # shorter / simpler tape
        t = d["tape"]
        if any(t):
            yield {**d, "tape": [0] * len(t)}
            for i, v in enumerate(t):
                if v:
                    yield {**d, "tape": t[:i] + [0] + t[i + 1:]}
        # simpler action
        act = d["call"]["action"]
        if isinstance(act, list):
            for i, v in enumerate(act):
                if isinstance(v, list) and v[1]:
                    yield {**d, "call": {**d["call"], "action": act[:i] + [[v[0], 0]] + act[i + 1:]}}
                elif isinstance(v, int) and v:
                    yield {**d, "call": {**d["call"], "action": act[:i] + [0] + act[i + 1:]}}
        elif act > 1:
            yield {**d, "call": {**d["call"], "action": act - 1}}
        # drop the last agent (never the attacker)
        n = len(d["world"]["agents"])
        if n - 1 > d["call"]["a"] and n > 1:
            w = copy.deepcopy(d["world"])
            w["agents"].pop()
            w["state"].pop()
            present = {a["enc"] for a in w["agents"]}
            mp = [[e, ([x for x in s if x in present] if isinstance(s, list) else s)] for e, s in d["actor"]["mapping"]
                  if e in present and (isinstance(s, list) or s in present)]
            pre = d.get("pre")
            if pre is not None:
                pre = [[[x for x in c if x != n - 1] for c in pre[0]], pre[1][:-1]]
            yield {**d, "world": w, "actor": {**d["actor"], "mapping": mp}, "pre": pre}


if __name__ == "__main__":
    print(json.dumps({"desc": f6_desc(), "note": "F6"}, indent=1))
