"""ReachTheTargetSim (abmarl/examples/sim/reach_the_target.py) against the model of its own step / getters
(lean/Abmarl/Model/Reach.lean).  Its cases ride in the streams of harness/p_examples.py with `which == "reach"`.

desc as for the other grid examples (p_examples): ops = ["reset", ["health", "position"], tape] |
["step", [[agent, [dr, dc], grid | None, form]...], tape] | ["obs", a, tape] | ["rew", a] | ["done", a] | ["alldone"];
`grid` = the SelectiveAttackActor's Box(0, sim, (W, W), int) flattened row-major (None: no attack channel).
"""
import copy
import json

import compat  # noqa: F401
import numpy as np

import core
import gridw
import mgr
import oracle
import wire
import p_place
from p_attack import fenc

ORDER = ["health", "position"]           # the order ReachTheTargetSim.reset uses


def build(p):
    from abmarl.examples.sim.reach_the_target import ReachTheTargetSim, RunningAgent, TargetAgent, BarrierAgent
    agents = {}
    for i, b in enumerate(p["barriers"]):
        kw = {} if b is None else {"initial_position": np.array(b)}
        agents[f"barrier{i}"] = BarrierAgent(id=f"barrier{i}", **kw)
    for i, r in enumerate(p["runners"]):
        kw = dict(move_range=r["move"], view_range=r["view"])
        if r.get("pos") is not None:
            kw["initial_position"] = np.array(r["pos"])
        if r.get("health") is not None:
            kw["initial_health"] = gridw.fl(r["health"])
        agents[f"runner{i}"] = RunningAgent(id=f"runner{i}", **kw)
    t = p["target"]
    kw = dict(view_range=t["view"], attack_range=t["range"], attack_strength=gridw.fl(t["strength"]),
              attack_accuracy=gridw.fl(t["accuracy"]), simultaneous_attacks=t["sim"])
    if t.get("pos") is not None:
        kw["initial_position"] = np.array(t["pos"])
    if t.get("health") is not None:
        kw["initial_health"] = gridw.fl(t["health"])
    tgt = TargetAgent(**kw)
    if p.get("target_first"):
        agents = {"target": tgt, **agents}
    else:
        agents["target"] = tgt
    kw = dict(agents=agents, overlapping={int(e): set(s) for e, s in p["overlap"]},
              attack_mapping={int(e): set(s) for e, s in p["amap"]})
    if p.get("stacked"):
        kw["stacked_attacks"] = True
    if p.get("no"):
        kw["no_overlap_at_reset"] = True
    return ReachTheTargetSim.build_sim(p["rows"], p["cols"], **kw)


def session(p, scribble=False):
    import p_examples
    from abmarl.examples.sim.reach_the_target import RunningAgent, TargetAgent
    p_examples.BUILD.setdefault("reach", build)

    class RTSession(p_examples.ExSession):
        def __init__(self, p, scribble=False):
            super().__init__("reach", p, 0, scribble=scribble)
            sim = self.sim
            self.states = {"health": sim.health_state, "position": sim.position_state}
            self.comp_names = list(ORDER)
            self.n = len(self.al)

        def cfg_wire(self):
            sim = self.sim
            am = sim.attack_actor.attack_mapping
            att = [[[int(e), sorted(int(x) for x in s)] for e, s in sorted(am.items())],
                   bool(sim.attack_actor.stacked_attacks)]
            return ["reach", self.learning, [self.comp_wire(c) for c in ORDER], att, self.idx[sim.target.id],
                    [i for i, a in enumerate(self.al) if isinstance(a, RunningAgent)],
                    [i for i, a in enumerate(self.al) if isinstance(a, TargetAgent)],
                    bool(getattr(sim.grid_observer, "observe_self", True))]

        def py_action(self, a, move, attack, form):
            ag = self.al[a]
            sp = ag.action_space
            act = {}
            keys = list(sp.spaces.keys()) if hasattr(sp, "spaces") else []
            if form & 4:
                keys = keys[::-1]
            for k in keys:
                if k == "move":
                    act[k] = (np.array(move, dtype=int) if form & 1 == 0 else
                              np.array([[0, 0], move], dtype=np.int64).T[:, 1])
                elif k == "attack":
                    w = 2 * ag.attack_range + 1
                    g = np.array(attack if attack is not None else [0] * (w * w), dtype=int).reshape(w, w)
                    if form & 2:
                        g = np.asfortranarray(g)         # another memory layout, equal values
                    if form & 8:
                        g = g.tolist()                   # a nested list is a member of the Box too (C02-A1)
                    act[k] = g
            return act

        def act_wire(self, acts):
            return [[int(a), [int(m[0]), int(m[1])], [int(x) for x in (g or [])]] for a, m, g, _ in acts]

        def sample(self, rng, a):
            ag = self.al[a]
            spaces = getattr(ag.action_space, "spaces", {})
            move, attack = [0, 0], None
            if "move" in spaces:
                lo, hi = spaces["move"].low, spaces["move"].high
                move = [rng.randint(int(lo[0]), int(hi[0])), rng.randint(int(lo[1]), int(hi[1]))]
            if "attack" in spaces:
                w = 2 * ag.attack_range + 1
                hi = int(ag.simultaneous_attacks)
                attack = [0] * (w * w)
                r = rng.random()
                if r < 0.75:
                    for _ in range(rng.randint(1, 3)):
                        attack[rng.randrange(w * w)] = rng.randint(1, hi)
                    if rng.random() < 0.4:
                        attack[(w * w) // 2] = rng.randint(1, hi)      # its own cell (a runner placed there by reset)
                elif r < 0.85:
                    attack = [rng.randint(0, hi) for _ in range(w * w)]
            return move, attack
    return RTSession(p, scribble)


def gen_params(rng, big=False):
    rows, cols = (rng.randint(2, 5), rng.randint(2, 5)) if not big else (rng.randint(8, 10), rng.randint(8, 10))
    nb = rng.randint(0, min(3, rows * cols - 3)) if not big else rng.randint(8, 14)
    nr = rng.randint(1, 4) if not big else rng.randint(11, 16)
    cells = [[r, c] for r in range(rows) for c in range(cols)]
    rng.shuffle(cells)
    fixed = rng.random() < 0.4
    tpos = cells.pop() if (fixed or rng.random() < 0.3) else None
    runners = []
    for i in range(nr):
        pos = None
        if fixed and cells:
            # sometimes ON the target's cell: allowed by the overlap table (the situation of finding R1, repaired)
            pos = list(tpos) if (tpos is not None and rng.random() < 0.15) else cells.pop()
        runners.append({"move": rng.choice([1, 1, 2]), "view": rng.choice([1, 2, 3]), "pos": pos,
                        "health": rng.choice([None, None, [1, 1], [1, 2], [3, 4]])})
    barriers = [(cells.pop() if (fixed and cells and rng.random() < 0.7) else None) for _ in range(nb)]
    r = rng.random()
    overlap = [[2, [3]], [3, [1, 2, 3]]] if r < 0.6 else ([[2, [3]], [3, [2, 3]]] if r < 0.85 else [[2, [3]], [3, [2]]])
    return {"rows": rows, "cols": cols, "barriers": barriers, "runners": runners,
            "target": {"view": rng.choice([1, 2, max(rows, cols)]), "range": rng.choice([0, 1, 1, 2]),
                       "strength": rng.choice([[1, 1], [1, 1], [1, 2], [1, 4]]),
                       "accuracy": rng.choice([[1, 1], [1, 1], [1, 2], [3, 4]]), "sim": rng.choice([1, 1, 2, 3]),
                       "pos": tpos, "health": rng.choice([None, [1, 1]])},
            "overlap": overlap, "amap": [[2, [3]]] if rng.random() < 0.9 else [[2, [1, 3]]],
            "stacked": rng.random() < 0.2, "no": rng.random() < 0.25, "target_first": rng.random() < 0.3}


def tape_of(rng, n=24):
    return [rng.randrange(4096) for _ in range(n)]


def gen_history(rng, sess, n_ops, episodes, protocol=False):
    """adaptive random history on the real object; `protocol`: only items for agents that are not done (what the
    managers hand on), every such agent included"""
    ops, entries = [], []
    n = len(sess.al)

    def push(op):
        e = sess.do(op)
        ops.append(op)
        entries.append(e)
        return e[0][0] != "err"

    def reset_op():
        return ["reset", list(ORDER), tape_of(rng, 3 * n + 40)]
    ep = 1
    if not push(reset_op()):
        return ops, entries
    while len(ops) < n_ops:
        r = rng.random()
        if r < 0.05 and ep < episodes:
            ep += 1
            if not push(reset_op()):
                break
            continue
        if r < 0.5:
            live = [a for a in sess.actors if sess.al[a].active]
            if protocol:
                who = list(live)
            else:
                who = [a for a in live if rng.random() < 0.85] if rng.random() < 0.5 else list(live)
                dead = [a for a in sess.actors if not sess.al[a].active]
                if dead and rng.random() < 0.15:
                    who.append(rng.choice(dead))       # direct calls may do this (skipped by every loop since the repair of R1)
            rng.shuffle(who)
            acts = []
            for a in who:
                m, g = sess.sample(rng, a)
                acts.append([a, m, g, rng.randrange(16)])
            ok = push(["step", acts, tape_of(rng, 6 * len(acts) + 12)])
        elif r < 0.68:
            ok = push(["obs", rng.choice(sess.actors) if rng.random() < 0.9 else rng.randrange(n), tape_of(rng, 60)])
        elif r < 0.8:
            ok = push(["rew", rng.choice(sess.actors)])
        elif r < 0.92:
            ok = push(["done", rng.randrange(n)])
        else:
            ok = push(["alldone"])
        if not ok:
            break
    return ops, entries


class RTCase(core.Case):
    __slots__ = ("stream",)


def make_case(desc, sess, ops, entries):
    import p_examples
    c = p_examples.make_case(desc, sess, ops, entries)
    tags = [t for t in c.tags]
    tpos = None
    for op, e in zip(ops, entries):
        if e[0][0] == "err" and op[0] == "step" and e[0][1] == "keyError":
            tags.append("rt-step-keyError")
    if len(sess.al) >= 20:
        tags.append("rt-big:20+agents")
    if sum(1 for op in ops if op[0] == "step") >= 150:
        tags.append("rt-long:150+steps")
    c.tags = sorted(set(tags))
    return c


def case_from_desc(d):
    sess = session(copy.deepcopy(d["p"]), scribble=bool(d.get("scribble")))
    other = session(copy.deepcopy(d["p"])) if d.get("twin") else None
    entries = []
    for k, op in enumerate(d["ops"]):
        if other is not None and k % 3 == 1:
            other.do(d["ops"][0] if k < 3 else op)
        e = sess.do(op)
        entries.append(e)
        if e[0][0] == "err":
            break
    return make_case(d, sess, d["ops"][:len(entries)], entries)


def gen_cases(rng, stream, count, quick=True):
    made = 0
    while made < count:
        big = made == 0
        p = gen_params(rng, big=big)
        scribble = rng.random() < 0.15
        try:
            sess = session(copy.deepcopy(p), scribble=scribble)
        except (AssertionError, ValueError, KeyError, TypeError):
            continue
        ops, entries = gen_history(rng, sess, rng.randint(6, 36) if not big else 330, rng.randint(1, 3) if not big else 4,
                                   protocol=rng.random() < 0.4)
        if len(entries) == 1 and entries[0][0][0] == "err" and rng.random() < 0.8:
            continue
        d = {"stream": stream, "which": "reach", "p": p, "ops": ops[:len(entries)]}
        if scribble:
            d["scribble"] = True
        if rng.random() < 0.25 and not big:
            d["twin"] = True
            yield case_from_desc(d)
        else:
            yield make_case(d, sess, ops, entries)
        made += 1


def interpret(reply, case):
    import p_examples
    return p_examples._interpret(reply, case)


def shrink_candidates(d):
    import p_examples
    yield from p_examples._shrink_candidates(d)


# ----------------------------------------------------------------------------------------------
# managers over the real object

def mgr_session(d):
    import p_examples

    class RTMgrSession(p_examples.MgrSession):
        def __init__(self, d):
            from abmarl.managers import AllStepManager, TurnBasedManager
            self.d = d
            self.sess = session(copy.deepcopy(d["p"]))
            sim = self.sess.sim
            self.log = p_examples._Logged(self.sess)
            self.mgr = AllStepManager(sim, randomize_action_input=bool(d["shuffle"])) if d["kind"] == 0 \
                else TurnBasedManager(sim)
            self.stape = oracle.Tape(d["stape"])
            self.mtape = oracle.Tape(d["mtape"])
            self.trace, self.ops = [], []
            self.last = None
            self.dead = False

        def sim_args(self, logged):
            s = self.sess
            out = []
            for k, v in logged:
                g = v.get("attack")
                out.append([s.idx[k], [int(v["move"][0]), int(v["move"][1])] if "move" in v else [0, 0],
                            [] if g is None else [int(x) for x in np.array(g).reshape(-1)]])
            return out
    return RTMgrSession(d)


def mgr_case(d, ms):
    import p_examples
    return p_examples.mgr_case(d, ms)


def mgr_case_from_desc(d):
    ms = mgr_session(d)
    for op in d["ops"]:
        if ms.dead:
            break
        ms.apply(op)
    return mgr_case(d, ms)


def gen_mgr_cases(rng, count):
    made = 0
    while made < count:
        p = gen_params(rng, big=(made == 0))
        kind = rng.randrange(2)
        shuffle = kind == 0 and rng.random() < 0.5
        d = {"stream": "example-mgr", "which": "reach", "p": p, "order": 0, "kind": kind, "shuffle": shuffle,
             "mtape": [rng.randrange(1000) for _ in range(400)] if shuffle else [],
             "stape": [rng.randrange(4096) for _ in range(1200)]}
        try:
            ms = mgr_session(d)
        except (AssertionError, ValueError, KeyError, TypeError):
            continue
        s = ms.sess
        episodes, ep = rng.randint(1, 3), 0
        max_ops = rng.randint(3, 18) if made else 170
        reported = set()
        st, _ = ms.apply(["r"])
        ep += 1
        while st == "ok" and len(ms.ops) < max_ops and not ms.dead and ms.last is not None:
            lk, val = ms.last
            over = lk == "s" and val[2].get("__all__")
            if over or rng.random() < 0.05:
                if ep >= episodes:
                    break
                ms.apply(["r"])
                reported = set()
                ep += 1
                continue
            if lk == "r":
                live = [s.idx[k] for k in val]
            else:
                for k, dn in val[2].items():
                    if k != "__all__" and dn:
                        reported.add(s.idx[k])
                live = [s.idx[k] for k, dn in val[2].items() if k != "__all__" and not dn]
            if kind == 1:
                who = live[-1:]
            else:
                who = [a for a in live if rng.random() < 0.85] if rng.random() < 0.3 else list(live)
            if rng.random() < 0.1 and reported:
                who = who + [rng.choice(sorted(reported))]
            rng.shuffle(who)
            acts = []
            for a in who:
                m, g = s.sample(rng, a)
                acts.append([a, m, g, rng.randrange(16)])
            ms.apply(["s", acts])
        if not ms.trace or (ms.trace[0][0][0] == "e" and rng.random() < 0.8):
            continue
        made += 1
        yield mgr_case(d, ms)


# ----------------------------------------------------------------------------------------------
# C08: used versus fresh twin

def twin_case(d):
    import p_examples
    return p_examples._twin_case(d, session_of=lambda dd: session(copy.deepcopy(dd["p"])), make=make_case)


def gen_twin_cases(rng, count):
    made = 0
    while made < count:
        p = gen_params(rng)
        try:
            used = session(copy.deepcopy(p))
        except (AssertionError, ValueError, KeyError, TypeError):
            continue
        pops, pent = gen_history(rng, used, rng.randint(1, 24), rng.randint(1, 3))
        if pent and pent[-1][0][0] == "err" and rng.random() < 0.9:
            continue
        fops, fent = gen_history(rng, used, rng.randint(2, 12), 1)
        made += 1
        yield twin_case({"layer": "example", "which": "reach", "p": p, "order": 0, "pops": pops[:len(pent)],
                         "fops": fops[:len(fent)]})


RULE = (" ReachTheTargetSim (`which: reach`, model lean/Abmarl/Model/Reach.lean) rides in the same streams: grids 2x2 "
        ".. 5x5 (first case of every run: 8-10 x 8-10, 11-16 runners, 8-14 barriers, 330 calls of which 150+ steps, "
        "4 episodes), 1-4 runners with move ranges 1-2 and initial healths, 0-3 barriers, the target with attack range "
        "0-2, strengths 1/4..1, accuracies 1/2..1 and 1-3 simultaneous attacks, three overlap tables, fixed and "
        "random initial positions (runners sometimes ON the target's cell), the attack grid as C / Fortran array or "
        "nested list, 40% of the histories as the managers would play them (every live agent acts), the others with "
        "subsets, dead runners' items and killable barriers (the situations of the repaired findings R1 / R2: in-domain "
        "cases now); judged by RT.specRT (WInv after reset, WInvWeak after step, observations in the declared space, "
        "getters change nothing, read-and-reset rewards, the class's done rules, and a step whose items are points of "
        "the declared action spaces of learning agents does not raise).")
