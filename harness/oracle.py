"""The oracle tape (DESIGN.md §3.1): scripted replacements for numpy.random / random.

Within `with scripted(tape):` the functions Abmarl draws randomness from pop naturals from
`tape` (a list of ints) left to right.  The Lean module Abmarl/Model/Oracle.lean defines the
same consumers, so model and implementation see the same draws.  An exhausted tape yields 0s
(the Lean side does the same with `headD 0`).
"""
import contextlib
import random as _random
from fractions import Fraction

import numpy as np


class Tape:
    def __init__(self, values, health_open=True):
        self.values = list(values)
        self.pos = 0
        self.health_open = health_open   # uniform(0,1) never returns exactly 0 (regular stream)
        self.calls = []                  # (kind, args summary) log, for evidence/debugging

    def pop(self):
        if self.pos < len(self.values):
            v = self.values[self.pos]
        else:
            v = 0
        self.pos += 1
        return v

    # --- consumers ---------------------------------------------------------------------------
    def uniform(self, low=None, high=None, size=None):
        assert size is None, "oracle: uniform with size is not used by abmarl"
        v = self.pop()
        if low is None and high is None:
            self.calls.append("uniform()")
            return (v % 1024) / 1024.0
        if (low, high) != (0, 1):
            # any other bounds (BroadcastingState.reset draws uniform(-1, 1)): low + (high - low) (v mod 1024)/1024, numpy's
            # half-open range; Lean: Oracle.uniformLH
            self.calls.append(f"uniform({low},{high})")
            return low + (high - low) * ((v % 1024) / 1024.0)
        self.calls.append("uniform(0,1)")
        if self.health_open:
            return (v % 1023 + 1) / 1024.0
        return (v % 1024) / 1024.0

    def randint(self, low, high=None, size=None, dtype=int):
        assert size is None
        if high is None:
            low, high = 0, low
        if np.ndim(high) == 0 and np.ndim(low) == 0:
            v = self.pop()
            self.calls.append("randint")
            return int(low) + v % (int(high) - int(low))
        lo = np.broadcast_to(np.asarray(low), np.shape(high))
        hi = np.asarray(high)
        out = np.zeros(hi.shape, dtype=int)
        flat_lo, flat_hi = lo.reshape(-1), hi.reshape(-1)
        flat = out.reshape(-1)
        for i in range(flat.size):
            v = self.pop()
            flat[i] = int(flat_lo[i]) + v % (int(flat_hi[i]) - int(flat_lo[i]))
        self.calls.append("randint[]")
        return flat.reshape(hi.shape)

    def choice(self, a, size=None, replace=True, p=None):
        assert p is None
        if isinstance(a, (int, np.integer)):
            arr = np.arange(a)
        else:
            # mimic numpy: np.array(a); lists of agent objects become object arrays
            arr = np.array(a) if not isinstance(a, np.ndarray) else a
            if arr.ndim != 1:
                # numpy would raise for non-1-d input; lists of objects are 1-d object arrays
                objs = np.empty(len(a), dtype=object)
                for i, x in enumerate(a):
                    objs[i] = x
                arr = objs
        n = len(arr)
        if n == 0:
            raise ValueError("a cannot be empty unless no samples are taken")
        if size is None:
            v = self.pop()
            self.calls.append("choice")
            return arr[v % n]
        k = int(size)
        if replace:
            idx = [self.pop() % n for _ in range(k)]
        else:
            if k > n:
                raise ValueError("Cannot take a larger sample than population when 'replace=False'")
            pool = list(range(n))
            idx = []
            for _ in range(k):
                v = self.pop()
                idx.append(pool.pop(v % len(pool)))
        self.calls.append(f"choice[{k},{'r' if replace else 'n'}]")
        return arr[idx] if k > 0 else arr[:0]

    def shuffle(self, x):
        """selection shuffle: repeatedly move element (v mod len) of what is left to the output"""
        rest = list(x)
        out = []
        while rest:
            v = self.pop()
            out.append(rest.pop(v % len(rest)))
        x[:] = out
        self.calls.append("shuffle")


@contextlib.contextmanager
def scripted(tape):
    """Patch numpy.random.{uniform,choice,randint} and random.shuffle to read from `tape`."""
    if not isinstance(tape, Tape):
        tape = Tape(tape)
    saved = (np.random.uniform, np.random.choice, np.random.randint, _random.shuffle)
    np.random.uniform = tape.uniform
    np.random.choice = tape.choice
    np.random.randint = tape.randint
    _random.shuffle = tape.shuffle
    try:
        yield tape
    finally:
        np.random.uniform, np.random.choice, np.random.randint, _random.shuffle = saved


def frac(x):
    """exact rational of a float that the harness produced (dyadic)"""
    return Fraction(x)
