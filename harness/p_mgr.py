"""C01 (done protocol) and C07 (fair turns, progress): real managers over the scripted stub."""
import json

import core
import mgr
import wire


class MgrProp(core.Prop):
    def __init__(self, pid):
        self.pid = pid
        self.spec_idx = {"C01": 0, "C07": 1}[pid]
        self.lean_targets = ["Abmarl.Props." + pid]
        self.rule = ("histories of resets and steps played on the real AllStep/TurnBased/DynamicOrder managers over the "
                     "scripted stub simulation (exhaustive small scripts x adaptive action patterns, then seeded random "
                     "scripts/histories); distinct by (manager, script, concrete ops); non-trivial = at least one agent "
                     "or the simulation finishes during the history")
        self.assumptions = [
            "theorems quantify over every SimIface whose getters satisfy the stated frame conditions; the differential "
            "test drives the scripted stub family only",
            "a hang of the real code is observed through a 5 s watchdog",
        ]

    # -- cases ------------------------------------------------------------------------------
    def _case(self, kind, shuffle, script, tape, sess, origin="gen"):
        line = mgr.request_line(kind, shuffle, script, tape, sess.ops, sess.trace)
        impl = wire.enc(sess.trace)
        desc = {"kind": kind, "shuffle": bool(shuffle), "script": script, "tape": list(tape), "ops": sess.ops}
        finishes = any(e[0][0] == "s" and (e[0][5] or any(d for _, d in e[0][3])) for e in sess.trace)
        tags = [mgr.KINDS[kind]]
        for e in sess.trace:
            r = e[0]
            if r[0] == "e":
                tags.append("err:" + r[1])
            elif r[0] == "s" and r[5]:
                tags.append("allDone")
        tags.append("eps:%d" % sum(1 for o in sess.ops if o[0] == "r"))
        return core.Case(desc, line, impl, key=json.dumps([kind, shuffle, script, sess.ops], sort_keys=True),
                         nontrivial=finishes, tags=tags, origin=origin)

    def case_from_desc(self, desc):
        sess = mgr.run_concrete(desc["kind"], desc["shuffle"], desc["script"], desc["tape"], desc["ops"])
        return self._case(desc["kind"], desc["shuffle"], desc["script"], desc["tape"], sess)

    def cases(self, tier, rng):
        quick = tier == "quick"
        # exhaustive small scripts, three adaptive action policies each
        ml, mn, mt = (2, 1, 2) if quick else (3, 1, 3)
        for script in mgr.exhaustive_scripts(ml, mn, mt):
            for kind in (0, 1, 2):
                for pol in range(3):
                    sess = mgr.gen_history(_FixedRng(pol), kind, False, script, [], max_ops=mt + 4, episodes=2,
                                           p_bad=[0.0, 1.0, 0.34][pol], p_reset=0.0)
                    yield self._case(kind, False, script, [], sess)
        nrand = 3000 if quick else 100000
        for i in range(nrand):
            kind = rng.randrange(3)
            shuffle = kind == 0 and rng.random() < 0.4
            script = mgr.gen_script(rng, allow_big=True)
            tape = [rng.randrange(1000) for _ in range(rng.randint(0, 40))] if shuffle else []
            long = script["n"] >= 11 or rng.random() < 0.03       # a few long histories: 50+ steps, 4+ episodes
            if long and shuffle:
                tape = [rng.randrange(1000) for _ in range(600)]
            sess = mgr.gen_history(rng, kind, shuffle, script, tape,
                                   max_ops=rng.randint(40, 80) if long else rng.randint(2, 14),
                                   episodes=rng.randint(3, 6) if long else rng.randint(1, 3))
            yield self._case(kind, shuffle, script, tape, sess)

    # -- verdict ----------------------------------------------------------------------------
    def interpret(self, reply, case):
        trace, m1, m7, i1, i7 = reply
        ms = [m1, m7][self.spec_idx]
        is_ = [i1, i7][self.spec_idx]
        if is_ not in (0, 1):
            raise ValueError("driver could not parse the implementation trace")
        return core.Verdict(wire.enc(trace), ms == 1, is_ == 1)

    def shrink_candidates(self, desc):
        ops = desc["ops"]
        # drop a suffix, drop one op, drop one action, drop an agent's schedule complexity
        for k in range(len(ops) - 1, 0, -1):
            yield dict(desc, ops=ops[:k])
        for i in range(1, len(ops)):
            yield dict(desc, ops=ops[:i] + ops[i + 1:])
        for i, op in enumerate(ops):
            if op[0] == "s" and len(op[1]) > 1:
                for j in range(len(op[1])):
                    yield dict(desc, ops=ops[:i] + [["s", op[1][:j] + op[1][j + 1:]]] + ops[i + 1:])
        sc = desc["script"]
        if sc["noms"]:
            yield dict(desc, script=dict(sc, noms=[]))


class _FixedRng:
    """deterministic pseudo-choices for the exhaustive part (policy index selects the pattern)"""

    def __init__(self, pol):
        import random
        self.r = random.Random(pol)

    def __getattr__(self, name):
        return getattr(self.r, name)
