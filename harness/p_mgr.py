"""C01 (done protocol) and C07 (fair turns, progress): real managers over the scripted stub."""
import json

import core
import mgr
import wire
import p_examples


class MgrProp(core.Prop):
    def __init__(self, pid):
        self.pid = pid
        self.spec_idx = {"C01": 0, "C07": 1}[pid]
        self.lean_targets = ["Abmarl.Props." + pid, "Abmarl.Props.Examples"]
        self.rule = ("histories of resets and steps played on the real AllStep/TurnBased/DynamicOrder managers over the "
                     "scripted stub simulation (exhaustive small scripts x adaptive action patterns, then seeded random "
                     "scripts/histories); distinct by (manager, script, concrete ops); non-trivial = at least one agent "
                     "or the simulation finishes during the history. Stream `example-mgr`: the real AllStepManager "
                     "(with and without randomize_action_input) and TurnBasedManager over REAL TeamBattleSim / "
                     "PredatorPreyResourcesSim / MazeNavigationSim / MultiMazeNavigationSim / TrafficCorridorSimulation "
                     "objects (random sizes, team layouts, agent mixes), 1-3 episodes on one object under the scripted "
                     "oracle, actions sampled from the declared action spaces, sometimes an action for an agent "
                     "already reported done; the trace (outputs, what sim.step was called with, the reward dict right "
                     "after sim.step and after the call, done flags) is compared with the manager model over the "
                     "MODEL of the example (op `mgrx`) and judged by specC01 / specC07 exactly as for the stub"
                     + (p_examples.RULE if pid == "C01" else ""))
        self.assumptions = [
            "theorems quantify over every SimIface whose getters satisfy the stated frame conditions; the differential "
            "test drives the scripted stub family only",
            "a hang of the real code is observed through a 5 s watchdog",
            "example-mgr: a call in which the SIMULATION itself raises (a reset that finds no cell) ends the history "
            "before that call (the manager model's simulation is total; the direct-call stream covers those calls)",
        ] + (p_examples.ASSUMPTIONS if pid == "C01" else [])

    # -- cases ------------------------------------------------------------------------------
    def _case(self, kind, shuffle, script, tape, sess, origin="gen"):
        line = mgr.request_line(kind, shuffle, script, tape, sess.ops, sess.trace)
        impl = wire.enc(sess.trace)
        desc = {"kind": kind, "shuffle": bool(shuffle), "script": script, "tape": list(tape), "ops": sess.ops}
        if kind == 1 and getattr(sess, "sim", None) is not None and hasattr(sess, "mgr"):
            what = mgr.reordering_reset(sess)
            if what:
                self.runtime_failures = getattr(self, "runtime_failures", [])
                self.runtime_failures.append((what, dict(desc, after_history="reordering_reset")))
        if kind == 0 and getattr(sess, "sim", None) is not None and hasattr(sess, "mgr"):
            what = mgr.faulting_last_step(sess)
            if what:
                self.runtime_failures = getattr(self, "runtime_failures", [])
                self.runtime_failures.append((what, dict(desc, after_history="faulting_last_step")))
        finishes = any(e[0][0] == "s" and (e[0][5] or any(d for _, d in e[0][3])) for e in sess.trace)
        tags = [mgr.KINDS[kind]]
        for e in sess.trace:
            r = e[0]
            if r[0] == "e":
                tags.append("err:" + r[1])
            elif r[0] == "s" and r[5]:
                tags.append("allDone")
        tags.append("eps:%d" % sum(1 for o in sess.ops if o[0] == "r"))
        return core.Case(desc, line, impl, key=json.dumps([kind, shuffle, script, sess.ops], sort_keys=True),
                         nontrivial=finishes, tags=tags, origin=origin)

    def runtime_failures_of_replay(self):
        return list(getattr(self, "runtime_failures", []))

    def extra_checks(self, tier, rng, report):
        seen = set()
        for what, desc in getattr(self, "runtime_failures", []):
            if what.split(":")[0] not in seen:
                seen.add(what.split(":")[0])
                report.runtime_failure(what, desc)
        report.notes["interrupted_step_failures"] = len(getattr(self, "runtime_failures", []))

    def case_from_desc(self, desc):
        if desc.get("stream") == "example-mgr":
            return p_examples.mgr_case_from_desc(desc)
        if desc.get("stream") == "example-modelled":
            return p_examples.case_from_desc(desc)
        sess = mgr.run_concrete(desc["kind"], desc["shuffle"], desc["script"], desc["tape"], desc["ops"])
        return self._case(desc["kind"], desc["shuffle"], desc["script"], desc["tape"], sess)

    def cases(self, tier, rng):
        quick = tier == "quick"
        # exhaustive small scripts, three adaptive action policies each
        ml, mn, mt = (2, 1, 2) if quick else (3, 1, 3)
        for script in mgr.exhaustive_scripts(ml, mn, mt):
            for kind in (0, 1, 2):
                for pol in range(3):
                    sess = mgr.gen_history(_FixedRng(pol), kind, False, script, [], max_ops=mt + 4, episodes=2,
                                           p_bad=[0.0, 1.0, 0.34][pol], p_reset=0.0)
                    yield self._case(kind, False, script, [], sess)
        nrand = 3000 if quick else 100000
        for i in range(nrand):
            kind = rng.randrange(3)
            shuffle = kind == 0 and rng.random() < 0.4
            script = mgr.gen_script(rng, allow_big=True)
            tape = [rng.randrange(1000) for _ in range(rng.randint(0, 40))] if shuffle else []
            long = script["n"] >= 11 or rng.random() < 0.03       # a few long histories: 50+ steps, 4+ episodes
            if long and shuffle:
                tape = [rng.randrange(1000) for _ in range(600)]
            sess = mgr.gen_history(rng, kind, shuffle, script, tape,
                                   max_ops=rng.randint(40, 80) if long else rng.randint(2, 14),
                                   episodes=rng.randint(3, 6) if long else rng.randint(1, 3))
            yield self._case(kind, shuffle, script, tape, sess)
        # what the small scopes never reach: several hundred agents (more than 256) ending through per-agent done flags
        for kind in ((0, 1) if quick else (0, 1, 2, 0)):
            n = rng.randint(257, 262)
            script = {"n": n, "learning": [True] * n, "doneAt": [rng.choice([1, 2]) for _ in range(n)],
                      "finishAt": 1000000, "noms": [], "plainIds": rng.random() < 0.5}
            sess = mgr.gen_history(rng, kind, False, script, [], max_ops=6 if kind == 0 else 40, episodes=2, p_bad=0.0,
                                   p_reset=0.0)
            yield self._case(kind, False, script, [], sess)
        # ... and more than a thousand: turn-based, everybody but the first and the last agent finishes on the first
        # action, so the second round walks past 1000+ finished agents in ONE call (a walk that must be a loop)
        for _ in range(1 if quick else 3):
            n = rng.randint(1040, 1100)
            script = {"n": n, "learning": [True] * n, "doneAt": [3] + [1] * (n - 2) + [3],
                      "finishAt": 1000000, "noms": [], "plainIds": rng.random() < 0.5}
            sess = mgr.gen_history(rng, 1, False, script, [], max_ops=n + 8, episodes=1, p_bad=0.0, p_reset=0.0)
            yield self._case(1, False, script, [], sess)
        # the packaged examples that are modelled: real managers over real example objects ...
        yield from p_examples.gen_mgr_cases(rng, 260 if quick else 6000)
        if self.pid == "C01":
            # ... and direct calls on them, judged WITH the read-and-reset clause of get_reward
            yield from p_examples.gen_cases(rng, "example-modelled", 250 if quick else 5000, quick)

    # -- verdict ----------------------------------------------------------------------------
    def interpret(self, reply, case):
        if case.desc.get("stream") == "example-mgr":
            return p_examples.mgr_interpret(reply, case, self.spec_idx)
        if case.desc.get("stream") == "example-modelled":
            return p_examples.interpret(reply, case)
        trace, m1, m7, i1, i7 = reply
        ms = [m1, m7][self.spec_idx]
        is_ = [i1, i7][self.spec_idx]
        if is_ not in (0, 1):
            raise ValueError("driver could not parse the implementation trace")
        return core.Verdict(wire.enc(trace), ms == 1, is_ == 1)

    def shrink_candidates(self, desc):
        if desc.get("stream") == "example-mgr":
            yield from p_examples.mgr_shrink_candidates(desc)
            return
        if desc.get("stream") == "example-modelled":
            yield from p_examples.shrink_candidates(desc)
            return
        ops = desc["ops"]
        # drop a suffix, drop one op, drop one action, drop an agent's schedule complexity
        for k in range(len(ops) - 1, 0, -1):
            yield dict(desc, ops=ops[:k])
        for i in range(1, len(ops)):
            yield dict(desc, ops=ops[:i] + ops[i + 1:])
        for i, op in enumerate(ops):
            if op[0] == "s" and len(op[1]) > 1:
                for j in range(len(op[1])):
                    yield dict(desc, ops=ops[:i] + [["s", op[1][:j] + op[1][j + 1:]]] + ops[i + 1:])
        sc = desc["script"]
        if sc["noms"]:
            yield dict(desc, script=dict(sc, noms=[]))


class _FixedRng:
    """deterministic pseudo-choices for the exhaustive part (policy index selects the pattern)"""

    def __init__(self, pol):
        import random
        self.r = random.Random(pol)

    def __getattr__(self, name):
        return getattr(self.r, name)
