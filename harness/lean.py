"""Building the Lean project and talking to the compiled driver."""
import os
import re
import subprocess
import json

VERIF = os.path.dirname(os.path.dirname(os.path.abspath(__file__)))
LEAN = os.path.join(VERIF, "lean")
DRIVER = os.path.join(LEAN, ".lake", "build", "bin", "driver")

ALLOWED_AXIOMS = {"propext", "Classical.choice", "Quot.sound"}
FORBIDDEN = re.compile(r"\bsorry\b|\badmit\b|^\s*axiom\s|native_decide|bv_decide|implemented_by|\bunsafe\s|maxHeartbeats\s+0")


class LeanFailure(Exception):
    pass


def build(targets):
    """lake build (incremental; no-op when clean). Returns (ok, log)."""
    p = subprocess.run(["lake", "build"] + list(targets), cwd=LEAN, capture_output=True, text=True)
    return p.returncode == 0, (p.stdout + p.stderr)


def obligations(pid):
    with open(os.path.join(LEAN, "obligations.json")) as f:
        return json.load(f)[pid]


def extra_modules(pid):
    """further modules holding theorems of the property (top-level key "_imports" of obligations.json); the audit
    file imports them, so they are built with the property's own targets"""
    with open(os.path.join(LEAN, "obligations.json")) as f:
        return list(json.load(f).get("_imports", {}).get(pid, []))


def strip_comments(src):
    # remove /- ... -/ (nested not handled beyond one level, good enough for grep) and -- ...
    out, depth, i = [], 0, 0
    while i < len(src):
        if src.startswith("/-", i):
            depth += 1
            i += 2
        elif src.startswith("-/", i) and depth > 0:
            depth -= 1
            i += 2
        elif depth > 0:
            if src[i] == "\n":
                out.append("\n")
            i += 1
        elif src.startswith("--", i):
            while i < len(src) and src[i] != "\n":
                i += 1
        else:
            out.append(src[i])
            i += 1
    return "".join(out)


def grep_forbidden():
    """Scan every .lean file of the project (comments stripped) for forbidden constructs."""
    hits = []
    for root, dirs, files in os.walk(LEAN):
        dirs[:] = [d for d in dirs if d != ".lake"]
        for fn in files:
            if fn.endswith(".lean"):
                path = os.path.join(root, fn)
                for ln, line in enumerate(strip_comments(open(path).read()).split("\n"), 1):
                    if FORBIDDEN.search(line):
                        hits.append(f"{os.path.relpath(path, LEAN)}:{ln}: {line.strip()}")
    return hits


def audit(pid):
    """Run Abmarl/Audit/<pid>.lean; return dict theorem -> list of axioms (or None if missing)."""
    path = os.path.join("Abmarl", "Audit", pid + ".lean")
    p = subprocess.run(["lake", "env", "lean", path], cwd=LEAN, capture_output=True, text=True)
    out = p.stdout + p.stderr
    res = {}
    # "'Abmarl.foo' depends on axioms: [propext, Quot.sound]"  /  "'Abmarl.foo' does not depend on any axioms"
    for m in re.finditer(r"'([^']+)' depends on axioms: \[([^\]]*)\]", out):
        res[m.group(1)] = [a.strip() for a in m.group(2).replace("\n", " ").split(",") if a.strip()]
    for m in re.finditer(r"'([^']+)' does not depend on any axioms", out):
        res[m.group(1)] = []
    return res, out, p.returncode


def leanchecker(modules):
    p = subprocess.run(["lake", "env", "leanchecker"] + list(modules), cwd=LEAN, capture_output=True, text=True)
    return p.returncode == 0, p.stdout + p.stderr


def run_driver(lines, timeout=1800):
    """Pipe request lines to the compiled driver; return the reply lines."""
    if not os.path.exists(DRIVER):
        raise LeanFailure("driver executable missing: " + DRIVER)
    data = "\n".join(lines) + "\n"
    p = subprocess.run([DRIVER], input=data, capture_output=True, text=True, timeout=timeout)
    if p.returncode != 0:
        raise LeanFailure("driver failed: " + p.stderr[-2000:])
    out = p.stdout.split("\n")
    if out and out[-1] == "":
        out.pop()
    if len(out) != len(lines):
        raise LeanFailure(f"driver returned {len(out)} lines for {len(lines)} requests")
    return out
