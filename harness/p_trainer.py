"""C16: generate_episode of the real trainers over real managers over the scripted stub."""
import json
import random
import shutil
import tempfile

import compat  # noqa: F401
from gymnasium.spaces import Discrete, MultiDiscrete

import core
import mgr
import poke
import wire
from oracle import scripted, Tape
from stub_sim import StubSim, script_to_wire

from abmarl.policies.policy import Policy
from abmarl.trainers import MultiPolicyTrainer, SinglePolicyTrainer, DebugTrainer


def pol_act(pid, obs):
    return (3 * obs[1] + obs[2] + obs[3] + pid) % 10


class CountingPolicy(Policy):
    def __init__(self, pid, log, **kw):
        super().__init__(**kw)
        self.pid, self.log = pid, log

    def compute_action(self, obs, **kwargs):
        act = pol_act(self.pid, obs)
        self.log.append([int(obs[2]), self.pid, [int(x) for x in obs], act])
        return act

    def update(self, *a, **k):
        pass


class PlainMulti(MultiPolicyTrainer):
    def train(self, *a, **k):
        pass


class PlainSingle(SinglePolicyTrainer):
    def train(self, *a, **k):
        pass


def instrument(manager, sim, trace, qlog, queries):
    """record every manager call as (op, entry) and close the query list of each iteration"""
    real_reset, real_step = manager.reset, manager.step

    def reset(**kw):
        lb, pb = len(sim.step_log), list(sim.pend)
        try:
            val = real_reset(**kw)
        except AssertionError:
            trace.append([["r"], mgr.entry_of(sim, "rejected", None, True, lb, pb)])
            raise
        trace.append([["r"], mgr.entry_of(sim, "ok", val, True, lb, pb)])
        return val

    def step(action_dict, **kw):
        queries.append(list(qlog))
        del qlog[:]
        lb, pb = len(sim.step_log), list(sim.pend)
        op = ["s", [[sim.idx[k], int(v)] for k, v in action_dict.items()]]
        try:
            val = real_step(action_dict, **kw)
        except AssertionError:
            trace.append([op, mgr.entry_of(sim, "rejected", None, False, lb, pb)])
            raise
        except Exception:
            trace.append([op, mgr.entry_of(sim, "crash", None, False, lb, pb)])
            raise
        trace.append([op, mgr.entry_of(sim, "ok", val, False, lb, pb)])
        return val

    manager.reset, manager.step = reset, step


def run_episode(kind, script, horizon, pm, tkind, tmpdir):
    sim = StubSim(script)
    manager = mgr.make_manager(kind, sim, False)
    trace, qlog, queries = [], [], []
    instrument(manager, sim, trace, qlog, queries)
    spaces = dict(action_space=Discrete(10), observation_space=MultiDiscrete([1000] * 4))
    warm = script.get("warm")
    if warm is not None:
        # a history: the trainer object has already generated an episode with ANOTHER simulation, other policy
        # objects (same names) and another mapping; everything is then replaced through the public setters
        wr = random.Random(warm)
        sc0 = {k: v for k, v in script.items() if k not in ("warm", "shadow", "undoneAt")}
        sc0["doneAt"] = [wr.choice([1, 2, 3, mgr.NEVER]) for _ in range(script["n"])]
        sc0["finishAt"] = wr.choice([2, 3, mgr.NEVER])
        sim0 = StubSim(sc0)
        manager0 = mgr.make_manager(kind, sim0, False)
        pm0 = [wr.randrange(3) for _ in range(script["n"])]
        wlog = []
    if tkind == "single":
        if warm is not None:
            trainer = PlainSingle(sim=manager0, policy=CountingPolicy(7, wlog, **spaces))
            mgr.guarded(lambda: trainer.generate_episode(horizon=wr.randint(1, 4)), seconds=10)
            trainer.sim = manager
            trainer.policy = CountingPolicy(0, qlog, **spaces)
        else:
            trainer = PlainSingle(sim=manager, policy=CountingPolicy(0, qlog, **spaces))
        pm = [0] * script["n"]
    else:
        pids = sorted(set(pm))
        policies = {f"p{p}": CountingPolicy(p, qlog, **spaces) for p in pids}
        fn = lambda aid: f"p{pm[sim.idx[aid]]}"  # noqa: E731
        cls = PlainMulti if tkind == "multi" else DebugTrainer
        kw = {} if tkind == "multi" else {"output_dir": tmpdir}
        if warm is not None:
            policies0 = {f"p{p}": CountingPolicy(p + 5, wlog, **spaces) for p in sorted(set(pm0) | set(pids))}
            fn0 = lambda aid: f"p{pm0[sim0.idx[aid]]}"  # noqa: E731
            trainer = cls(sim=manager0, policies=policies0, policy_mapping_fn=fn0, **kw)
            mgr.guarded(lambda: trainer.generate_episode(horizon=wr.randint(1, 4)), seconds=10)
            trainer.sim = manager
            trainer.policies = policies
            trainer.policy_mapping_fn = fn
        else:
            trainer = cls(sim=manager, policies=policies, policy_mapping_fn=fn, **kw)
    poke.rejected(trainer, [script, tkind, horizon], share=2)
    st, val = mgr.guarded(lambda: trainer.generate_episode(horizon=horizon), seconds=10)
    err = [] if st == "ok" else [st]
    if st == "ok":
        observations, actions, rewards, dones = val
        alld = [bool(x) for x in dones.get("__all__", [])]
        rec = [[[sim.idx[k], [[int(x) for x in o] for o in v]] for k, v in observations.items()],
               [[sim.idx[k], [int(x) for x in v]] for k, v in actions.items()],
               [[sim.idx[k], [int(x) for x in v]] for k, v in rewards.items()],
               [[sim.idx[k], [bool(x) for x in v]] for k, v in dones.items() if k != "__all__"],
               alld, trace, queries, err]
    else:
        rec = [[], [], [], [], [], trace, queries, err]
    return rec, pm


def run_train(kind, script, horizon, pm, iterations, tmpdir):
    """DebugTrainer.train(iterations, horizon=h): returns one record per generated episode"""
    sim = StubSim(script)
    manager = mgr.make_manager(kind, sim, False)
    trace, qlog, queries = [], [], []
    instrument(manager, sim, trace, qlog, queries)
    spaces = dict(action_space=Discrete(10), observation_space=MultiDiscrete([1000] * 4))
    pids = sorted(set(pm))
    policies = {f"p{p}": CountingPolicy(p, qlog, **spaces) for p in pids}
    fn = lambda aid: f"p{pm[sim.idx[aid]]}"  # noqa: E731
    trainer = DebugTrainer(sim=manager, policies=policies, policy_mapping_fn=fn, output_dir=tmpdir)
    recs = []
    real_gen = trainer.generate_episode

    def gen(**kw):
        t0, q0 = len(trace), len(queries)
        observations, actions, rewards, dones = real_gen(**kw)
        alld = [bool(x) for x in dones.get("__all__", [])]
        recs.append([[[sim.idx[k], [[int(x) for x in o] for o in v]] for k, v in observations.items()],
                     [[sim.idx[k], [int(x) for x in v]] for k, v in actions.items()],
                     [[sim.idx[k], [int(x) for x in v]] for k, v in rewards.items()],
                     [[sim.idx[k], [bool(x) for x in v]] for k, v in dones.items() if k != "__all__"],
                     alld, trace[t0:], queries[q0:], []])
        return observations, actions, rewards, dones

    trainer.generate_episode = gen
    import io
    import contextlib
    with contextlib.redirect_stdout(io.StringIO()):
        st, val = mgr.guarded(lambda: trainer.train(iterations=iterations, horizon=horizon), seconds=20)
    return recs, st


class TrainerProp(core.Prop):
    pid = "C16"
    lean_targets = ["Abmarl.Props.C16"]
    rule = ("generate_episode of SinglePolicyTrainer / MultiPolicyTrainer / DebugTrainer with counting policies over the "
            "real managers over the scripted stub: exhaustive small done schedules x horizons {0, shorter, equal, longer} "
            "x mappings, then seeded random; distinct by (manager, script, horizon, mapping, trainer kind); non-trivial = "
            "an agent or the simulation finishes before the horizon")
    assumptions = ["the policy is a pure function of (policy id, observation); learning updates are out of scope"]

    def __init__(self):
        self.tmp = None

    def _case(self, kind, script, horizon, pm, tkind):
        rec, pm2 = run_episode(kind, script, horizon, pm, tkind, self.tmp)
        line = wire.enc(["trainer", kind, script_to_wire(script), horizon, pm2, rec])
        desc = {"kind": kind, "script": script, "horizon": horizon, "pmap": pm, "trainer": tkind}
        steps = len(rec[5]) - 1
        fin = any(e[1][0][0] == "s" and (e[1][0][5] or any(d for _, d in e[1][0][3])) for e in rec[5])
        tags = [mgr.KINDS[kind], tkind, "h0" if horizon == 0 else ("early" if steps < horizon else "horizon")]
        if script.get("warm") is not None:
            tags.append("trainer-reused-after-setters")
        if script.get("npFlags"):
            tags.append("numpy-bool-flags")
        if rec[7]:
            tags.append("exc:" + rec[7][0])
        return core.Case(desc, line, wire.enc(rec), key=json.dumps(desc, sort_keys=True), nontrivial=fin, tags=tags)

    def _train_case(self, kind, script, horizon, pm, iterations):
        recs, st = run_train(kind, script, horizon, pm, iterations, self.tmp)
        line = wire.enc(["train", kind, script_to_wire(script), horizon, pm, iterations, recs])
        desc = {"kind": kind, "script": script, "horizon": horizon, "pmap": pm, "trainer": "train",
                "iterations": iterations}
        tags = [mgr.KINDS[kind], "train", "iterations:%d" % iterations]
        if st != "ok":
            tags.append("exc:" + st)
        early = any(len(r[5]) - 1 >= horizon for r in recs)
        return core.Case(desc, line, wire.enc(recs), key=json.dumps(desc, sort_keys=True), nontrivial=early, tags=tags)

    def case_from_desc(self, d):
        self._ensure_tmp()
        if d["trainer"] == "train":
            return self._train_case(d["kind"], d["script"], d["horizon"], d["pmap"], d["iterations"])
        return self._case(d["kind"], d["script"], d["horizon"], d["pmap"], d["trainer"])

    def _ensure_tmp(self):
        if self.tmp is None:
            self.tmp = tempfile.mkdtemp(prefix="abmarl_verif_")

    def cases(self, tier, rng):
        self._ensure_tmp()
        try:
            quick = tier == "quick"
            ml, mn, mt = (2, 1, 2) if quick else (3, 1, 3)
            for script in mgr.exhaustive_scripts(ml, mn, mt):
                if script["finishAt"] == 1 and not quick:
                    pass
                for kind in (0, 1, 2):
                    for horizon in (0, 1, mt, mt + 3):
                        n = script["n"]
                        for tkind, pm in (("single", [0] * n), ("multi", [i % 2 for i in range(n)])):
                            yield self._case(kind, script, horizon, pm, tkind)
            for _ in range(1500 if quick else 50000):
                kind = rng.randrange(3)
                script = mgr.gen_script(rng, allow_big=True)
                if kind == 2:
                    # the documented duty of a dynamic-order simulation: nominate a live agent
                    script["noms"] = []
                horizon = rng.randint(0, 12)
                tkind = rng.choice(["single", "multi", "debug"])
                pm = [rng.randrange(3) for _ in range(script["n"])]
                if rng.random() < 0.3:
                    script["warm"] = rng.randrange(10 ** 6)     # the trainer object was used before (run_episode)
                yield self._case(kind, script, horizon, pm, tkind)
            # what the small scopes never reach: episodes of more than 500 steps (written to the trainer's log),
            # with an agent and the simulation finishing after step 500
            for _ in range(2 if quick else 10):
                n = rng.randint(2, 4)
                late = rng.randint(501, 520)
                script = {"n": n, "learning": [True] * n,
                          "doneAt": [rng.choice([late - 3, 1000000]) for _ in range(n)],
                          "finishAt": late, "noms": []}
                pm = [rng.randrange(2) for _ in range(n)]
                yield self._train_case(rng.randrange(2), script, late + rng.randint(5, 40), pm, 1)
            # DebugTrainer.train: several episodes in a row with an explicit horizon
            for _ in range(150 if quick else 5000):
                kind = rng.randrange(3)
                script = mgr.gen_script(rng, allow_big=True)
                if kind == 2:
                    script["noms"] = []
                pm = [rng.randrange(3) for _ in range(script["n"])]
                yield self._train_case(kind, script, rng.randint(0, 6), pm, rng.randint(1, 4))
        finally:
            shutil.rmtree(self.tmp, ignore_errors=True)
            self.tmp = None

    def interpret(self, reply, case):
        model, ms, is_ = reply
        if is_ not in (0, 1):
            raise ValueError("driver could not parse the implementation record")
        return core.Verdict(wire.enc(model), ms == 1, is_ == 1)

    def extra_checks(self, tier, rng, rep):
        """constructor alignment check (runtime-only here; modelled as checkAlignment in Lean)"""
        script = {"n": 2, "learning": [True, True], "doneAt": [9, 9], "finishAt": 9, "noms": []}
        sim = StubSim(script)
        manager = mgr.make_manager(0, sim, False)
        good = dict(action_space=Discrete(10), observation_space=MultiDiscrete([1000] * 4))
        bads = [dict(action_space=Discrete(9), observation_space=MultiDiscrete([1000] * 4)),
                dict(action_space=Discrete(10), observation_space=MultiDiscrete([1000] * 3))]
        try:
            PlainMulti(sim=manager, policies={"p": CountingPolicy(0, [], **good)}, policy_mapping_fn=lambda a: "p")
        except AssertionError:
            rep.runtime_failure("aligned policy spaces rejected by the trainer constructor", script)
        # one policy shared by two agents of which only ONE has the policy's spaces (the fitting one listed first, then
        # the other way round): every agent is checked against its policy, not every policy against its first agent
        from abmarl.sim import Agent, AgentBasedSimulation
        from abmarl.managers import AllStepManager

        class _TwoSpaces(AgentBasedSimulation):
            def __init__(self, first_fits):
                fit = Agent(id="fit", **good)
                odd = Agent(id="odd", **bads[0])
                self.agents = {"fit": fit, "odd": odd} if first_fits else {"odd": odd, "fit": fit}
                self.finalize()

            def reset(self, **kw): pass
            def step(self, action_dict, **kw): pass
            def render(self, **kw): pass
            def get_obs(self, agent_id, **kw): return [0, 0, 0, 0]
            def get_reward(self, agent_id, **kw): return 0
            def get_done(self, agent_id, **kw): return False
            def get_all_done(self, **kw): return False
            def get_info(self, agent_id, **kw): return {}
        # an entity that is not an agent, listed BEFORE an agent whose policy does not fit: every agent is checked, the
        # walk does not end at the first non-agent
        from abmarl.sim import PrincipleAgent

        class _WallFirst(_TwoSpaces):
            def __init__(self):
                self.agents = {"wall": PrincipleAgent(id="wall"), "fit": Agent(id="fit", **good),
                               "odd": Agent(id="odd", **bads[0])}
                self.finalize()
        try:
            PlainMulti(sim=AllStepManager(_WallFirst()), policies={"p": CountingPolicy(0, [], **good)},
                       policy_mapping_fn=lambda a: "p")
            rep.runtime_failure("trainer constructor accepted a policy whose spaces differ from those of an agent listed "
                                "after a non-learning entity", None)
        except AssertionError:
            pass
        # the debug trainer run WITHOUT policies builds one random policy per agent - over that agent's own spaces
        try:
            from abmarl.trainers import DebugTrainer
            import shutil
            import tempfile
            scratch = tempfile.mkdtemp(prefix="verif_c16_")
            try:
                dt = DebugTrainer(sim=AllStepManager(_TwoSpaces(True)), output_dir=scratch)
                for aid, ag in dt.sim.agents.items():
                    pol = dt.policies[dt.policy_mapping_fn(aid)]
                    if not (pol.observation_space == ag.observation_space and pol.action_space == ag.action_space):
                        rep.runtime_failure("DebugTrainer without policies: the policy built for an agent does not have "
                                            "that agent's spaces", {"agent": aid})
            finally:
                shutil.rmtree(scratch, ignore_errors=True)
        except Exception as ex:  # noqa: BLE001
            rep.runtime_failure("DebugTrainer without policies could not be built: %s: %s" % (type(ex).__name__, ex), None)
        for first_fits in (True, False):
            try:
                PlainMulti(sim=AllStepManager(_TwoSpaces(first_fits)), policies={"p": CountingPolicy(0, [], **good)},
                           policy_mapping_fn=lambda a: "p")
                rep.runtime_failure("trainer constructor accepted a shared policy whose spaces differ from those of one "
                                    "of its agents", {"fitting_agent_listed_first": first_fits})
            except AssertionError:
                pass
        for bad in bads:
            try:
                PlainMulti(sim=manager, policies={"p": CountingPolicy(0, [], **good), "q": CountingPolicy(1, [], **bad)},
                           policy_mapping_fn=lambda a: "q" if a == sim.ids[1] else "p")
                rep.runtime_failure("trainer constructor accepted a policy whose spaces differ from its agent's",
                                    {"bad": str(bad)})
            except AssertionError:
                pass
