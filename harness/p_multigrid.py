"""MultiAgentGridSim (abmarl/examples/sim/multi_agent_grid_sim.py) against the model of its glue
(lean/Abmarl/Model/MultiGrid.lean: reset = PositionState.reset, everything else constant).  Its cases ride in the
streams of harness/p_examples.py with `which == "multigrid"`; p_examples dispatches here.

desc = {"stream", "which": "multigrid", "p": {"rows", "cols", "overlap", "agents": [descriptors of harness/gridw.py],
        "no", "rand"}, "ops": [["reset", tape] | ["step", [agent...], form] | ["obs", a] | ["rew", a] | ["done", a] |
        ["alldone"]], "twin"?, "scribble"?}   (an agent index >= n is sent as an unknown id)
"""
import copy
import json

import compat  # noqa: F401
import numpy as np

import core
import gridw
import mgr
import oracle
import wire
import p_place
from p_place import guarded
from p_attack import fenc

from abmarl.sim import is_agent
from abmarl.managers import AllStepManager, TurnBasedManager

BAD = 999999937


def build(p):
    from abmarl.examples.sim.multi_agent_grid_sim import MultiAgentGridSim
    al = [gridw.make_agent(i, a) for i, a in enumerate(p["agents"])]
    kw = dict(agents={a.id: a for a in al}, overlapping={int(e): set(s) for e, s in p["overlap"]})
    if p.get("no"):
        kw["no_overlap_at_reset"] = True
    if p.get("rand"):
        kw["randomize_placement_order"] = True
    return MultiAgentGridSim.build_sim(p["rows"], p["cols"], **kw)


def _session(p, scribble=False):
    import p_examples
    p_examples.BUILD.setdefault("multigrid", build)

    class MGSession(p_examples.ExSession):
        def __init__(self, p, scribble=False):
            super().__init__("multigrid", p, 0, scribble=scribble)
            self.states = {"position": self.sim.position_state}
            self.comp_names = ["position"]
            self.n = len(self.al)

        def cfg_wire(self):
            return ["multigrid", self.learning, self.comp_wire("position")]

        def aid(self, a):
            return self.al[a].id if a < self.n else "nobody%d" % a

        def op_wire(self, op):
            if op[0] == "reset":
                return ["reset", self.comp_wire("position"), list(op[1])]
            if op[0] == "step":
                return ["step", [int(a) for a in op[1]]]
            if op[0] in ("obs", "rew", "done"):
                return [op[0], int(op[1])]
            return ["alldone"]

        def action_for(self, a, form):
            """a point of the agent's declared action space (the empty Dict: `{}`), or whatever for an entity"""
            return {} if form % 2 == 0 else dict()

        def obs_wire(self, a, o):
            if not isinstance(o, dict):
                return [BAD, 0]
            sp = getattr(self.al[a], "observation_space", None) if a < self.n else None
            try:
                member = True if sp is None else bool(o in sp)
            except Exception:  # noqa: BLE001
                member = False
            return [len(o), int(member)]

        def do(self, op):
            sim = self.sim
            kind = op[0]
            res = None
            if kind == "reset":
                with self._scripted(op[1]):
                    st, val = guarded(sim.reset, seconds=20.0)
                res = ["unit"] if val is None else ["int", BAD]
            elif kind == "step":
                ad = {self.aid(a): self.action_for(a, op[2] if len(op) > 2 else 0) for a in op[1]}
                st, val = guarded(lambda: sim.step(ad))
                res = ["unit"] if val is None else ["int", BAD]
                if self.scribble:
                    ad.clear()
            elif kind == "obs":
                st, val = guarded(lambda: sim.get_obs(self.aid(op[1])))
                if st == "ok":
                    res = ["obs"] + self.obs_wire(op[1], val)
                    if self.scribble and isinstance(val, dict):
                        val["scribbled"] = 1          # the caller writes into what it was handed
            elif kind == "rew":
                st, val = guarded(lambda: sim.get_reward(self.aid(op[1])))
                if st == "ok":
                    res = ["int", int(val) if isinstance(val, (int, np.integer)) and not isinstance(val, bool) else BAD]
            elif kind == "done":
                st, val = guarded(lambda: sim.get_done(self.aid(op[1])))
                if st == "ok":
                    res = ["bool", bool(val)] if isinstance(val, (bool, np.bool_)) else ["int", BAD]
            else:
                st, val = guarded(sim.get_all_done)
                if st == "ok":
                    res = ["bool", bool(val)] if isinstance(val, (bool, np.bool_)) else ["int", BAD]
            if st != "ok":
                return [["err", st], []]
            return [res, self.sw.dyn_wire()]
    return MGSession(p, scribble)


def gen_params(rng, big=False):
    rows, cols = (rng.randint(1, 4), rng.randint(1, 5)) if not big else (rng.randint(8, 10), rng.randint(8, 10))
    nenc = rng.randint(1, 3)
    encs = list(range(1, nenc + 1))
    r = rng.random()
    if r < 0.4:
        overlap = []
    elif r < 0.7:
        overlap = [[e, [e]] for e in encs]
    else:
        overlap = [[e, encs] for e in encs]
    n = rng.randint(1, min(6, rows * cols)) if not big else rng.randint(30, 40)
    if overlap and rng.random() < 0.4 and not big:
        n = rng.randint(1, 9)                       # more agents than cells is fine when they may share
    ags = []
    cells = [(r_, c_) for r_ in range(rows) for c_ in range(cols)]
    rng.shuffle(cells)
    for i in range(n):
        a = dict(gridw.AG_DEFAULT)
        a["enc"] = rng.choice(encs)
        a["blocking"] = rng.random() < 0.2
        a["observing"] = rng.random() < 0.6
        a["view_range"] = rng.choice([0, 1, 2])
        a["moving"] = rng.random() < 0.5
        a["move_range"] = 1
        if rng.random() < 0.35 and i < len(cells):
            a["init_pos"] = list(cells[i])          # distinct initial positions
        ags.append(a)
    if not any(a["observing"] or a["moving"] for a in ags):
        ags[0]["observing"] = True
    return {"rows": rows, "cols": cols, "overlap": overlap, "agents": ags, "no": rng.random() < 0.4,
            "rand": rng.random() < 0.4}


def tape_of(rng, n):
    return [rng.randrange(4096) for _ in range(3 * n + 20)]


def gen_history(rng, sess, n_ops, episodes):
    ops, entries = [], []
    n = sess.n

    def push(op):
        e = sess.do(op)
        ops.append(op)
        entries.append(e)
        return e[0][0] != "err"

    def who():
        return rng.randrange(n) if rng.random() < 0.92 else n + rng.randrange(2)
    ep = 0
    if rng.random() < 0.15:                          # the getters answer before the first reset too
        for _ in range(rng.randint(1, 3)):
            push(rng.choice([["obs", who()], ["rew", who()], ["done", who()], ["alldone"], ["step", [who()], 0]]))
    while len(ops) < n_ops:
        r = rng.random()
        if ep == 0 or (r < 0.12 and ep < episodes):
            ep += 1
            if not push(["reset", tape_of(rng, n)]):
                break
            continue
        if r < 0.4:
            acts = [a for a in sess.actors if rng.random() < 0.8]
            if rng.random() < 0.1:
                acts.append(who())
            rng.shuffle(acts)
            push(["step", acts, rng.randrange(2)])
        elif r < 0.65:
            push(["obs", who()])
        elif r < 0.8:
            push(["rew", who()])
        elif r < 0.92:
            push(["done", who()])
        else:
            push(["alldone"])
    return ops, entries


class MGCase(core.Case):
    __slots__ = ("stream",)


def make_case(desc, sess, ops, entries):
    opw = [sess.op_wire(op) for op in ops[:len(entries)]]
    head = "(gexample " + fenc(sess.cfg_wire()) + " " + wire.enc(sess.stat) + " " + fenc(sess.dyn0) + " " + fenc(opw)
    outs = fenc(entries)
    tags = ["stream:" + desc["stream"], "example:multigrid"]
    if desc.get("scribble"):
        tags.append("ex-caller-overwrites-returned-values")
    tags.append("ex-episodes:%d" % min(sum(1 for op in ops if op[0] == "reset"), 4))
    if sess.n >= 30:
        tags.append("mg-big:30+agents")
    changed = False
    prev = None
    for op, e in zip(ops, entries):
        tags.append("ex-op:" + op[0])
        if e[0][0] == "err":
            tags.append("ex-err:%s:%s" % (op[0], e[0][1]))
            break
        if op[0] == "reset" and prev is not None and e[1] != prev:
            changed = True
        prev = e[1]
    c = MGCase(desc, head + " " + outs + ")", outs, key=core._hash(head), nontrivial=changed, tags=sorted(set(tags)))
    c.stream = desc["stream"]
    return c


def case_from_desc(d):
    sess = _session(copy.deepcopy(d["p"]), scribble=bool(d.get("scribble")))
    other = _session(copy.deepcopy(d["p"])) if d.get("twin") else None
    entries = []
    for k, op in enumerate(d["ops"]):
        if other is not None and k % 3 == 1:
            other.do(d["ops"][0] if k < 3 else op)
        e = sess.do(op)
        entries.append(e)
        if e[0][0] == "err":
            break
    return make_case(d, sess, d["ops"][:len(entries)], entries)


def gen_cases(rng, stream, count, quick=True):
    made = 0
    while made < count:
        big = made == 0
        p = gen_params(rng, big=big)
        scribble = rng.random() < 0.15
        try:
            sess = _session(copy.deepcopy(p), scribble=scribble)
        except (AssertionError, ValueError, KeyError, TypeError):
            continue
        ops, entries = gen_history(rng, sess, rng.randint(4, 30) if not big else 160, rng.randint(1, 4))
        if len(entries) == 1 and entries[0][0][0] == "err" and rng.random() < 0.7:
            continue
        d = {"stream": stream, "which": "multigrid", "p": p, "ops": ops[:len(entries)]}
        if scribble:
            d["scribble"] = True
        if rng.random() < 0.25 and not big:
            d["twin"] = True
            yield case_from_desc(d)
        else:
            yield make_case(d, sess, ops, entries)
        made += 1


def interpret(reply, case):
    import p_examples
    model, ms, is_, pre = reply
    if is_ not in (0, 1):
        raise ValueError("driver could not parse the implementation's trace")
    detail = {"pre": pre, "spec_on_impl": is_, "spec_on_model": ms}
    case.tags.append("ex-pre:%d" % pre)
    ms_ = fenc(model)
    if ms_ != case.impl:
        impl = wire.dec(case.impl)
        k = next((i for i, (x, y) in enumerate(zip(model, impl)) if x != y), min(len(model), len(impl)))
        detail["first_differing_call"] = k
        detail["op_at_that_call"] = case.desc["ops"][k] if k < len(case.desc["ops"]) else None
        if k < len(model) and k < len(impl):
            for name, j in (("result", 0), ("world", 1)):
                if model[k][j] != impl[k][j]:
                    detail["differs_in"] = name
                    detail["model_" + name] = fenc(model[k][j])[:600]
                    detail["impl_" + name] = fenc(impl[k][j])[:600]
                    break
    return core.Verdict(ms_, (ms == 1) if pre == 1 else None, is_ == 1, detail)


def shrink_candidates(d):
    ops = d["ops"]
    n = len(ops)
    if d.get("twin"):
        yield {k: v for k, v in d.items() if k != "twin"}
    if d.get("scribble"):
        yield {k: v for k, v in d.items() if k != "scribble"}
    if n > 2:
        yield {**d, "ops": ops[:1 + (n - 1) // 2]}
    for k in range(n - 1, 0, -1):
        yield {**d, "ops": ops[:k] + ops[k + 1:]}


# ----------------------------------------------------------------------------------------------
# managers over the real object (nobody is ever done: the history is cut by the generator)

class _MGLogged:
    def __init__(self, sess):
        self.sess = sess
        self.step_log = []
        self.sim_raised = None
        sim = sess.sim
        real_step, real_reset = sim.step, sim.reset

        def watch(name, fn):
            def run(*a, **kw):
                try:
                    return fn(*a, **kw)
                except Exception as ex:  # noqa: BLE001
                    if self.sim_raised is None:
                        self.sim_raised = f"{name}: {type(ex).__name__}: {ex}"
                    raise
            return run

        def step(action_dict, **kw):
            self.step_log.append([(k, v) for k, v in action_dict.items()])
            return real_step(action_dict, **kw)
        sim.step, sim.reset = watch("step", step), watch("reset", real_reset)

    def ghost(self):
        s = self.sess
        return [False, [False] * s.n, [0] * s.n, []]


class MGMgrSession:
    def __init__(self, d):
        from p_examples import _Shuffle2
        self._Shuffle2 = _Shuffle2
        self.d = d
        self.sess = _session(copy.deepcopy(d["p"]))
        self.log = _MGLogged(self.sess)
        sim = self.sess.sim
        self.mgr = AllStepManager(sim, randomize_action_input=bool(d["shuffle"])) if d["kind"] == 0 \
            else TurnBasedManager(sim)
        self.stape = oracle.Tape(d["stape"])
        self.mtape = oracle.Tape(d["mtape"])
        self.trace, self.ops = [], []
        self.last = None
        self.dead = False

    def apply(self, op):
        s = self.sess
        before = len(self.log.step_log)
        with oracle.scripted(self.stape), p_place._MazePatch(self.stape, []), self._Shuffle2(self.mtape):
            if op[0] == "r":
                st, val = mgr.guarded(lambda: self.mgr.reset(), seconds=20.0)
            else:
                ad = {s.aid(a): s.action_for(a, f) for a, f in op[1]}
                st, val = mgr.guarded(lambda: self.mgr.step(ad), seconds=20.0)
        if self.log.sim_raised is not None:
            self.dead = True
            return "sim-raised", None
        stepped = len(self.log.step_log) > before
        cd = lambda dct, f: [[s.idx[k], f(v)] for k, v in dct.items()]  # noqa: E731
        cobs = lambda dct: [[s.idx[k], s.obs_wire(s.idx[k], v)] for k, v in dct.items()]  # noqa: E731
        rew = lambda v: int(v) if isinstance(v, (int, np.integer)) and not isinstance(v, bool) else BAD  # noqa: E731
        if st == "ok":
            if op[0] == "r":
                res = ["r", cobs(val)]
            else:
                obs, rw, done, info = val
                dd = {k: v for k, v in done.items() if k != "__all__"}
                res = ["s", cobs(obs), cd(rw, rew), cd(dd, bool), cd(info, lambda i: []), bool(done.get("__all__"))]
        else:
            res = ["e", st]
        sa = ["y", [[s.idx[k], 0 if v == {} else BAD] for k, v in self.log.step_log[-1]]] if stepped else ["n"]
        self.ops.append(op)
        self.trace.append([res, sa, [0] * s.n, self.log.ghost()])
        if st == "ok":
            self.last = (op[0], val)
        elif st != "rejected":
            self.dead = True
        return st, val


def mgr_case(d, ms):
    s = ms.sess
    opw = [["r"] if op[0] == "r" else ["s", [[int(a), 0] for a, _ in op[1]]] for op in ms.ops]
    head = ("(mgrx " + fenc(s.cfg_wire()) + " " + wire.enc(s.stat) + " " + fenc(s.dyn0) + " " +
            wire.enc([d["kind"], bool(d["shuffle"]), list(d["mtape"]), list(d["stape"])])[1:-1] + " " + fenc(opw))
    outs = fenc(ms.trace)
    tags = ["stream:example-mgr", "example:multigrid", mgr.KINDS[d["kind"]]]
    for e in ms.trace:
        if e[0][0] == "e":
            tags.append("err:" + e[0][1])
    tags.append("eps:%d" % sum(1 for o in ms.ops if o[0] == "r"))
    desc = dict(d, ops=ms.ops)
    c = MGCase(desc, head + " " + outs + ")", outs, key=core._hash(head), nontrivial=len(ms.ops) > 2,
               tags=sorted(set(tags)))
    c.stream = "example-mgr"
    return c


def mgr_case_from_desc(d):
    ms = MGMgrSession(d)
    for op in d["ops"]:
        if ms.dead:
            break
        ms.apply(op)
    return mgr_case(d, ms)


def gen_mgr_cases(rng, count):
    made = 0
    while made < count:
        p = gen_params(rng, big=(made == 0))
        kind = rng.randrange(2)
        shuffle = kind == 0 and rng.random() < 0.5
        if shuffle:
            # randomize_action_input and randomize_placement_order both call random.shuffle: the harness cannot hand
            # them different tapes (the model keeps the manager's tape and the simulation's apart)
            p["rand"] = False
        d = {"stream": "example-mgr", "which": "multigrid", "p": p, "kind": kind, "shuffle": shuffle,
             "mtape": [rng.randrange(1000) for _ in range(600)] if shuffle else [],
             "stape": [rng.randrange(4096) for _ in range(500)]}
        try:
            ms = MGMgrSession(d)
        except (AssertionError, ValueError, KeyError, TypeError):
            continue
        s = ms.sess
        if not any(s.learning):
            continue
        episodes, ep = rng.randint(1, 3), 1
        max_ops = rng.randint(3, 14)
        st, _ = ms.apply(["r"])
        while st == "ok" and len(ms.ops) < max_ops and not ms.dead and ms.last is not None:
            lk, val = ms.last
            if rng.random() < 0.12 and ep < episodes:
                ms.apply(["r"])
                ep += 1
                continue
            live = [s.idx[k] for k in (val if lk == "r" else val[0])]
            who = live[-1:] if kind == 1 else ([a for a in live if rng.random() < 0.85] if rng.random() < 0.4 else live)
            who = list(who)
            rng.shuffle(who)
            ms.apply(["s", [[a, rng.randrange(2)] for a in who]])
        if not ms.trace or (ms.trace[0][0][0] == "e" and rng.random() < 0.8):
            continue
        made += 1
        yield mgr_case(d, ms)


# ----------------------------------------------------------------------------------------------
# C08: used versus fresh twin

def twin_case(d):
    used = _session(copy.deepcopy(d["p"]))
    for op in d["pops"]:
        if used.do(op)[0][0] == "err":
            break
    uent = []
    for op in d["fops"]:
        e = used.do(op)
        uent.append(e)
        if e[0][0] == "err":
            break
    fresh = _session(copy.deepcopy(d["p"]))
    fent = []
    for op in d["fops"]:
        e = fresh.do(op)
        fent.append(e)
        if e[0][0] == "err":
            break
    fops = d["fops"][:len(uent)]
    c = make_case(dict(d, ops=fops, stream="example-twin"), fresh, fops, uent)
    c.desc = d
    same = fenc(uent) == fenc(fent)
    c.tags = [t for t in c.tags if not t.startswith("stream:")] + [
        "layer:example", "twin:" + ("same" if same else "DIFFERENT"),
        "prefix-len:" + ("0" if not d["pops"] else "1-5" if len(d["pops"]) <= 5 else "6+")]
    c.nontrivial = len(d["pops"]) > 1
    c.key = core._hash(json.dumps(d, sort_keys=True))
    return c


def gen_twin_cases(rng, count):
    made = 0
    while made < count:
        p = gen_params(rng)
        try:
            used = _session(copy.deepcopy(p))
        except (AssertionError, ValueError, KeyError, TypeError):
            continue
        pops, pent = gen_history(rng, used, rng.randint(1, 20), rng.randint(1, 3))
        if pent and pent[-1][0][0] == "err" and rng.random() < 0.9:
            continue
        fops, fent = gen_history(rng, used, rng.randint(2, 10), 1)
        fops = [op for op in fops[:len(fent)]]
        if not fops or fops[0][0] != "reset":
            fops = [["reset", tape_of(rng, used.n)]] + fops
        made += 1
        yield twin_case({"layer": "example", "which": "multigrid", "p": p, "pops": pops[:len(pent)], "fops": fops})


def twin_interpret(reply, case):
    d = dict(case.desc)
    d["ops"] = d["fops"]
    inner = core.Case(d, case.line, case.impl, tags=case.tags)
    v = interpret(reply, inner)
    case.tags[:] = inner.tags
    same = "twin:same" in case.tags
    v.detail["used_equals_fresh_twin"] = same
    return core.Verdict(v.model, v.model_spec, same and v.impl_spec, v.detail)


def twin_shrink_candidates(d):
    for k in range(len(d["pops"]) - 1, -1, -1):
        yield dict(d, pops=d["pops"][:k] + d["pops"][k + 1:])
    for k in range(len(d["fops"]) - 1, 0, -1):
        yield dict(d, fops=d["fops"][:k])


RULE = (" MultiAgentGridSim (`which: multigrid`, model lean/Abmarl/Model/MultiGrid.lean) rides in the same streams: "
        "grids 1x1 .. 4x5 (the first case of every run 8-10 x 8-10 with 30-40 agents and 160 calls), 1-3 encodings, "
        "empty / diagonal / full overlap tables, agents of arbitrary classes with and without initial positions, "
        "no_overlap_at_reset and randomize_placement_order on and off, 1-4 episodes on one object, getters before the "
        "first reset and for unknown ids; the dumped world after every call is compared with the model's and judged "
        "by MAG.specMAG (WInv and everybody alive after every reset, step and getters change nothing, observation = "
        "the empty dict and a member of the declared space, reward 0, nobody done).")
