"""Rejected assignments on a live object (round 6 of the seeded changes, DESIGN.md 11.6).

`rejected(obj, desc)` assigns, through every public validated setter of `obj`, values that the setter must refuse -
most of them HALF valid: the present value re-arranged (so that it differs from what is in force) with one malformed
item at the end or at the start - and catches the refusal.  Nothing else is done: the case then goes on as if nothing
had happened, and the model never hears of it, because *an assignment that was rejected leaves the old value in force*.
A setter that stores first and validates afterwards, or that validates and commits row by row, shows up in the very
next call as a disagreement with the model.

A value that the setter ACCEPTS (setters differ in what they validate) is undone by assigning the value that was read
before, through the same setter.

Deterministic: which properties are poked and with what follows from a CRC of the case description, so a replay pokes
in the same way.  `STATS` counts what happened (printed into the evidence by the property modules that use it)."""
import json
import random
import zlib

import numpy as np

STATS = {"objects": 0, "assignments": 0, "rejected": 0, "accepted_and_restored": 0, "unreadable": 0}

# read-only for our purposes: assigning these re-wires the object under test rather than configuring it
SKIP = {"agents", "grid", "sim", "unwrapped", "null_value", "key", "supported_agent_type", "position", "id",
        "observation_space", "action_space", "render_shape", "render_color", "render_size", "active"}


def _seed(desc):
    try:
        s = json.dumps(desc, sort_keys=True, default=str)
    except Exception:  # noqa: BLE001
        s = repr(desc)
    return zlib.crc32(s.encode())


def _bad_item(rng):
    return rng.choice(["x", None, 1.5, [1], (2,), -7, 10 ** 6 + 7])


def _variants(cur, rng):
    """values a validating setter must refuse, built around the value in force"""
    out = []
    if isinstance(cur, (bool, np.bool_)):
        out += [int(not cur), None, "x", np.bool_(not cur)]
    elif isinstance(cur, (int, np.integer)):
        out += ["x", 1.5, [int(cur)], -7 - abs(int(cur))]
    elif isinstance(cur, float):
        out += ["x", [cur], None]
    elif isinstance(cur, dict):
        items = list(cur.items())
        keys = [k for k, _ in items]
        vals = [v for _, v in items]
        if len(items) >= 2:
            rot = vals[1:] + vals[:1]
            moved = dict(zip(keys, rot))                      # valid rows, but not the ones in force
        else:
            moved = dict(items)
        k0 = keys[0] if keys else 1
        newkey = (k0 + 1000) if isinstance(k0, (int, np.integer)) and not isinstance(k0, bool) else "zz_not_there"
        tail = dict(moved)
        tail[newkey] = _bad_item(rng)                         # malformed row AFTER the valid ones
        head = {newkey: _bad_item(rng)}
        head.update(moved)                                    # ... and BEFORE them
        out += [tail, head]
        if items:
            lastbad = dict(moved)
            lastbad[keys[-1]] = rng.choice(["x", 1.5, None, [object()]])   # an existing key with a malformed value
            out.append(lastbad)
            selfref = dict(moved)
            v = vals[0]
            if isinstance(v, (set, frozenset, list)):
                selfref[keys[-1]] = type(v)(list(v) + ["x"])  # a row of the right type holding a malformed member
                out.append(selfref)
        out += [list(items), None if items else "x"]
    elif isinstance(cur, (set, frozenset)):
        big = set(cur) | {10 ** 6 + 7}
        other = set(cur) ^ set(rng.sample(range(1, 9), 2))      # other members than the ones in force ...
        out += [set(cur) | {"x"}, big, other | {"x"}, other | {10 ** 6 + 7}, sorted(cur, key=repr) + ["x"]]
    elif isinstance(cur, (list, tuple)):
        out += [type(cur)(list(cur) + ["x"]), "x", 1.5]
    elif isinstance(cur, np.ndarray):
        out += ["x", cur.astype(float) + 0.5, None]
    elif cur is None:
        out += ["x", -7, 1.5]
    elif callable(cur):
        out += ["x", 7]
    elif not isinstance(cur, (str, bytes)):
        out += ["x", 7, [cur]]                               # some object: a string, a number, a list are not one
    rng.shuffle(out)
    return out[:3]


def _props(obj):
    seen = {}
    for klass in type(obj).__mro__:
        for name, attr in vars(klass).items():
            if isinstance(attr, property) and attr.fset is not None and not name.startswith("_") \
                    and name not in SKIP and name not in seen:
                seen[name] = attr
    return sorted(seen)


def rejected(obj, desc, share=3, only=None):
    """poke `obj` (one case in `share`, decided by the description); returns the number of refused assignments"""
    seed = _seed(desc)
    if share and seed % share:
        return 0
    rng = random.Random(seed)
    STATS["objects"] += 1
    refused = 0
    for name in _props(obj):
        if only is not None and name not in only:
            continue
        try:
            cur = getattr(obj, name)
        except Exception:  # noqa: BLE001
            STATS["unreadable"] += 1
            continue
        for bad in _variants(cur, rng):
            STATS["assignments"] += 1
            try:
                setattr(obj, name, bad)
            except Exception:  # noqa: BLE001
                STATS["rejected"] += 1
                refused += 1
                continue
            # accepted: put back what was there
            STATS["accepted_and_restored"] += 1
            try:
                setattr(obj, name, cur)
            except Exception:  # noqa: BLE001
                pass
    return refused
