#!/bin/bash
# tools/recheck_seeded.sh [ids...]  -- regression of the detection: applies every archived seeded change to /repo,
# runs the checks named in its meta.json (quick tier), expects exit 1 with a VIOLATION line, undoes the change.
# Leaves evidence/ and replays/ as they were.  One line per seeded change; exit 1 if any is no longer caught.
cd "$(dirname "$0")/.."
if ! git -C /repo diff --quiet; then echo "/repo has uncommitted changes; refusing"; exit 2; fi
IDS=${@:-$(ls seeded)}
bad=0
for id in $IDS; do
  d=seeded/$id
  checks=$(python3 -c "import json;print(' '.join(json.load(open('$d/meta.json'))['caught_by']))")
  git -C /repo apply "$PWD/$d/patch.diff" 2>/dev/null || { echo "$id: patch does not apply any more"; bad=1; continue; }
  res=""
  for c in $checks; do
    before=$(ls replays 2>/dev/null | sort)
    out=$(VERIF_NO_EVIDENCE=1 ./check $c --tier quick 2>&1); rc=$?
    for f in $(comm -13 <(echo "$before") <(ls replays 2>/dev/null | sort)); do rm -f replays/$f; done
    if [ $rc -eq 1 ] && echo "$out" | grep -q '^VIOLATION'; then res="$res $c:caught"; else res="$res $c:MISSED(rc=$rc)"; bad=1; fi
  done
  git -C /repo checkout -q -- .
  echo "$id:$res"
done
exit $bad
