#!/usr/bin/env python3
"""Regenerate lean/Abmarl/Audit/Cxx.lean from lean/obligations.json."""
import json
import os

LEAN = os.path.join(os.path.dirname(os.path.dirname(os.path.abspath(__file__))), "lean")
ob = json.load(open(os.path.join(LEAN, "obligations.json")))
# optional top-level key "_imports": {"Cxx": ["Abmarl.Props.Examples", ...]} -- further modules that hold theorems
# of the property (Props/Cxx.lean must not import them: they import it)
extra = ob.pop("_imports", {})
for pid, names in ob.items():
    with open(os.path.join(LEAN, "Abmarl", "Audit", pid + ".lean"), "w") as f:
        f.write(f"import Abmarl.Props.{pid}\n" + "".join(f"import {m}\n" for m in extra.get(pid, [])) +
                "".join(f"#print axioms {n}\n" for n in names))
print("audit files:", sorted(ob))
